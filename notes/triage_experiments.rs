extern crate redirectionio;

use redirectionio::RouterConfig;
use redirectionio::action::Action;
use redirectionio::api::{BodyFilter, HTMLBodyFilter, Rule};
use redirectionio::filter::{Buffer, FilterBodyAction};
use redirectionio::http::{Header, PathAndQueryWithSkipped, Request};
use redirectionio::router::Router;
use std::panic::catch_unwind;

fn rule(json: &str) -> Rule {
    serde_json::from_str(json).expect("rule json")
}

fn req(cfg: &RouterConfig, uri: &str, host: Option<&str>, ip: Option<&str>) -> Request {
    Request::from_config(
        cfg,
        uri.to_string(),
        host.map(|s| s.to_string()),
        Some("http".to_string()),
        Some("GET".to_string()),
        ip.map(|s| s.parse().unwrap()),
        None,
    )
}

#[test]
fn e1_buffer_duplicate() {
    let r = catch_unwind(|| {
        let b = Buffer::from_vec(vec![1, 2, 3]);
        let d = b.duplicate();
        d.into_vec()
    });
    println!("E1 duplicate non-empty buffer: {:?}", r.as_ref().map(|v| v.clone()).map_err(|_| "PANIC"));
}

#[test]
fn e2_chunk_split_in_script() {
    let mk = || {
        FilterBodyAction::new(
            vec![BodyFilter::HTML(HTMLBodyFilter {
                action: "append_child".to_string(),
                element_tree: vec!["html".to_string(), "body".to_string()],
                css_selector: None,
                value: "<X/>".to_string(),
                id: None,
                target_hash: None,
                inner_value: None,
            })],
            &[],
        )
    };
    let doc = "<html><body><script>document.write(\"</body>\")</script><p>z</p></body></html>";
    let mut f = mk();
    let mut whole = f.filter(doc.as_bytes().to_vec(), None);
    whole.extend(f.end(None));
    let cut = doc.find("document").unwrap() + 3;
    let mut f = mk();
    let mut parts = f.filter(doc.as_bytes()[..cut].to_vec(), None);
    parts.extend(f.filter(doc.as_bytes()[cut..].to_vec(), None));
    parts.extend(f.end(None));
    println!("E2 whole = {}", String::from_utf8_lossy(&whole));
    println!("E2 parts = {}", String::from_utf8_lossy(&parts));
    println!("E2 equal = {}", whole == parts);
}

#[test]
fn e3_ip_duplicates() {
    let cfg = RouterConfig::default();
    let mut router = Router::<Rule>::from_config(cfg.clone());
    router.insert(rule(
        r#"{"id":"r1","rank":1,"source":{"path":"/a","ips":[{"in_range":"10.0.0.0/8"},{"in_range":"10.1.0.0/16"}]},"header_filters":[{"action":"add","header":"X-A","value":"1"}]}"#,
    ));
    let q = req(&cfg, "/a", None, Some("10.1.2.3"));
    let m = router.match_request(&q);
    println!("E3 matched ids = {:?}", m.iter().map(|r| r.id().to_string()).collect::<Vec<_>>());
    let mut action = Action::from_routes_rule(m, &q, None);
    let h = action.filter_headers(Vec::new(), 200, false, None);
    println!("E3 headers = {:?}", h);
}

#[test]
fn e4_remove_dynamic_host() {
    let cfg = RouterConfig::default();
    let mut router = Router::<Rule>::from_config(cfg.clone());
    router.insert(rule(
        r#"{"id":"r1","rank":1,"source":{"path":"/a","host":"@sub.example.org"},"markers":[{"name":"sub","regex":"[a-z]+"}]}"#,
    ));
    router.insert(rule(r#"{"id":"r2","rank":1,"source":{"path":"/a","host":"www.example.org"}}"#));
    let q = req(&cfg, "/a", Some("foo.example.org"), None);
    println!("E4 before: {:?}", router.match_request(&q).iter().map(|r| r.id().to_string()).collect::<Vec<_>>());
    let removed = router.remove("r1");
    println!("E4 remove(r1) returned {:?}", removed.map(|r| r.id().to_string()));
    println!("E4 after: {:?} len={}", router.match_request(&q).iter().map(|r| r.id().to_string()).collect::<Vec<_>>(), router.len());
    let removed = router.remove("r2");
    println!("E4 remove(r2) returned {:?}", removed.map(|r| r.id().to_string()));
}

#[test]
fn e5_slice_panics() {
    let cfg = RouterConfig::default();
    for (from, to, uri) in [("5", "3", "/a/abcdefgh"), ("1", "2", "/a/%C3%A9"), ("1", "3", "/a/é")] {
        let r = catch_unwind(|| {
            let mut router = Router::<Rule>::from_config(cfg.clone());
            router.insert(rule(&format!(
                r#"{{"id":"r1","rank":1,"source":{{"path":"/a/@m"}},"target":"/b/@m","status_code":301,"markers":[{{"name":"m","regex":".+","transformers":[{{"type":"slice","options":{{"from":"{}","to":"{}"}}}}]}}]}}"#,
                from, to
            )));
            let q = req(&cfg, uri, None, None);
            let m = router.match_request(&q);
            let n = m.len();
            let mut action = Action::from_routes_rule(m, &q, None);
            (n, action.filter_headers(Vec::new(), 0, false, None))
        });
        println!("E5 slice from={} to={} uri={} -> {:?}", from, to, uri, r.map_err(|_| "PANIC"));
    }
}

#[test]
fn e6_e7_example_panics() {
    use redirectionio::api::{TestExamplesInput, TestExamplesOutput};
    let input = r#"{"router_config":{},"max_hops":3,"project_domains":["example.org"],"rules":[
      {"id":"r1","rank":1,"source":{"path":"/a"},"target":"mailto:joe@example.org","status_code":301,
       "examples":[{"url":"/a","must_match":true,"unit_ids_applied":[]}]}]}"#;
    let r = catch_unwind(|| {
        let i: TestExamplesInput = serde_json::from_str(input).unwrap();
        let o = TestExamplesOutput::create_result_without_project(i);
        o.example_count
    });
    println!("E7 mailto target + project_domains -> {:?}", r.map_err(|_| "PANIC"));
    let input = r#"{"router_config":{},"max_hops":3,"rules":[
      {"id":"r1","rank":1,"source":{"path":"/a"},"target":"/b","status_code":301,
       "examples":[{"url":"/a","must_match":true,"unit_ids_applied":[],"ip_address":"not-an-ip"}]}]}"#;
    let r = catch_unwind(|| {
        let i: TestExamplesInput = serde_json::from_str(input).unwrap();
        let o = TestExamplesOutput::create_result_without_project(i);
        o.example_count
    });
    println!("E6 invalid example ip -> {:?}", r.map_err(|_| "PANIC"));
}

#[test]
fn e8_query_order_marketing_off() {
    for ignore in [true, false] {
        let cfg: RouterConfig = serde_json::from_str(&format!(r#"{{"ignore_marketing_query_params":{}}}"#, ignore)).unwrap();
        let mut router = Router::<Rule>::from_config(cfg.clone());
        router.insert(rule(r#"{"id":"r1","rank":1,"source":{"path":"/a","query":"b=1&a=2"}}"#));
        for uri in ["/a?b=1&a=2", "/a?a=2&b=1", "/a?a=2&b=1+x"] {
            let q = req(&cfg, uri, None, None);
            println!("E8 ignore_marketing={} uri={} matched={}", ignore, uri, router.match_request(&q).len());
        }
    }
}

#[test]
fn e9_script_recursion() {
    for n in [10_000usize, 100_000, 1_000_000, 5_000_000] {
        let mut doc = String::from("<html><body><script>");
        doc.push_str(&"a".repeat(n));
        doc.push_str("</script></body></html>");
        let child = std::thread::Builder::new().stack_size(8 * 1024 * 1024).spawn(move || {
            let mut t = redirectionio::html::Tokenizer::new(doc.into_bytes());
            let mut k = 0;
            while t.next().unwrap() != redirectionio::html::TokenType::ErrorToken {
                k += 1;
            }
            k
        });
        println!("E9 script body {} bytes: spawning", n);
        let r = child.unwrap().join();
        println!("E9 script body {} bytes -> tokens {:?}", n, r.map_err(|_| "PANIC"));
    }
}

#[test]
fn e10_variable_order() {
    let cfg = RouterConfig::default();
    let mut outs = std::collections::BTreeSet::new();
    for _ in 0..64 {
        let mut router = Router::<Rule>::from_config(cfg.clone());
        router.insert(rule(
            r#"{"id":"r1","rank":1,"source":{"path":"/@a1/@b1"},"target":"/t/@a1/@b1","status_code":301,"markers":[{"name":"a1","regex":"[^/]+"},{"name":"b1","regex":"[^/]+"}]}"#,
        ));
        let q = req(&cfg, "/@b1/x", None, None);
        let m = router.match_request(&q);
        let mut action = Action::from_routes_rule(m, &q, None);
        let h = action.filter_headers(Vec::new(), 0, false, None);
        outs.insert(format!("{:?}", h.iter().map(|h| h.value.clone()).collect::<Vec<_>>()));
    }
    println!("E10 distinct Location values over 64 runs: {:?}", outs);
}

#[test]
fn e12_stale_counts() {
    use redirectionio::api::{ExplainRequestInput, ExplainRequestOutput, ExplainRequestProjectInput};
    let cfg = RouterConfig::default();
    let r1 = r#"{"id":"r1","rank":1,"source":{"path":"/a","methods":["GET"]}}"#;
    let r2 = r#"{"id":"r2","rank":1,"source":{"path":"/b","methods":["GET"]}}"#;
    let mut router = Router::<Rule>::from_config(cfg.clone());
    router.insert(rule(r1));
    router.insert(rule(r2));
    let pin: ExplainRequestProjectInput = serde_json::from_str(
        r#"{"example":{"url":"/b","must_match":true},"change_set":{"added":[],"updated":[],"deleted":["r1"]},"max_hops":2}"#,
    )
    .unwrap();
    let inc = ExplainRequestOutput::create_result_from_project(pin, std::sync::Arc::new(router)).ok().unwrap();
    let sin: ExplainRequestInput = serde_json::from_str(&format!(
        r#"{{"router_config":{},"example":{{"url":"/b","must_match":true}},"rules":[{}],"max_hops":2}}"#,
        serde_json::to_string(&cfg).unwrap(),
        r2
    ))
    .unwrap();
    let scr = ExplainRequestOutput::create_result_without_project(sin).ok().unwrap();
    let a = serde_json::to_value(&inc).unwrap();
    let b = serde_json::to_value(&scr).unwrap();
    println!("E12 incremental traces = {}", a["match_traces"]);
    println!("E12 scratch     traces = {}", b["match_traces"]);
}

#[test]
fn e13_truncated_reorder() {
    for action in ["replace", "append_child", "prepend_child"] {
        let mut f = FilterBodyAction::new(
            vec![BodyFilter::HTML(HTMLBodyFilter {
                action: action.to_string(),
                element_tree: vec!["html".to_string(), "body".to_string()],
                css_selector: Some("p.x".to_string()),
                value: "<X/>".to_string(),
                id: None,
                target_hash: None,
                inner_value: None,
            })],
            &[],
        );
        let doc = "<html><body><p>abc</p><di";
        let mut out = f.filter(doc.as_bytes().to_vec(), None);
        out.extend(f.end(None));
        println!("E13 {} in ={}", action, doc);
        println!("E13 {} out={}", action, String::from_utf8_lossy(&out));
    }
}

#[test]
fn e14_capacity_len() {
    let mut v = Vec::with_capacity(64);
    v.extend_from_slice(b"abc");
    let b = Buffer::from_vec(v);
    let back = b.into_vec();
    println!("E14 into_vec len={} cap={}", back.len(), back.capacity());
}

#[test]
fn e15_header_dup() {
    let _ = Header { name: "a".into(), value: "b".into() };
    let _ = PathAndQueryWithSkipped::from_static("/");
}

#[test]
fn e16_explain_vs_pipeline() {
    use redirectionio::api::{ExplainRequestInput, ExplainRequestOutput, UnitIdsInput, UnitIdsOutput};
    let r = r#"{"id":"r1","rank":1,"source":{"path":"/a"},"target":"/b","status_code":301,"redirect_unit_id":"u1","target_hash":"th","examples":[{"url":"/a","must_match":true,"response_status_code":404,"unit_ids_applied":["u1"]}]}"#;
    let sin: ExplainRequestInput = serde_json::from_str(&format!(
        r#"{{"router_config":{{}},"example":{{"url":"/a","must_match":true,"response_status_code":404}},"rules":[{}],"max_hops":2}}"#, r)).unwrap();
    let o = ExplainRequestOutput::create_result_without_project(sin).ok().unwrap();
    let v = serde_json::to_value(&o).unwrap();
    println!("E16 explain: backend={} response={} unit_trace={}", v["backend_status_code"], v["response"], v["unit_trace"]);
    // live pipeline
    let cfg: RouterConfig = serde_json::from_str("{}").unwrap();
    let mut router = Router::<Rule>::from_config(cfg.clone());
    router.insert(rule(r));
    let q = req(&cfg, "/a", None, None);
    let mut action = Action::from_routes_rule(router.match_request(&q), &q, None);
    println!("E16 live: get_status_code(0) = {}", action.get_status_code(0, None));
    let uin: UnitIdsInput = serde_json::from_str(&format!(r#"{{"router_config":{{}},"rules":[{}]}}"#, r)).unwrap();
    let uo = UnitIdsOutput::create_result_without_project(uin);
    println!("E16 unit ids: {}", serde_json::to_string(&uo).unwrap());
}

#[test]
fn e21_exclude_false() {
    let cfg = RouterConfig::default();
    let mut router = Router::<Rule>::from_config(cfg.clone());
    router.insert(rule(r#"{"id":"r1","rank":1,"source":{"path":"/a","methods":["GET"],"exclude_methods":false}}"#));
    let mut q = req(&cfg, "/a", None, None);
    println!("E21 GET matched={}", router.match_request(&q).len());
    q.method = Some("POST".to_string());
    println!("E21 POST matched={}", router.match_request(&q).len());
    let mut router = Router::<Rule>::from_config(cfg.clone());
    router.insert(rule(r#"{"id":"r1","rank":1,"status_code":410,"source":{"path":"/a","response_status_codes":[404],"exclude_response_status_codes":false}}"#));
    let q = req(&cfg, "/a", None, None);
    let mut action = Action::from_routes_rule(router.match_request(&q), &q, None);
    println!("E21 status for 404 = {} ; for 200 = {}", action.get_status_code(404, None), action.get_status_code(200, None));
}

#[test]
fn e17_empty_leaf() {
    use redirectionio::regex_radix_tree::RegexTreeMap;
    let mut t = RegexTreeMap::<String>::new(false);
    t.insert("", "id", "v".to_string());
    println!("E17 uncached find(x) = {:?}", t.find("x"));
    t.cache(10, None);
    println!("E17 cached   find(x) = {:?}", t.find("x"));
}

#[test]
fn e27_error_after_holdback() {
    let mk = || {
        FilterBodyAction::new(
            vec![BodyFilter::HTML(HTMLBodyFilter {
                action: "append_child".to_string(),
                element_tree: vec!["html".to_string(), "body".to_string()],
                css_selector: None,
                value: "<X/>".to_string(),
                id: None,
                target_hash: None,
                inner_value: None,
            })],
            &[],
        )
    };
    let mut f = mk();
    let c1 = b"<html><body><p>abc</p><di".to_vec();
    let c2 = vec![b'v', 0xff, 0xfe, b'>', b'x'];
    let mut out = f.filter(c1.clone(), None);
    out.extend(f.filter(c2.clone(), None));
    out.extend(f.end(None));
    let mut input = c1.clone();
    input.extend(c2);
    println!("E27 in  = {:?}", String::from_utf8_lossy(&input));
    println!("E27 out = {:?}", String::from_utf8_lossy(&out));
}

// ---- second batch (header-name capture case, regex case flag, JSON round-trip sanity) ----
// kept as plain text: these were separate test files (tests/scratch2.rs, tests/scratch3.rs)
/*
extern crate redirectionio;
use redirectionio::RouterConfig;
use redirectionio::action::Action;
use redirectionio::api::Rule;
use redirectionio::http::Request;
use redirectionio::router::Router;

fn rule(json: &str) -> Rule { serde_json::from_str(json).expect("rule json") }

#[test]
fn e18_header_capture_case() {
    let cfg = RouterConfig::default();
    let mut router = Router::<Rule>::from_config(cfg.clone());
    router.insert(rule(r#"{"id":"r1","rank":1,"status_code":301,"target":"/lang/@l","source":{"path":"/a","headers":[{"name":"x-lang","type":"match_regex","value":"@l"}]},"markers":[{"name":"l","regex":"[a-z]+"}]}"#));
    for name in ["x-lang", "X-Lang"] {
        let mut q = Request::from_config(&cfg, "/a".to_string(), None, None, None, None, None);
        q.add_header(name.to_string(), "fr".to_string(), false);
        let m = router.match_request(&q);
        let n = m.len();
        let mut action = Action::from_routes_rule(m, &q, None);
        let h = action.filter_headers(Vec::new(), 0, false, None);
        println!("E18 header name {} matched={} location={:?}", name, n, h.iter().map(|h| h.value.clone()).collect::<Vec<_>>());
    }
}

#[test]
fn e19_header_regex_case_flag() {
    for flag in [false, true] {
        let cfg: RouterConfig = serde_json::from_str(&format!(r#"{{"ignore_header_case":{}}}"#, flag)).unwrap();
        let mut router = Router::<Rule>::from_config(cfg.clone());
        router.insert(rule(r#"{"id":"r1","rank":1,"source":{"path":"/a","headers":[{"name":"ua","type":"match_regex","value":"Mozilla/@v"}]},"markers":[{"name":"v","regex":"[0-9.]+"}]}"#));
        router.insert(rule(r#"{"id":"r2","rank":1,"source":{"path":"/a","headers":[{"name":"ua","type":"starts_with","value":"Mozilla/"}]}}"#));
        let mut q = Request::from_config(&cfg, "/a".to_string(), None, None, None, None, None);
        q.add_header("ua".to_string(), "Mozilla/5.0".to_string(), false);
        let q = router.rebuild_request(&q);
        let mut ids: Vec<String> = router.match_request(&q).iter().map(|r| r.id().to_string()).collect();
        ids.sort();
        println!("E19 ignore_header_case={} matched={:?}", flag, ids);
    }
}
extern crate redirectionio;
use redirectionio::RouterConfig;
use redirectionio::action::Action;
use redirectionio::api::Rule;
use redirectionio::http::Request;
use redirectionio::router::Router;

fn rule(json: &str) -> Rule { serde_json::from_str(json).expect("rule json") }

#[test]
fn e30_action_roundtrip() {
    let cfg = RouterConfig::default();
    let mut router = Router::<Rule>::from_config(cfg.clone());
    router.insert(rule(r#"{"id":"r1","rank":2,"status_code":301,"target":"/b","source":{"path":"/a","response_status_codes":[404],"exclude_response_status_codes":true},
      "header_filters":[{"action":"add","header":"X","value":"1","id":"u","target_hash":"h"}],
      "body_filters":[{"action":"append_child","value":"<p/>","element_tree":["html","body"],"css_selector":null},{"action":"append_text","content":"zz"},{"action":"replace_text","content":"zz","id":"i"}],
      "log_override":false}"#));
    router.insert(rule(r#"{"id":"r2","rank":1,"status_code":302,"target":"/c","source":{"path":"/a"}}"#));
    let q = Request::from_config(&cfg, "/a?utm_source=x".to_string(), Some("h".into()), Some("https".into()), Some("GET".into()), Some("10.0.0.1".parse().unwrap()), Some(true));
    let a = Action::from_routes_rule(router.match_request(&q), &q, None);
    let s1 = serde_json::to_string(&a).unwrap();
    let a2: Action = serde_json::from_str(&s1).unwrap();
    let s2 = serde_json::to_string(&a2).unwrap();
    println!("E30 action json = {}", s1);
    println!("E30 action stable = {}", s1 == s2);
    let r1 = serde_json::to_string(&q).unwrap();
    let q2: Request = serde_json::from_str(&r1).unwrap();
    println!("E30 request json = {}", r1);
    println!("E30 request stable = {}", r1 == serde_json::to_string(&q2).unwrap());
}
*/
