//! C09 demo "j": matching must not depend on the order of the query parameters, under every router
//! configuration - in particular also when marketing parameters are NOT ignored.
use redirectionio::RouterConfig;
use redirectionio::action::Action;
use redirectionio::api::Rule;
use redirectionio::http::Request;
use redirectionio::router::Router;

fn config(ignore_marketing: bool, pass_marketing: bool, ignore_case: bool) -> RouterConfig {
    let mut config = RouterConfig::default();
    config.ignore_marketing_query_params = ignore_marketing;
    config.pass_marketing_query_params_to_target = pass_marketing;
    config.ignore_path_and_query_case = ignore_case;
    config
}

fn rule_from(url: &str) -> Rule {
    let source = match url.split_once('?') {
        Some((path, query)) => serde_json::json!({ "path": path, "query": query }),
        None => serde_json::json!({ "path": url }),
    };

    serde_json::from_value(serde_json::json!({
        "id": "rule", "rank": 0, "source": source, "status_code": 301, "target": "/target"
    }))
    .expect("cannot deserialize rule")
}

fn router(config: &RouterConfig, rule: Rule) -> Router<Rule> {
    let mut router = Router::<Rule>::from_config(config.clone());
    router.insert(rule);
    router
}

/// true when the request for `url` matches, both as built by `Request::from_config` and as rebuilt by the router
fn matches(router: &Router<Rule>, url: &str) -> bool {
    let request = Request::from_config(&router.config, url.to_string(), None, None, None, None, None);
    let rebuilt = router.rebuild_request(&request);
    let direct = !router.match_request(&request).is_empty();
    let after_rebuild = !router.match_request(&rebuilt).is_empty();

    assert_eq!(direct, after_rebuild, "from_config and rebuild_request disagree for {url}");

    direct
}


// D25 (known finding, C09 R09.2): fails on the unchanged tree at the second assertion
#[test]
fn case_swap_of_query_keys_still_matches_under_the_case_flag() {
    let cfg = config(false, false, true);
    let r = router(&cfg, rule_from("/x?a=1&B=2"));
    assert!(matches(&r, "/x?a=1&B=2"), "own url");
    assert!(matches(&r, "/X?A=1&b=2"), "ascii case swap of the same url");
    assert!(matches(&r, "/x?a=1&b=2"), "lower-cased url");
}
