// Asserting reproductions of the genuine defects found by the static rules (DESIGN §4).
// Each test FAILS on the pinned tree and PASSES once the corresponding `fix:` commit is applied.
// Run with /verif/tools/repro.sh; this file is evidence for triage, not part of any check.
extern crate redirectionio;

use redirectionio::RouterConfig;
use redirectionio::action::Action;
use redirectionio::api::Rule;
use redirectionio::http::Request;
use redirectionio::router::Router;

fn rule(json: &str) -> Rule {
    serde_json::from_str(json).expect("rule json")
}

fn req(cfg: &RouterConfig, uri: &str, host: Option<&str>, ip: Option<&str>) -> Request {
    Request::from_config(
        cfg,
        uri.to_string(),
        host.map(|s| s.to_string()),
        Some("http".to_string()),
        Some("GET".to_string()),
        ip.map(|s| s.parse().unwrap()),
        None,
    )
}

fn ids(router: &Router<Rule>, q: &Request) -> Vec<String> {
    let mut v: Vec<String> = router.match_request(q).iter().map(|r| r.id().to_string()).collect();
    v.sort();
    v
}

/// D3 (C01, R01.7): a rule bound to two overlapping ip ranges is reported twice.
#[test]
fn d03_ip_ranges_overlap_reports_rule_once() {
    let cfg = RouterConfig::default();
    let mut router = Router::<Rule>::from_config(cfg.clone());
    router.insert(rule(
        r#"{"id":"r1","rank":1,"source":{"path":"/a","ips":[{"in_range":"10.0.0.0/8"},{"in_range":"10.1.0.0/16"}]},"header_filters":[{"action":"add","header":"X-A","value":"1"}]}"#,
    ));
    let q = req(&cfg, "/a", None, Some("10.1.2.3"));
    assert_eq!(ids(&router, &q), vec!["r1".to_string()]);
    let mut action = Action::from_routes_rule(router.match_request(&q), &q, None);
    let h = action.filter_headers(Vec::new(), 200, false, None);
    assert_eq!(h.len(), 1, "the add filter must be applied once: {:?}", h);
}

/// D4 (C02, R02.2): removing a rule whose host has a marker returns None.
#[test]
fn d04_remove_dynamic_host_returns_the_rule() {
    let cfg = RouterConfig::default();
    let mut router = Router::<Rule>::from_config(cfg.clone());
    router.insert(rule(
        r#"{"id":"r1","rank":1,"source":{"path":"/a","host":"@sub.example.org"},"markers":[{"name":"sub","regex":"[a-z]+"}]}"#,
    ));
    router.insert(rule(r#"{"id":"r2","rank":1,"source":{"path":"/a","host":"www.example.org"}}"#));
    let q = req(&cfg, "/a", Some("foo.example.org"), None);
    assert_eq!(ids(&router, &q), vec!["r1".to_string()]);
    let removed = router.remove("r1");
    assert_eq!(removed.map(|r| r.id().to_string()), Some("r1".to_string()));
    assert!(ids(&router, &q).is_empty());
    assert_eq!(router.len(), 1);
}

/// D10a (C01, R01.8): `exclude_methods: false` is read as true.
#[test]
fn d10_exclude_methods_false_is_not_an_exclusion() {
    let cfg = RouterConfig::default();
    let mut router = Router::<Rule>::from_config(cfg.clone());
    router.insert(rule(r#"{"id":"r1","rank":1,"source":{"path":"/a","methods":["GET"],"exclude_methods":false}}"#));
    let mut q = req(&cfg, "/a", None, None);
    assert_eq!(ids(&router, &q), vec!["r1".to_string()], "GET is in the method list");
    q.method = Some("POST".to_string());
    assert!(ids(&router, &q).is_empty(), "POST is not in the method list");
}

/// D10b (C05, R05.6): `exclude_response_status_codes: false` is read as true.
#[test]
fn d10_exclude_response_status_codes_false_is_not_an_exclusion() {
    let cfg = RouterConfig::default();
    let mut router = Router::<Rule>::from_config(cfg.clone());
    router.insert(rule(
        r#"{"id":"r1","rank":1,"status_code":410,"source":{"path":"/a","response_status_codes":[404],"exclude_response_status_codes":false}}"#,
    ));
    let q = req(&cfg, "/a", None, None);
    let mut action = Action::from_routes_rule(router.match_request(&q), &q, None);
    assert_eq!(action.get_status_code(404, None), 410);
    assert_eq!(action.get_status_code(200, None), 0);
}

/// D19 (C01, R01.11): under ignore_header_case the header regex is still case-sensitive while
/// the request value has been lower-cased.
#[test]
fn d19_header_regex_honours_ignore_header_case() {
    for flag in [false, true] {
        let cfg: RouterConfig = serde_json::from_str(&format!(r#"{{"ignore_header_case":{}}}"#, flag)).unwrap();
        let mut router = Router::<Rule>::from_config(cfg.clone());
        router.insert(rule(
            r#"{"id":"r1","rank":1,"source":{"path":"/a","headers":[{"name":"ua","type":"match_regex","value":"Mozilla/@v"}]},"markers":[{"name":"v","regex":"[0-9.]+"}]}"#,
        ));
        router.insert(rule(r#"{"id":"r2","rank":1,"source":{"path":"/a","headers":[{"name":"ua","type":"starts_with","value":"Mozilla/"}]}}"#));
        let mut q = Request::from_config(&cfg, "/a".to_string(), None, None, None, None, None);
        q.add_header("ua".to_string(), "Mozilla/5.0".to_string(), false);
        let q = router.rebuild_request(&q);
        assert_eq!(ids(&router, &q), vec!["r1".to_string(), "r2".to_string()], "ignore_header_case={}", flag);
    }
}

/// D20 (C05, R05.3): when a conditional log override is merged over an unconditional one, the
/// merged override keeps the *fallback* rule's unit id, so the wrong unit is credited.
#[test]
fn d20_merged_log_override_credits_the_applied_rules_unit() {
    use redirectionio::action::UnitTrace;
    let cfg = RouterConfig::default();
    let mut router = Router::<Rule>::from_config(cfg.clone());
    router.insert(rule(r#"{"id":"rA","rank":2,"source":{"path":"/a"},"log_override":true,"configuration_log_unit_id":"uA"}"#));
    router.insert(rule(
        r#"{"id":"rB","rank":1,"source":{"path":"/a","response_status_codes":[404]},"log_override":false,"configuration_log_unit_id":"uB"}"#,
    ));
    let q = req(&cfg, "/a", None, None);
    let mut action = Action::from_routes_rule(router.match_request(&q), &q, None);
    let mut trace = UnitTrace::default();
    let log = action.should_log_request(true, 404, Some(&mut trace));
    trace.squash_with_target_unit_traces();
    assert!(!log, "rule rB (log_override:false) decides for a 404");
    let units: Vec<String> = trace.get_unit_ids_applied().into_iter().collect();
    assert_eq!(units, vec!["uB".to_string()], "the unit of the rule that decided must be credited");
}

/// D2 (C11, R11.3): variables of equal name length are substituted in hash order, so the
/// Location of one and the same request varies between runs.
#[test]
fn d02_equal_length_variable_names_are_substituted_in_a_fixed_order() {
    let cfg = RouterConfig::default();
    let mut outs = std::collections::BTreeSet::new();
    for _ in 0..64 {
        let mut router = Router::<Rule>::from_config(cfg.clone());
        router.insert(rule(
            r#"{"id":"r1","rank":1,"source":{"path":"/@a1/@b1"},"target":"/t/@a1/@b1","status_code":301,"markers":[{"name":"a1","regex":"[^/]+"},{"name":"b1","regex":"[^/]+"}]}"#,
        ));
        let q = req(&cfg, "/@b1/x", None, None);
        let mut action = Action::from_routes_rule(router.match_request(&q), &q, None);
        let h = action.filter_headers(Vec::new(), 0, false, None);
        outs.insert(format!("{:?}", h.iter().map(|h| h.value.clone()).collect::<Vec<_>>()));
    }
    assert_eq!(outs.len(), 1, "Location must not depend on hash order: {:?}", outs);
}

// ---- allocator that records deallocations whose layout differs from the allocation (for D16) ----
mod layout_audit {
    use std::alloc::{GlobalAlloc, Layout, System};
    use std::cell::Cell;

    thread_local! {
        pub static MISMATCHES: Cell<usize> = const { Cell::new(0) };
    }

    pub struct Audit;

    const HDR: usize = 16;

    unsafe impl GlobalAlloc for Audit {
        unsafe fn alloc(&self, layout: Layout) -> *mut u8 {
            if layout.align() > HDR {
                return unsafe { System.alloc(layout) };
            }
            let real = Layout::from_size_align(layout.size() + HDR, HDR).unwrap();
            let p = unsafe { System.alloc(real) };
            if p.is_null() {
                return p;
            }
            unsafe {
                (p as *mut usize).write(layout.size());
                p.add(HDR)
            }
        }

        unsafe fn dealloc(&self, ptr: *mut u8, layout: Layout) {
            if layout.align() > HDR {
                return unsafe { System.dealloc(ptr, layout) };
            }
            unsafe {
                let base = ptr.sub(HDR);
                let size = (base as *mut usize).read();
                if size != layout.size() {
                    let _ = MISMATCHES.try_with(|m| m.set(m.get() + 1));
                }
                System.dealloc(base, Layout::from_size_align(size + HDR, HDR).unwrap());
            }
        }

        unsafe fn realloc(&self, ptr: *mut u8, layout: Layout, new_size: usize) -> *mut u8 {
            unsafe {
                let new_layout = Layout::from_size_align(new_size, layout.align()).unwrap();
                let n = self.alloc(new_layout);
                if !n.is_null() {
                    std::ptr::copy_nonoverlapping(ptr, n, layout.size().min(new_size));
                    self.dealloc(ptr, layout);
                }
                n
            }
        }
    }
}

#[global_allocator]
static AUDIT: layout_audit::Audit = layout_audit::Audit;

/// D1 (C07/C18, R18.7): duplicating a non-empty buffer panics (`clone_from_slice` into an empty Vec).
#[test]
fn d01_buffer_duplicate_copies_the_bytes() {
    use redirectionio::filter::Buffer;
    let b = Buffer::from_vec(vec![1, 2, 3]);
    let d = b.duplicate();
    assert_eq!(d.into_vec(), vec![1, 2, 3]);
    assert_eq!(b.into_vec(), vec![1, 2, 3]);
}

/// D16 (C18, R18.1): a buffer built from a Vec whose capacity exceeds its length is released with
/// a layout of `len` bytes although `capacity` bytes were allocated.
#[test]
fn d16_buffer_is_released_with_the_layout_it_was_allocated_with() {
    use redirectionio::filter::Buffer;
    let before = layout_audit::MISMATCHES.with(|m| m.get());
    let mut v = Vec::with_capacity(64);
    v.extend_from_slice(b"abc");
    let b = Buffer::from_vec(v);
    drop(b.into_vec());
    let mut s = String::with_capacity(100);
    s.push_str("hello");
    let b = Buffer::from_string(s);
    drop(b.into_vec());
    let after = layout_audit::MISMATCHES.with(|m| m.get());
    assert_eq!(after - before, 0, "deallocation size differs from allocation size");
}

fn no_panic<T>(what: &str, f: impl FnOnce() -> T + std::panic::UnwindSafe) -> T {
    match std::panic::catch_unwind(f) {
        Ok(v) => v,
        Err(_) => panic!("{} panicked", what),
    }
}

/// D5 (C07, R07.1): the slice transformer indexes the string with unchecked bounds.
#[test]
fn d05_slice_transformer_never_panics() {
    let cfg = RouterConfig::default();
    for (from, to, uri) in [("5", "3", "/a/abcdefgh"), ("1", "2", "/a/%C3%A9"), ("1", "3", "/a/é")] {
        let cfg = cfg.clone();
        no_panic(&format!("slice from={} to={} on {}", from, to, uri), move || {
            let mut router = Router::<Rule>::from_config(cfg.clone());
            router.insert(rule(&format!(
                r#"{{"id":"r1","rank":1,"source":{{"path":"/a/@m"}},"target":"/b/@m","status_code":301,"markers":[{{"name":"m","regex":".+","transformers":[{{"type":"slice","options":{{"from":"{}","to":"{}"}}}}]}}]}}"#,
                from, to
            )));
            let q = req(&cfg, uri, None, None);
            let mut action = Action::from_routes_rule(router.match_request(&q), &q, None);
            action.filter_headers(Vec::new(), 0, false, None)
        });
    }
}

/// D6 (C07, R07.1): an example with an unparsable ip address panics in every analysis.
#[test]
fn d06_example_with_invalid_ip_is_skipped_not_fatal() {
    use redirectionio::api::{TestExamplesInput, TestExamplesOutput};
    let input = r#"{"router_config":{},"max_hops":3,"rules":[
      {"id":"r1","rank":1,"source":{"path":"/a"},"target":"/b","status_code":301,
       "examples":[{"url":"/a","must_match":true,"unit_ids_applied":[],"ip_address":"not-an-ip"}]}]}"#;
    let n = no_panic("test_examples with ip_address:not-an-ip", || {
        let i: TestExamplesInput = serde_json::from_str(input).unwrap();
        TestExamplesOutput::create_result_without_project(i).example_count
    });
    assert_eq!(n, 1);
}

/// D7 (C07, R07.1): a redirect target without host (mailto:) panics when project domains are set.
#[test]
fn d07_target_without_host_does_not_panic() {
    use redirectionio::api::{TestExamplesInput, TestExamplesOutput};
    let input = r#"{"router_config":{},"max_hops":3,"project_domains":["example.org"],"rules":[
      {"id":"r1","rank":1,"source":{"path":"/a"},"target":"mailto:joe@example.org","status_code":301,
       "examples":[{"url":"/a","must_match":true,"unit_ids_applied":[]}]}]}"#;
    let n = no_panic("test_examples with a mailto: target and project_domains", || {
        let i: TestExamplesInput = serde_json::from_str(input).unwrap();
        TestExamplesOutput::create_result_without_project(i).example_count
    });
    assert_eq!(n, 1);
}

/// D13 (C07/C16, R07.2): the script-data states of the tokenizer recurse once per input byte, so a
/// large <script> body overflows the stack (the process is killed: run in a child process).
#[test]
fn d13_large_script_body_does_not_overflow_the_stack() {
    if std::env::var("RIO_D13_CHILD").is_ok() {
        let mut doc = String::from("<html><body><script>");
        doc.push_str(&"a".repeat(4_000_000));
        doc.push_str("</script></body></html>");
        let mut t = redirectionio::html::Tokenizer::new(doc.into_bytes());
        let mut k = 0;
        while t.next().unwrap() != redirectionio::html::TokenType::ErrorToken {
            k += 1;
        }
        assert!(k >= 5);
        return;
    }
    let status = std::process::Command::new(std::env::current_exe().unwrap())
        .args(["--exact", "d13_large_script_body_does_not_overflow_the_stack", "--test-threads", "1"])
        .env("RIO_D13_CHILD", "1")
        .stdout(std::process::Stdio::null())
        .stderr(std::process::Stdio::null())
        .status()
        .unwrap();
    assert!(status.success(), "tokenising a 4 MB script body killed the process: {:?}", status);
}

/// D11 (C08/C12, R12.1): a tree holding the empty pattern answers differently before and after
/// cache(): the lazy branch shortcuts `original.is_empty()` to "matches", the compiled `^$` does not.
#[test]
fn d11_empty_pattern_leaf_answers_the_same_cached_and_uncached() {
    use redirectionio::regex_radix_tree::RegexTreeMap;
    let mut t = RegexTreeMap::<String>::new(false);
    t.insert("", "id", "v".to_string());
    let before: Vec<String> = t.find("x").into_iter().cloned().collect();
    let before_empty: Vec<String> = t.find("").into_iter().cloned().collect();
    t.cache(10, None);
    let after: Vec<String> = t.find("x").into_iter().cloned().collect();
    let after_empty: Vec<String> = t.find("").into_iter().cloned().collect();
    assert_eq!(before, after, "find(\"x\") must not change when the cache is warmed");
    assert_eq!(before_empty, after_empty);
    assert!(after.is_empty(), "the anchored empty pattern does not match \"x\"");
    assert_eq!(after_empty, vec!["v".to_string()]);
}

/// D15 (C09, R09.2): with ignore_marketing_query_params off the request side neither sorts nor
/// re-encodes the query while the rule side always does, so a rule does not match its own URL.
#[test]
fn d15_rule_matches_its_own_url_whatever_the_marketing_flag() {
    for ignore in [true, false] {
        let cfg: RouterConfig = serde_json::from_str(&format!(r#"{{"ignore_marketing_query_params":{}}}"#, ignore)).unwrap();
        let mut router = Router::<Rule>::from_config(cfg.clone());
        router.insert(rule(r#"{"id":"r1","rank":1,"source":{"path":"/a","query":"b=1&a=2"}}"#));
        router.insert(rule(r#"{"id":"r2","rank":1,"source":{"path":"/p","query":"q=x+y"}}"#));
        for uri in ["/a?b=1&a=2", "/a?a=2&b=1"] {
            let q = req(&cfg, uri, None, None);
            assert_eq!(ids(&router, &q), vec!["r1".to_string()], "ignore_marketing_query_params={} uri={}", ignore, uri);
        }
        let q = req(&cfg, "/p?q=x+y", None, None);
        assert_eq!(ids(&router, &q), vec!["r2".to_string()], "ignore_marketing_query_params={} uri=/p?q=x+y", ignore);
        let q = req(&cfg, "/a?a=2&b=3", None, None);
        assert!(ids(&router, &q).is_empty());
        // marketing parameters are only ignored when the flag is on
        let q = req(&cfg, "/a?a=2&b=1&utm_source=x", None, None);
        assert_eq!(ids(&router, &q).len(), if ignore { 1 } else { 0 });
    }
}

/// D18 (C10, R10.6): header conditions match header names case-insensitively but the marker capture
/// compares them exactly, so a rule matches and yet its marker is not substituted.
#[test]
fn d18_header_marker_is_captured_whatever_the_case_of_the_header_name() {
    let cfg = RouterConfig::default();
    let mut router = Router::<Rule>::from_config(cfg.clone());
    router.insert(rule(
        r#"{"id":"r1","rank":1,"status_code":301,"target":"/lang/@l","source":{"path":"/a","headers":[{"name":"x-lang","type":"match_regex","value":"@l"}]},"markers":[{"name":"l","regex":"[a-z]+"}]}"#,
    ));
    for name in ["x-lang", "X-Lang"] {
        let mut q = Request::from_config(&cfg, "/a".to_string(), None, None, None, None, None);
        q.add_header(name.to_string(), "fr".to_string(), false);
        assert_eq!(ids(&router, &q), vec!["r1".to_string()], "header name {}", name);
        let mut action = Action::from_routes_rule(router.match_request(&q), &q, None);
        let h = action.filter_headers(Vec::new(), 0, false, None);
        assert_eq!(h.iter().map(|h| h.value.clone()).collect::<Vec<_>>(), vec!["/lang/fr".to_string()], "header name {}", name);
    }
}

fn html_filter(action: &str, selector: Option<&str>) -> redirectionio::filter::FilterBodyAction {
    use redirectionio::api::{BodyFilter, HTMLBodyFilter};
    redirectionio::filter::FilterBodyAction::new(
        vec![BodyFilter::HTML(HTMLBodyFilter {
            action: action.to_string(),
            element_tree: vec!["html".to_string(), "body".to_string()],
            css_selector: selector.map(|s| s.to_string()),
            value: "<X/>".to_string(),
            id: None,
            target_hash: None,
            inner_value: None,
        })],
        &[],
    )
}

/// D8 (C04, R04.4): at end of stream the held-back tail is emitted before the buffered element, so
/// the bytes of a truncated document come out reordered.
#[test]
fn d08_end_of_stream_flushes_in_input_order() {
    let doc = "<html><body><p>abc</p><di";
    for action in ["replace", "append_child", "prepend_child"] {
        let mut f = html_filter(action, Some("p.x"));
        let mut out = f.filter(doc.as_bytes().to_vec(), None);
        out.extend(f.end(None));
        let out = String::from_utf8_lossy(&out).to_string();
        // the selector never matches: nothing is inserted or replaced, the document must pass through
        assert_eq!(out, doc, "action {}", action);
    }
}

/// D9 (C04, R04.1) — known finding: bytes held back by the HTML stage are lost when a later chunk
/// fails (here: invalid UTF-8), although the body must then pass through byte-for-byte.
#[test]
fn d09_error_fallback_keeps_the_held_back_bytes() {
    let mut f = html_filter("append_child", None);
    let c1 = b"<html><body><p>abc</p><di".to_vec();
    let c2 = vec![b'v', 0xff, 0xfe, b'>', b'x'];
    let mut out = f.filter(c1.clone(), None);
    out.extend(f.filter(c2.clone(), None));
    out.extend(f.end(None));
    let mut input = c1;
    input.extend(c2);
    assert_eq!(out, input, "out = {:?}", String::from_utf8_lossy(&out));
}

/// D14 (C03, R03.2) — known finding: the raw-text state of the tokenizer is not carried across
/// chunks, so a chunk boundary inside <script> changes the result.
#[test]
fn d14_chunk_boundary_inside_script_does_not_change_the_output() {
    let doc = "<html><body><script>document.write(\"</body>\")</script><p>z</p></body></html>";
    let mut f = html_filter("append_child", None);
    let mut whole = f.filter(doc.as_bytes().to_vec(), None);
    whole.extend(f.end(None));
    let cut = doc.find("document").unwrap() + 3;
    let mut f = html_filter("append_child", None);
    let mut parts = f.filter(doc.as_bytes()[..cut].to_vec(), None);
    parts.extend(f.filter(doc.as_bytes()[cut..].to_vec(), None));
    parts.extend(f.end(None));
    assert_eq!(String::from_utf8_lossy(&whole), String::from_utf8_lossy(&parts));
}

/// D21 (C03, R03.7) — known finding: a chunk boundary inside a multi-byte character is decoded as invalid
/// UTF-8, the filter falls back to pass-through and the insertion is lost.
#[test]
fn d21_chunk_cut_inside_multibyte_character() {
    let doc = "<html><body><p>caf\u{e9} cr\u{e8}me</p></body></html>".as_bytes();
    let mut f = html_filter("append_child", None);
    let mut whole = f.filter(doc.to_vec(), None);
    whole.extend(f.end(None));
    for cut in 1..doc.len() {
        let mut f = html_filter("append_child", None);
        let mut parts = f.filter(doc[..cut].to_vec(), None);
        parts.extend(f.filter(doc[cut..].to_vec(), None));
        parts.extend(f.end(None));
        assert_eq!(String::from_utf8_lossy(&whole), String::from_utf8_lossy(&parts), "cut after byte {}", cut);
    }
}

/// D17 (C19, R19.3): explain / impact compute the status with the example's response code first,
/// while the live pipeline (and test_examples) decide at request time first.
#[test]
fn d17_explain_reports_the_status_the_live_pipeline_produces() {
    use redirectionio::api::{ExplainRequestInput, ExplainRequestOutput};
    let r = r#"{"id":"r1","rank":1,"source":{"path":"/a"},"target":"/b","status_code":301,"redirect_unit_id":"u1","target_hash":"th"}"#;
    let sin: ExplainRequestInput = serde_json::from_str(&format!(
        r#"{{"router_config":{{}},"example":{{"url":"/a","must_match":true,"response_status_code":404}},"rules":[{}],"max_hops":2}}"#,
        r
    ))
    .unwrap();
    let o = ExplainRequestOutput::create_result_without_project(sin).ok().unwrap();
    let v = serde_json::to_value(&o).unwrap();
    // live pipeline
    let cfg: RouterConfig = serde_json::from_str("{}").unwrap();
    let mut router = Router::<Rule>::from_config(cfg.clone());
    router.insert(rule(r));
    let q = req(&cfg, "/a", None, None);
    let mut action = Action::from_routes_rule(router.match_request(&q), &q, None);
    let live = action.get_status_code(0, None);
    assert_eq!(live, 301);
    assert_eq!(v["response"]["status_code"], serde_json::json!(live), "explain output: {}", v["response"]);
}

/// D12 (C19, R19.5) — known finding: batch_remove never updates the layers' counts, so after a
/// change-set the `count` fields of the explain trace differ from those of a router built from scratch.
#[test]
fn d12_trace_counts_after_a_change_set_equal_those_of_a_rebuild() {
    use redirectionio::api::{ExplainRequestInput, ExplainRequestOutput, ExplainRequestProjectInput};
    let cfg = RouterConfig::default();
    let r1 = r#"{"id":"r1","rank":1,"source":{"path":"/a","methods":["GET"]}}"#;
    let r2 = r#"{"id":"r2","rank":1,"source":{"path":"/b","methods":["GET"]}}"#;
    let mut router = Router::<Rule>::from_config(cfg.clone());
    router.insert(rule(r1));
    router.insert(rule(r2));
    let pin: ExplainRequestProjectInput = serde_json::from_str(
        r#"{"example":{"url":"/b","must_match":true},"change_set":{"added":[],"updated":[],"deleted":["r1"]},"max_hops":2}"#,
    )
    .unwrap();
    let inc = ExplainRequestOutput::create_result_from_project(pin, std::sync::Arc::new(router)).ok().unwrap();
    let sin: ExplainRequestInput = serde_json::from_str(&format!(
        r#"{{"router_config":{},"example":{{"url":"/b","must_match":true}},"rules":[{}],"max_hops":2}}"#,
        serde_json::to_string(&cfg).unwrap(),
        r2
    ))
    .unwrap();
    let scr = ExplainRequestOutput::create_result_without_project(sin).ok().unwrap();
    let a = serde_json::to_value(&inc).unwrap();
    let b = serde_json::to_value(&scr).unwrap();
    assert_eq!(a["match_traces"], b["match_traces"]);
}

/// D22 (C07, R07.1): a `request_time` variable formats the request's `created_at` with chrono's
/// `to_rfc2822`, which panics (documented) for a year outside 0..=9999 — and `created_at` is parsed from
/// the caller's string, which may say `+10000-01-01T00:00:00Z`.
#[test]
fn d22_request_time_variable_with_a_five_digit_year_does_not_panic() {
    let cfg: RouterConfig = serde_json::from_str("{}").unwrap();
    let mut router = Router::<Rule>::from_config(cfg.clone());
    router.insert(rule(
        r#"{"id":"r1","rank":1,"source":{"path":"/a"},"target":"/b?t=@when","status_code":302,"variables":[{"name":"when","type":"request_time"}]}"#,
    ));
    let mut q = req(&cfg, "/a", None, None);
    q.set_created_at(Some("+10000-01-01T00:00:00Z".to_string()));
    assert!(q.created_at.is_some(), "the five-digit year is accepted by the parser");
    let res = std::panic::catch_unwind(|| {
        let mut action = Action::from_routes_rule(router.match_request(&q), &q, None);
        action.get_status_code(0, None)
    });
    assert!(res.is_ok(), "Action::from_routes_rule panicked on a request dated in year 10000");
}

/// D23 (C08, R08.6 / R08.9): storing a value under an existing (pattern, id) must replace it, also when the
/// pattern equals the prefix of the node it lives under, and also below a node with a multi-byte prefix.
#[test]
fn d23_reinserting_a_pattern_equal_to_a_node_prefix_replaces() {
    use redirectionio::regex_radix_tree::RegexTreeMap;
    for pats in [["/a/b", "/a/b/c"], ["m\u{fc}ller", "m\u{fc}ller\\-shop"]] {
        let mut t: RegexTreeMap<String> = RegexTreeMap::new(false);
        t.insert(pats[0], "1", "old".to_string());
        t.insert(pats[1], "2", "other".to_string());
        t.insert(pats[0], "1", "new".to_string());
        assert_eq!(t.len(), 2, "len after re-inserting ({}, 1)", pats[0]);
        assert_eq!(t.get(pats[0]), vec![&"new".to_string()], "get({})", pats[0]);
    }
}
