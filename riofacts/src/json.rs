// Minimal JSON value + writer (the driver has zero Cargo dependencies).
#[derive(Clone)]
pub enum J {
    Null,
    B(bool),
    I(i128),
    S(String),
    A(Vec<J>),
    O(Vec<(&'static str, J)>),
}

impl J {
    pub fn write(&self, out: &mut String) {
        match self {
            J::Null => out.push_str("null"),
            J::B(b) => out.push_str(if *b { "true" } else { "false" }),
            J::I(i) => out.push_str(&i.to_string()),
            J::S(s) => write_str(s, out),
            J::A(v) => {
                out.push('[');
                for (i, x) in v.iter().enumerate() {
                    if i > 0 {
                        out.push(',');
                    }
                    x.write(out);
                }
                out.push(']');
            }
            J::O(v) => {
                out.push('{');
                for (i, (k, x)) in v.iter().enumerate() {
                    if i > 0 {
                        out.push(',');
                    }
                    write_str(k, out);
                    out.push(':');
                    x.write(out);
                }
                out.push('}');
            }
        }
    }
}

fn write_str(s: &str, out: &mut String) {
    out.push('"');
    for c in s.chars() {
        match c {
            '"' => out.push_str("\\\""),
            '\\' => out.push_str("\\\\"),
            '\n' => out.push_str("\\n"),
            '\r' => out.push_str("\\r"),
            '\t' => out.push_str("\\t"),
            c if (c as u32) < 0x20 => out.push_str(&format!("\\u{:04x}", c as u32)),
            c => out.push(c),
        }
    }
    out.push('"');
}
