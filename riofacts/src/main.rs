// riofacts — rustc_private driver that dumps type-checked facts (MIR, ADTs, impls, consts,
// unsafe blocks, statics) of the crate under analysis as one JSON file.
//
// Used as RUSTC_WORKSPACE_WRAPPER: argv = [driver, /path/to/rustc, rustc args...].
// Crates other than the ones named in RIOFACTS_CRATES (default "redirectionio") are compiled
// unchanged. Facts go to $RIOFACTS_OUT (one write), tagged with $RIOFACTS_NONCE.
#![feature(rustc_private)]
#![allow(clippy::all)]

extern crate rustc_abi;
extern crate rustc_driver;
extern crate rustc_hir;
extern crate rustc_interface;
extern crate rustc_middle;
extern crate rustc_span;

mod json;
use json::J;

use std::cell::RefCell;
use std::collections::HashMap;

use rustc_driver::{Callbacks, Compilation};
use rustc_hir::def::DefKind;
use rustc_hir::def_id::{DefId, LocalDefId};
use rustc_middle::mir::{
    self, AggregateKind, BasicBlockData, Body, Const, ConstValue, Operand, Place, ProjectionElem, Rvalue, StatementKind,
    TerminatorKind, UnwindAction,
};
use rustc_middle::ty::print::with_no_trimmed_paths;
use rustc_middle::ty::{self, Instance, Ty, TyCtxt, TypingEnv};
use rustc_span::Span;
use rustc_span::hygiene::ExpnKind;

struct Cb {
    out: String,
    nonce: String,
}

impl Callbacks for Cb {
    fn after_analysis<'tcx>(&mut self, _c: &rustc_interface::interface::Compiler, tcx: TyCtxt<'tcx>) -> Compilation {
        let cx = Cx { tcx, types: RefCell::new(Vec::new()), type_ix: RefCell::new(HashMap::new()) };
        let j = cx.dump(&self.nonce);
        let mut s = String::with_capacity(64 << 20);
        j.write(&mut s);
        let tmp = format!("{}.tmp.{}", self.out, std::process::id());
        std::fs::write(&tmp, s).expect("riofacts: cannot write facts");
        std::fs::rename(&tmp, &self.out).expect("riofacts: cannot rename facts");
        Compilation::Continue
    }
}

struct Pass;
impl Callbacks for Pass {}

fn main() {
    let mut args: Vec<String> = std::env::args().collect();
    // wrapper mode: argv[1] is the real rustc
    if args.len() > 1 && (args[1].ends_with("rustc") || args[1].contains("/rustc")) {
        args.remove(1);
    }
    let mut crate_name = String::new();
    for i in 0..args.len() {
        if args[i] == "--crate-name" && i + 1 < args.len() {
            crate_name = args[i + 1].clone();
        }
    }
    let wanted = std::env::var("RIOFACTS_CRATES").unwrap_or_else(|_| "redirectionio".to_string());
    let is_target = wanted.split(',').any(|w| w == crate_name);
    let out = std::env::var("RIOFACTS_OUT").unwrap_or_default();
    if is_target && !out.is_empty() {
        let out = out.replace("{crate}", &crate_name);
        let nonce = std::env::var("RIOFACTS_NONCE").unwrap_or_default();
        rustc_driver::run_compiler(&args, &mut Cb { out, nonce });
    } else {
        rustc_driver::run_compiler(&args, &mut Pass);
    }
}

struct Cx<'tcx> {
    tcx: TyCtxt<'tcx>,
    types: RefCell<Vec<J>>,
    type_ix: RefCell<HashMap<Ty<'tcx>, usize>>,
}

fn s(x: impl Into<String>) -> J {
    J::S(x.into())
}

impl<'tcx> Cx<'tcx> {
    fn path(&self, d: DefId) -> String {
        with_no_trimmed_paths!(self.tcx.def_path_str(d))
    }

    fn ty_str(&self, t: Ty<'tcx>) -> String {
        with_no_trimmed_paths!(format!("{}", t))
    }

    fn collect_adts(&self, t: Ty<'tcx>, out: &mut Vec<String>) {
        for ga in t.walk() {
            if let Some(t) = ga.as_type() {
                if let ty::Adt(def, _) = t.kind() {
                    let p = self.path(def.did());
                    if !out.contains(&p) {
                        out.push(p);
                    }
                }
            }
        }
    }

    fn ty(&self, t: Ty<'tcx>) -> J {
        if let Some(&i) = self.type_ix.borrow().get(&t) {
            return J::I(i as i128);
        }
        // reserve slot first (recursive types are behind ADTs which we do not expand)
        let ix = {
            let mut v = self.types.borrow_mut();
            v.push(J::Null);
            v.len() - 1
        };
        self.type_ix.borrow_mut().insert(t, ix);
        let mut o: Vec<(&'static str, J)> = vec![("s", s(self.ty_str(t)))];
        let kind = match t.kind() {
            ty::Bool => "bool",
            ty::Char => "char",
            ty::Int(_) => "int",
            ty::Uint(_) => "uint",
            ty::Float(_) => "float",
            ty::Adt(def, args) => {
                o.push(("adt", s(self.path(def.did()))));
                let a: Vec<J> = args.types().map(|x| self.ty(x)).collect();
                o.push(("args", J::A(a)));
                "adt"
            }
            ty::Str => "str",
            ty::Array(inner, _) => {
                o.push(("inner", self.ty(*inner)));
                "array"
            }
            ty::Slice(inner) => {
                o.push(("inner", self.ty(*inner)));
                "slice"
            }
            ty::RawPtr(inner, m) => {
                o.push(("inner", self.ty(*inner)));
                o.push(("mut", J::B(m.is_mut())));
                "ptr"
            }
            ty::Ref(_, inner, m) => {
                o.push(("inner", self.ty(*inner)));
                o.push(("mut", J::B(m.is_mut())));
                "ref"
            }
            ty::FnDef(d, _) => {
                o.push(("def", s(self.path(*d))));
                "fndef"
            }
            ty::FnPtr(..) => "fnptr",
            ty::Dynamic(preds, ..) => {
                if let Some(p) = preds.principal_def_id() {
                    o.push(("trait", s(self.path(p))));
                }
                "dyn"
            }
            ty::Closure(d, _) => {
                o.push(("def", s(self.path(*d))));
                "closure"
            }
            ty::Never => "never",
            ty::Tuple(ts) => {
                let a: Vec<J> = ts.iter().map(|x| self.ty(x)).collect();
                o.push(("args", J::A(a)));
                "tuple"
            }
            ty::Param(_) => "param",
            ty::Alias(..) => "alias",
            _ => "other",
        };
        o.push(("k", s(kind)));
        let mut adts = Vec::new();
        self.collect_adts(t, &mut adts);
        o.push(("adts", J::A(adts.into_iter().map(J::S).collect())));
        self.types.borrow_mut()[ix] = J::O(o);
        J::I(ix as i128)
    }

    /// Structured description of a def (fn-like): path, name, the ADT / trait it belongs to.
    fn def_info(&self, d: DefId, args: Option<ty::GenericArgsRef<'tcx>>) -> Vec<(&'static str, J)> {
        let tcx = self.tcx;
        let mut o: Vec<(&'static str, J)> = vec![("path", s(self.path(d)))];
        let name = match tcx.opt_item_name(d) {
            Some(n) => n.to_string(),
            None => {
                let p = self.path(d);
                p.rsplit("::").next().unwrap_or("").to_string()
            }
        };
        o.push(("name", s(name)));
        o.push(("local", J::B(d.is_local())));
        o.push(("krate", s(tcx.crate_name(d.krate).to_string())));
        let dk = tcx.def_kind(d);
        if matches!(dk, DefKind::AssocFn | DefKind::AssocConst { .. } | DefKind::AssocTy) {
            if let Some(imp) = tcx.impl_of_assoc(d) {
                let self_ty = tcx.type_of(imp).instantiate_identity().skip_norm_wip();
                o.push(("self_ty", s(self.ty_str(self_ty))));
                if let ty::Adt(def, _) = self_ty.kind() {
                    o.push(("adt", s(self.path(def.did()))));
                }
                if let Some(tr) = tcx.impl_opt_trait_id(imp) {
                    o.push(("trait", s(self.path(tr))));
                    o.push(("trait_impl", J::B(true)));
                }
            } else if let Some(tr) = tcx.trait_of_assoc(d) {
                o.push(("trait", s(self.path(tr))));
                o.push(("trait_impl", J::B(false)));
                if let Some(a) = args {
                    if a.len() > 0 {
                        if let Some(t0) = a[0].as_type() {
                            o.push(("self_ty", s(self.ty_str(t0))));
                            let mut t1 = t0;
                            // peel references for the ADT key
                            while let ty::Ref(_, inner, _) = t1.kind() {
                                t1 = *inner;
                            }
                            if let ty::Adt(def, _) = t1.kind() {
                                o.push(("adt", s(self.path(def.did()))));
                            }
                            if let ty::Closure(cd, _) = t1.kind() {
                                o.push(("closure", s(self.path(*cd))));
                            }
                        }
                    }
                }
            }
        }
        o
    }

    fn callee(&self, caller: DefId, d: DefId, args: ty::GenericArgsRef<'tcx>) -> J {
        let tcx = self.tcx;
        let mut o = self.def_info(d, Some(args));
        let substs: Vec<J> = args.iter().filter_map(|a| a.as_type()).map(|t| self.ty(t)).collect();
        o.push(("substs", J::A(substs)));
        let env = TypingEnv::post_analysis(tcx, caller);
        let dk = tcx.def_kind(d);
        if matches!(dk, DefKind::Fn | DefKind::AssocFn) {
            // try_resolve can ICE on args that still contain things it cannot normalise; guard
            // by only resolving when the callee is a trait item (otherwise it resolves to itself)
            if tcx.trait_of_assoc(d).is_some() {
                let r = std::panic::catch_unwind(std::panic::AssertUnwindSafe(|| Instance::try_resolve(tcx, env, d, args)));
                if let Ok(Ok(Some(inst))) = r {
                    let rd = inst.def_id();
                    if rd != d {
                        let mut ro = self.def_info(rd, Some(inst.args));
                        let kind = match inst.def {
                            ty::InstanceKind::Item(_) => "item",
                            ty::InstanceKind::Virtual(..) => "virtual",
                            ty::InstanceKind::ClosureOnceShim { .. } => "closure_once_shim",
                            ty::InstanceKind::FnPtrShim(..) => "fnptr_shim",
                            ty::InstanceKind::CloneShim(..) => "clone_shim",
                            ty::InstanceKind::DropGlue(..) => "drop_glue",
                            ty::InstanceKind::ReifyShim(..) => "reify_shim",
                            _ => "other",
                        };
                        ro.push(("inst", s(kind)));
                        o.push(("res", J::O(ro)));
                    } else if let ty::InstanceKind::Virtual(..) = inst.def {
                        o.push(("virtual", J::B(true)));
                    }
                }
            }
        }
        J::O(o)
    }

    fn span(&self, sp: Span) -> J {
        let sm = self.tcx.sess.source_map();
        if !sp.from_expansion() {
            let lo = sm.lookup_char_pos(sp.lo());
            return J::I(lo.line as i128);
        }
        let inner = sp.ctxt().outer_expn_data();
        let mut cur = sp;
        let mut outer = inner.clone();
        let mut guard = 0;
        while cur.from_expansion() && guard < 64 {
            outer = cur.ctxt().outer_expn_data();
            cur = outer.call_site;
            guard += 1;
        }
        let lo = sm.lookup_char_pos(cur.lo());
        let k = |e: &rustc_span::hygiene::ExpnData| match &e.kind {
            ExpnKind::Root => "root".to_string(),
            ExpnKind::Macro(_, name) => format!("m:{}", name),
            ExpnKind::AstPass(p) => format!("a:{:?}", p),
            ExpnKind::Desugaring(d) => format!("d:{:?}", d),
        };
        J::A(vec![J::I(lo.line as i128), s(k(&outer)), s(k(&inner))])
    }

    fn file_line(&self, sp: Span) -> (String, usize, usize) {
        let sm = self.tcx.sess.source_map();
        let mut cur = sp;
        let mut guard = 0;
        while cur.from_expansion() && guard < 64 {
            cur = cur.ctxt().outer_expn_data().call_site;
            guard += 1;
        }
        let lo = sm.lookup_char_pos(cur.lo());
        let hi = sm.lookup_char_pos(cur.hi());
        let name = match &lo.file.name {
            rustc_span::FileName::Real(r) => match r.local_path() {
                Some(p) => p.to_string_lossy().to_string(),
                None => format!("{:?}", r),
            },
            other => format!("{:?}", other),
        };
        (name, lo.line, hi.line)
    }

    fn place(&self, body: &Body<'tcx>, p: &Place<'tcx>) -> J {
        let tcx = self.tcx;
        let mut projs = Vec::new();
        for (base, elem) in p.iter_projections() {
            let j = match elem {
                ProjectionElem::Deref => s("*"),
                ProjectionElem::Field(idx, _fty) => {
                    let bt = base.ty(&body.local_decls, tcx);
                    let mut v = vec![s("f"), J::I(idx.as_usize() as i128)];
                    match bt.ty.kind() {
                        ty::Adt(def, _) => {
                            let vi = bt.variant_index.unwrap_or(rustc_abi::FIRST_VARIANT);
                            let var = def.variant(vi);
                            v.push(s(var.fields[idx].name.to_string()));
                            v.push(s(self.path(def.did())));
                            if def.is_enum() {
                                v.push(s(var.name.to_string()));
                            }
                        }
                        ty::Closure(cd, _) => {
                            let mut name = String::new();
                            if let Some(l) = cd.as_local() {
                                let caps = tcx.closure_captures(l);
                                if let Some(c) = caps.get(idx.as_usize()) {
                                    name = c.to_symbol().to_string();
                                }
                            }
                            v.push(s(name));
                            v.push(s("{closure}"));
                        }
                        _ => {}
                    }
                    J::A(v)
                }
                ProjectionElem::Index(l) => J::A(vec![s("i"), J::I(l.as_usize() as i128)]),
                ProjectionElem::ConstantIndex { offset, min_length, from_end } => {
                    J::A(vec![s("ci"), J::I(offset as i128), J::I(min_length as i128), J::B(from_end)])
                }
                ProjectionElem::Subslice { from, to, from_end } => {
                    J::A(vec![s("ss"), J::I(from as i128), J::I(to as i128), J::B(from_end)])
                }
                ProjectionElem::Downcast(name, vi) => J::A(vec![
                    s("d"),
                    s(name.map(|n| n.to_string()).unwrap_or_default()),
                    J::I(vi.as_usize() as i128),
                ]),
                _ => J::A(vec![s("o"), s(format!("{:?}", elem))]),
            };
            projs.push(j);
        }
        J::A(vec![J::I(p.local.as_usize() as i128), J::A(projs)])
    }

    fn read_alloc_bytes(&self, alloc_id: mir::interpret::AllocId, off: u64, len: u64) -> Option<Vec<u8>> {
        match self.tcx.try_get_global_alloc(alloc_id)? {
            mir::interpret::GlobalAlloc::Memory(a) => {
                let a = a.inner();
                let total = a.len() as u64;
                if off + len > total {
                    return None;
                }
                Some(a.inspect_with_uninit_and_ptr_outside_interpreter(off as usize..(off + len) as usize).to_vec())
            }
            _ => None,
        }
    }

    fn const_val(&self, caller: DefId, cv: ConstValue, t: Ty<'tcx>, o: &mut Vec<(&'static str, J)>) {
        let tcx = self.tcx;
        match cv {
            ConstValue::Scalar(mir::interpret::Scalar::Int(i)) => {
                let bits = i.to_bits(i.size());
                match t.kind() {
                    ty::Bool => o.push(("bool", J::B(bits != 0))),
                    ty::Int(_) => {
                        let sz = i.size().bits();
                        let v = if sz == 128 { bits as i128 } else { ((bits as i128) << (128 - sz)) >> (128 - sz) };
                        o.push(("int", J::I(v)))
                    }
                    ty::Char => o.push(("char", J::I(bits as i128))),
                    _ => o.push(("int", J::I(bits as i128))),
                }
            }
            ConstValue::Scalar(mir::interpret::Scalar::Ptr(ptr, _)) => {
                let (prov, off) = ptr.into_raw_parts();
                let aid = prov.alloc_id();
                match tcx.try_get_global_alloc(aid) {
                    Some(mir::interpret::GlobalAlloc::Static(d)) => o.push(("static", s(self.path(d)))),
                    Some(mir::interpret::GlobalAlloc::Function { instance }) => {
                        o.push(("fnptr", s(self.path(instance.def_id()))))
                    }
                    Some(mir::interpret::GlobalAlloc::Memory(a)) => {
                        // pointee bytes if the pointee type is sized and small
                        if let ty::Ref(_, inner, _) = t.kind() {
                            let env = TypingEnv::post_analysis(tcx, caller);
                            if let Ok(layout) = tcx.layout_of(env.as_query_input(*inner)) {
                                let len = layout.size.bytes();
                                if len <= 4096 {
                                    if let Some(b) = self.read_alloc_bytes(aid, off.bytes(), len) {
                                        o.push(("bytes", J::A(b.into_iter().map(|x| J::I(x as i128)).collect())));
                                    }
                                }
                            }
                        }
                        let _ = a;
                    }
                    _ => {}
                }
            }
            ConstValue::ZeroSized => {
                if let ty::FnDef(d, args) = t.kind() {
                    o.push(("fn", self.callee(caller, *d, args)));
                } else {
                    o.push(("zst", J::B(true)));
                }
            }
            ConstValue::Slice { alloc_id, meta } => {
                if let ty::Ref(_, inner, _) = t.kind() {
                    let elem_size = match inner.kind() {
                        ty::Str => Some(1),
                        ty::Slice(e) if matches!(e.kind(), ty::Uint(ty::UintTy::U8)) => Some(1),
                        _ => None,
                    };
                    if let Some(es) = elem_size {
                        if let Some(b) = self.read_alloc_bytes(alloc_id, 0, meta * es) {
                            if matches!(inner.kind(), ty::Str) {
                                o.push(("str", s(String::from_utf8_lossy(&b).to_string())));
                            } else {
                                o.push(("bytes", J::A(b.into_iter().map(|x| J::I(x as i128)).collect())));
                            }
                        }
                    }
                }
            }
            ConstValue::Indirect { alloc_id, offset } => {
                let env = TypingEnv::post_analysis(tcx, caller);
                if let Ok(layout) = tcx.layout_of(env.as_query_input(t)) {
                    let len = layout.size.bytes();
                    if len <= 4096 {
                        if let Some(b) = self.read_alloc_bytes(alloc_id, offset.bytes(), len) {
                            o.push(("bytes", J::A(b.into_iter().map(|x| J::I(x as i128)).collect())));
                        }
                    }
                }
            }
        }
    }

    fn constant(&self, caller: DefId, c: &mir::ConstOperand<'tcx>) -> J {
        let tcx = self.tcx;
        let t = c.const_.ty();
        let mut o: Vec<(&'static str, J)> = vec![("ty", self.ty(t))];
        match c.const_ {
            Const::Val(cv, t) => self.const_val(caller, cv, t, &mut o),
            Const::Unevaluated(uv, t) => {
                o.push(("const", s(self.path(uv.def))));
                if let Some(p) = uv.promoted {
                    o.push(("promoted", J::I(p.as_usize() as i128)));
                } else {
                    // try to evaluate named consts with concrete args
                    let env = TypingEnv::post_analysis(tcx, caller);
                    let r = std::panic::catch_unwind(std::panic::AssertUnwindSafe(|| {
                        tcx.const_eval_resolve(env, uv, c.span)
                    }));
                    if let Ok(Ok(cv)) = r {
                        self.const_val(caller, cv, t, &mut o);
                    }
                }
            }
            Const::Ty(_, ct) => {
                o.push(("tyconst", s(format!("{:?}", ct))));
                let env = TypingEnv::post_analysis(tcx, caller);
                let r = std::panic::catch_unwind(std::panic::AssertUnwindSafe(|| c.const_.eval(tcx, env, c.span)));
                if let Ok(Ok(cv)) = r {
                    self.const_val(caller, cv, t, &mut o);
                }
            }
        }
        J::O(o)
    }

    fn operand(&self, caller: DefId, body: &Body<'tcx>, op: &Operand<'tcx>) -> J {
        match op {
            Operand::Copy(p) => J::O(vec![("c", self.place(body, p))]),
            Operand::Move(p) => J::O(vec![("m", self.place(body, p))]),
            Operand::Constant(c) => J::O(vec![("k", self.constant(caller, c))]),
            other => J::O(vec![("x", s(format!("{:?}", other)))]),
        }
    }

    fn rvalue(&self, caller: DefId, body: &Body<'tcx>, rv: &Rvalue<'tcx>) -> J {
        let tcx = self.tcx;
        let mut o: Vec<(&'static str, J)> = Vec::new();
        match rv {
            Rvalue::Use(op, ..) => {
                o.push(("k", s("use")));
                o.push(("o", self.operand(caller, body, op)));
            }
            Rvalue::Repeat(op, n) => {
                o.push(("k", s("repeat")));
                o.push(("o", self.operand(caller, body, op)));
                o.push(("n", s(format!("{:?}", n))));
            }
            Rvalue::Ref(_, bk, p) => {
                o.push(("k", s("ref")));
                o.push(("mut", J::B(matches!(bk, mir::BorrowKind::Mut { .. }))));
                o.push(("p", self.place(body, p)));
            }
            Rvalue::RawPtr(kind, p) => {
                o.push(("k", s("rawptr")));
                o.push(("mut", J::B(format!("{:?}", kind).contains("Mut"))));
                o.push(("p", self.place(body, p)));
            }
            Rvalue::Cast(kind, op, t) => {
                o.push(("k", s("cast")));
                o.push(("cast", s(format!("{:?}", kind))));
                o.push(("o", self.operand(caller, body, op)));
                o.push(("ty", self.ty(*t)));
            }
            Rvalue::BinaryOp(bop, ops) => {
                o.push(("k", s("bin")));
                o.push(("op", s(format!("{:?}", bop))));
                o.push(("a", self.operand(caller, body, &ops.0)));
                o.push(("b", self.operand(caller, body, &ops.1)));
            }
            Rvalue::UnaryOp(uop, op) => {
                o.push(("k", s("un")));
                o.push(("op", s(format!("{:?}", uop))));
                o.push(("a", self.operand(caller, body, op)));
            }
            Rvalue::Discriminant(p) => {
                o.push(("k", s("disc")));
                o.push(("p", self.place(body, p)));
                let pt = p.ty(&body.local_decls, tcx).ty;
                if let ty::Adt(def, _) = pt.kind() {
                    o.push(("adt", s(self.path(def.did()))));
                }
            }
            Rvalue::Aggregate(kind, fields) => {
                o.push(("k", s("agg")));
                match &**kind {
                    AggregateKind::Array(_) => o.push(("agg", s("array"))),
                    AggregateKind::Tuple => o.push(("agg", s("tuple"))),
                    AggregateKind::Adt(d, vi, _, _, active) => {
                        o.push(("agg", s("adt")));
                        o.push(("adt", s(self.path(*d))));
                        let def = tcx.adt_def(*d);
                        let var = def.variant(*vi);
                        o.push(("variant", s(var.name.to_string())));
                        o.push(("vidx", J::I(vi.as_usize() as i128)));
                        let names: Vec<J> = match active {
                            Some(f) => vec![s(var.fields[*f].name.to_string())],
                            None => var.fields.iter().map(|f| s(f.name.to_string())).collect(),
                        };
                        o.push(("names", J::A(names)));
                    }
                    AggregateKind::Closure(d, _) => {
                        o.push(("agg", s("closure")));
                        o.push(("def", s(self.path(*d))));
                    }
                    AggregateKind::RawPtr(..) => o.push(("agg", s("rawptr"))),
                    _ => o.push(("agg", s("other"))),
                }
                let f: Vec<J> = fields.iter().map(|x| self.operand(caller, body, x)).collect();
                o.push(("fields", J::A(f)));
            }
            Rvalue::CopyForDeref(p) => {
                o.push(("k", s("use")));
                o.push(("o", J::O(vec![("c", self.place(body, p))])));
            }
            Rvalue::ThreadLocalRef(d) => {
                o.push(("k", s("tls")));
                o.push(("def", s(self.path(*d))));
            }
            other => {
                o.push(("k", s("other")));
                o.push(("dbg", s(format!("{:?}", other))));
            }
        }
        J::O(o)
    }

    fn block(&self, caller: DefId, body: &Body<'tcx>, bb: &BasicBlockData<'tcx>) -> J {
        let mut stmts = Vec::new();
        for st in &bb.statements {
            match &st.kind {
                StatementKind::Assign(b) => {
                    let (p, rv) = &**b;
                    stmts.push(J::O(vec![
                        ("k", s("A")),
                        ("p", self.place(body, p)),
                        ("r", self.rvalue(caller, body, rv)),
                        ("s", self.span(st.source_info.span)),
                    ]));
                }
                StatementKind::SetDiscriminant { place, variant_index } => {
                    stmts.push(J::O(vec![
                        ("k", s("SD")),
                        ("p", self.place(body, place)),
                        ("v", J::I(variant_index.as_usize() as i128)),
                        ("s", self.span(st.source_info.span)),
                    ]));
                }
                StatementKind::StorageDead(l) => {
                    stmts.push(J::O(vec![("k", s("dead")), ("l", J::I(l.as_usize() as i128))]));
                }
                StatementKind::Intrinsic(i) => {
                    stmts.push(J::O(vec![("k", s("intr")), ("dbg", s(format!("{:?}", i))), ("s", self.span(st.source_info.span))]));
                }
                _ => {}
            }
        }
        let term = bb.terminator();
        let sp = self.span(term.source_info.span);
        let unwind = |u: &UnwindAction| match u {
            UnwindAction::Cleanup(b) => J::I(b.as_usize() as i128),
            _ => J::Null,
        };
        let t = match &term.kind {
            TerminatorKind::Goto { target } => J::O(vec![("k", s("goto")), ("t", J::I(target.as_usize() as i128))]),
            TerminatorKind::SwitchInt { discr, targets } => {
                let vals: Vec<J> = targets.iter().map(|(v, _)| J::I(v as i128)).collect();
                let tg: Vec<J> = targets.iter().map(|(_, t)| J::I(t.as_usize() as i128)).collect();
                J::O(vec![
                    ("k", s("switch")),
                    ("d", self.operand(caller, body, discr)),
                    ("vals", J::A(vals)),
                    ("tgts", J::A(tg)),
                    ("otherwise", J::I(targets.otherwise().as_usize() as i128)),
                    ("s", sp),
                ])
            }
            TerminatorKind::Return => J::O(vec![("k", s("ret")), ("s", sp)]),
            TerminatorKind::Unreachable => J::O(vec![("k", s("unreachable"))]),
            TerminatorKind::UnwindResume => J::O(vec![("k", s("resume"))]),
            TerminatorKind::UnwindTerminate(_) => J::O(vec![("k", s("terminate"))]),
            TerminatorKind::Drop { place, target, unwind: u, .. } => J::O(vec![
                ("k", s("drop")),
                ("p", self.place(body, place)),
                ("t", J::I(target.as_usize() as i128)),
                ("u", unwind(u)),
                ("s", sp),
            ]),
            TerminatorKind::Call { func, args, destination, target, unwind: u, fn_span, .. } => {
                let a: Vec<J> = args.iter().map(|x| self.operand(caller, body, &x.node)).collect();
                let mut o = vec![("k", s("call"))];
                let fty = func.ty(&body.local_decls, self.tcx);
                match fty.kind() {
                    ty::FnDef(d, ga) => o.push(("f", self.callee(caller, *d, ga))),
                    _ => o.push(("fp", self.operand(caller, body, func))),
                }
                o.push(("args", J::A(a)));
                o.push(("dest", self.place(body, destination)));
                o.push(("t", target.map(|t| J::I(t.as_usize() as i128)).unwrap_or(J::Null)));
                o.push(("u", unwind(u)));
                o.push(("s", sp));
                o.push(("fs", self.span(*fn_span)));
                J::O(o)
            }
            TerminatorKind::Assert { cond, expected, msg, target, unwind: u } => {
                use mir::AssertKind::*;
                let (kind, ops): (String, Vec<J>) = match &**msg {
                    BoundsCheck { len, index } => {
                        ("bounds".into(), vec![self.operand(caller, body, len), self.operand(caller, body, index)])
                    }
                    Overflow(op, a, b) => {
                        (format!("overflow:{:?}", op), vec![self.operand(caller, body, a), self.operand(caller, body, b)])
                    }
                    OverflowNeg(a) => ("overflow_neg".into(), vec![self.operand(caller, body, a)]),
                    DivisionByZero(a) => ("div_zero".into(), vec![self.operand(caller, body, a)]),
                    RemainderByZero(a) => ("rem_zero".into(), vec![self.operand(caller, body, a)]),
                    MisalignedPointerDereference { .. } => ("misaligned".into(), vec![]),
                    NullPointerDereference => ("nullptr".into(), vec![]),
                    other => (format!("other:{:?}", other), vec![]),
                };
                J::O(vec![
                    ("k", s("assert")),
                    ("cond", self.operand(caller, body, cond)),
                    ("expected", J::B(*expected)),
                    ("kind", s(kind)),
                    ("ops", J::A(ops)),
                    ("t", J::I(target.as_usize() as i128)),
                    ("u", unwind(u)),
                    ("s", sp),
                ])
            }
            TerminatorKind::FalseEdge { real_target, .. } => {
                J::O(vec![("k", s("goto")), ("t", J::I(real_target.as_usize() as i128))])
            }
            TerminatorKind::FalseUnwind { real_target, .. } => {
                J::O(vec![("k", s("goto")), ("t", J::I(real_target.as_usize() as i128))])
            }
            other => J::O(vec![("k", s("other")), ("dbg", s(format!("{:?}", other)))]),
        };
        J::O(vec![("cleanup", J::B(bb.is_cleanup)), ("st", J::A(stmts)), ("term", t)])
    }

    fn body(&self, caller: DefId, body: &Body<'tcx>) -> Vec<(&'static str, J)> {
        let mut names: HashMap<usize, String> = HashMap::new();
        let mut dbg = Vec::new();
        for v in &body.var_debug_info {
            if let mir::VarDebugInfoContents::Place(p) = &v.value {
                if p.projection.is_empty() {
                    names.entry(p.local.as_usize()).or_insert_with(|| v.name.to_string());
                } else {
                    dbg.push(J::A(vec![s(v.name.to_string()), self.place(body, p)]));
                }
            }
        }
        let locals: Vec<J> = body
            .local_decls
            .iter_enumerated()
            .map(|(l, d)| {
                let n = names.get(&l.as_usize()).map(|x| s(x.clone())).unwrap_or(J::Null);
                let user = names.contains_key(&l.as_usize());
                J::A(vec![self.ty(d.ty), n, J::B(user), J::B(d.mutability.is_mut())])
            })
            .collect();
        let blocks: Vec<J> = body.basic_blocks.iter().map(|b| self.block(caller, body, b)).collect();
        vec![("argc", J::I(body.arg_count as i128)), ("locals", J::A(locals)), ("dbg", J::A(dbg)), ("blocks", J::A(blocks))]
    }

    fn dump_fn(&self, ld: LocalDefId) -> Option<J> {
        let tcx = self.tcx;
        let d = ld.to_def_id();
        let dk = tcx.def_kind(d);
        let body: &Body<'tcx> = match dk {
            DefKind::Fn | DefKind::AssocFn | DefKind::Closure => {
                if !tcx.is_mir_available(d) {
                    return None;
                }
                tcx.optimized_mir(d)
            }
            DefKind::Const { .. } | DefKind::AssocConst { .. } | DefKind::Static { .. } | DefKind::AnonConst | DefKind::InlineConst => {
                tcx.mir_for_ctfe(d)
            }
            _ => return None,
        };
        let mut o = self.def_info(d, None);
        o.push(("kind", s(format!("{:?}", dk))));
        let root = tcx.typeck_root_def_id(d);
        if root != d {
            o.push(("root", s(self.path(root))));
            o.push(("parent", s(self.path(tcx.parent(d)))));
            // a closure inherits impl context from its root
            let ri = self.def_info(root, None);
            for (k, v) in ri {
                if k == "adt" || k == "trait" || k == "self_ty" {
                    o.push((if k == "adt" { "root_adt" } else if k == "trait" { "root_trait" } else { "root_self_ty" }, v));
                }
            }
        }
        if matches!(dk, DefKind::Fn | DefKind::AssocFn) {
            let sig = tcx.fn_sig(d).instantiate_identity().skip_norm_wip();
            o.push(("abi", s(format!("{:?}", sig.abi()))));
            o.push(("unsafe", J::B(!sig.safety().is_safe())));
            let vis = tcx.visibility(d);
            o.push(("pub", J::B(vis.is_public())));
            let ev = tcx.effective_visibilities(());
            o.push(("reach", J::B(ev.is_reachable(ld))));
            o.push(("exported", J::B(ev.is_exported(ld))));
            let sigs = sig.skip_binder();
            let ins: Vec<J> = sigs.inputs().iter().map(|t| self.ty(*t)).collect();
            o.push(("inputs", J::A(ins)));
            o.push(("output", self.ty(sigs.output())));
            let attrs: Vec<J> = tcx
                .codegen_fn_attrs(d)
                .symbol_name
                .map(|n| vec![s(n.to_string())])
                .unwrap_or_default();
            o.push(("export_name", J::A(attrs)));
            o.push(("no_mangle", J::B(tcx.codegen_fn_attrs(d).flags.contains(rustc_middle::middle::codegen_fn_attrs::CodegenFnAttrFlags::NO_MANGLE))));
            // names of the type parameters in the order call sites list their type arguments (`substs`)
            let tps: Vec<J> = ty::GenericArgs::identity_for_item(tcx, d).iter().filter_map(|a| a.as_type()).map(|t| s(format!("{}", t))).collect();
            o.push(("type_params", J::A(tps)));
        }
        let mut derived = false;
        if let Some(imp) = tcx.impl_of_assoc(root) {
            derived = tcx.is_automatically_derived(imp);
        }
        o.push(("derived", J::B(derived)));
        let (file, line, end) = self.file_line(tcx.def_span(d));
        let (_, _, end_body) = self.file_line(body.span);
        o.push(("file", s(file)));
        o.push(("line", J::I(line as i128)));
        o.push(("end_line", J::I(end.max(end_body) as i128)));
        o.push(("from_expansion", J::B(tcx.def_span(d).from_expansion())));
        o.extend(self.body(d, body));
        if matches!(dk, DefKind::Fn | DefKind::AssocFn | DefKind::Closure) {
            let prom = tcx.promoted_mir(d);
            let pj: Vec<J> = prom.iter().map(|b| J::O(self.body(d, b))).collect();
            o.push(("promoted", J::A(pj)));
        }
        Some(J::O(o))
    }

    fn dump_adt(&self, d: DefId) -> J {
        let tcx = self.tcx;
        let def = tcx.adt_def(d);
        let mut o: Vec<(&'static str, J)> = vec![("path", s(self.path(d)))];
        o.push(("kind", s(if def.is_enum() { "enum" } else if def.is_union() { "union" } else { "struct" })));
        o.push(("repr_c", J::B(def.repr().c())));
        o.push(("repr", s(format!("{:?}", def.repr()))));
        let (file, line, _) = self.file_line(tcx.def_span(d));
        o.push(("file", s(file)));
        o.push(("line", J::I(line as i128)));
        let mut vars = Vec::new();
        for v in def.variants() {
            let mut fs = Vec::new();
            for f in &v.fields {
                let ft = tcx.type_of(f.did).instantiate_identity().skip_norm_wip();
                fs.push(J::O(vec![
                    ("name", s(f.name.to_string())),
                    ("ty", self.ty(ft)),
                    ("pub", J::B(f.vis.is_public())),
                ]));
            }
            vars.push(J::O(vec![("name", s(v.name.to_string())), ("fields", J::A(fs))]));
        }
        o.push(("variants", J::A(vars)));
        J::O(o)
    }

    fn dump(&self, nonce: &str) -> J {
        let tcx = self.tcx;
        let mut fns = Vec::new();
        for ld in tcx.hir_body_owners() {
            if let Some(j) = self.dump_fn(ld) {
                fns.push(j);
            }
        }
        let mut adts = Vec::new();
        let mut impls = Vec::new();
        let mut traits = Vec::new();
        let mut statics = Vec::new();
        let mut consts = Vec::new();
        let items = tcx.hir_crate_items(());
        for ld in items.definitions() {
            let d = ld.to_def_id();
            match tcx.def_kind(d) {
                DefKind::Struct | DefKind::Enum | DefKind::Union => adts.push(self.dump_adt(d)),
                DefKind::Impl { of_trait } => {
                    let self_ty = tcx.type_of(d).instantiate_identity().skip_norm_wip();
                    let mut o: Vec<(&'static str, J)> = vec![("self_ty", s(self.ty_str(self_ty))), ("ty", self.ty(self_ty))];
                    if let ty::Adt(def, _) = self_ty.kind() {
                        o.push(("adt", s(self.path(def.did()))));
                    }
                    if of_trait {
                        let tr = tcx.impl_trait_id(d);
                        o.push(("trait", s(self.path(tr))));
                        let pol = tcx.impl_polarity(d);
                        o.push(("polarity", s(format!("{:?}", pol))));
                    }
                    o.push(("derived", J::B(tcx.is_automatically_derived(d))));
                    let methods: Vec<J> = tcx
                        .associated_items(d)
                        .in_definition_order()
                        .map(|it| J::O(vec![("name", s(it.opt_name().map(|n| n.to_string()).unwrap_or_default())), ("path", s(self.path(it.def_id))), ("kind", s(format!("{:?}", it.kind)))]))
                        .collect();
                    o.push(("items", J::A(methods)));
                    let (file, line, _) = self.file_line(tcx.def_span(d));
                    o.push(("file", s(file)));
                    o.push(("line", J::I(line as i128)));
                    impls.push(J::O(o));
                }
                DefKind::Trait => {
                    let methods: Vec<J> = tcx
                        .associated_items(d)
                        .in_definition_order()
                        .map(|it| J::O(vec![("name", s(it.opt_name().map(|n| n.to_string()).unwrap_or_default())), ("path", s(self.path(it.def_id))), ("has_default", J::B(it.defaultness(tcx).has_value()))]))
                        .collect();
                    traits.push(J::O(vec![("path", s(self.path(d))), ("items", J::A(methods))]));
                }
                DefKind::Static { mutability, .. } => {
                    let t = tcx.type_of(d).instantiate_identity().skip_norm_wip();
                    let env = TypingEnv::post_analysis(tcx, d);
                    let (file, line, _) = self.file_line(tcx.def_span(d));
                    statics.push(J::O(vec![
                        ("path", s(self.path(d))),
                        ("ty", self.ty(t)),
                        ("mut", J::B(mutability.is_mut())),
                        ("freeze", J::B(t.is_freeze(tcx, env))),
                        ("file", s(file)),
                        ("line", J::I(line as i128)),
                    ]));
                }
                DefKind::Const { .. } => {
                    let t = tcx.type_of(d).instantiate_identity().skip_norm_wip();
                    let mut o: Vec<(&'static str, J)> = vec![("path", s(self.path(d))), ("ty", self.ty(t))];
                    let generics = tcx.generics_of(d);
                    if generics.count() == 0 {
                        let r = std::panic::catch_unwind(std::panic::AssertUnwindSafe(|| tcx.const_eval_poly(d)));
                        if let Ok(Ok(cv)) = r {
                            self.const_val(d, cv, t, &mut o);
                        }
                    }
                    let (file, line, _) = self.file_line(tcx.def_span(d));
                    o.push(("file", s(file)));
                    o.push(("line", J::I(line as i128)));
                    consts.push(J::O(o));
                }
                _ => {}
            }
        }
        // user-written unsafe blocks (HIR)
        let mut unsafe_blocks = Vec::new();
        for ld in tcx.hir_body_owners() {
            let body = tcx.hir_body_owned_by(ld);
            let mut v = UnsafeFinder { found: Vec::new() };
            rustc_hir::intravisit::Visitor::visit_body(&mut v, body);
            for sp in v.found {
                let (file, line, _) = self.file_line(sp);
                unsafe_blocks.push(J::O(vec![
                    ("fn", s(self.path(ld.to_def_id()))),
                    ("file", s(file)),
                    ("line", J::I(line as i128)),
                    ("from_expansion", J::B(sp.from_expansion())),
                ]));
            }
        }
        let sess = tcx.sess;
        let mut feats: Vec<String> = sess
            .config
            .iter()
            .filter(|(k, _)| k.as_str() == "feature")
            .map(|(_, v)| v.map(|x| x.to_string()).unwrap_or_default())
            .collect();
        feats.sort();
        let config = J::O(vec![
            ("crate", s(tcx.crate_name(rustc_hir::def_id::LOCAL_CRATE).to_string())),
            ("cfg", J::A(feats.into_iter().map(J::S).collect())),
            ("opt_level", s(format!("{:?}", sess.opts.optimize))),
            ("overflow_checks", J::B(sess.overflow_checks())),
            ("debug_assertions", J::B(sess.opts.debug_assertions)),
            ("mir_opt_level", J::I(sess.mir_opt_level() as i128)),
            ("rustc", s(option_env!("CFG_VERSION").unwrap_or("nightly").to_string())),
            ("schema", J::I(1)),
        ]);
        let types = self.types.borrow().clone();
        J::O(vec![
            ("nonce", s(nonce)),
            ("config", config),
            ("fns", J::A(fns)),
            ("adts", J::A(adts)),
            ("impls", J::A(impls)),
            ("traits", J::A(traits)),
            ("statics", J::A(statics)),
            ("consts", J::A(consts)),
            ("unsafe_blocks", J::A(unsafe_blocks)),
            ("types", J::A(types)),
        ])
    }
}

struct UnsafeFinder {
    found: Vec<Span>,
}

impl<'v> rustc_hir::intravisit::Visitor<'v> for UnsafeFinder {
    fn visit_block(&mut self, b: &'v rustc_hir::Block<'v>) {
        if let rustc_hir::BlockCheckMode::UnsafeBlock(rustc_hir::UnsafeSource::UserProvided) = b.rules {
            self.found.push(b.span);
        }
        rustc_hir::intravisit::walk_block(self, b);
    }
}
