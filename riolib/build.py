"""riolib.build — (re)generate the fact file from a source tree with the riofacts driver."""
import fcntl
import glob
import hashlib
import json
import os
import shutil
import subprocess
import sys
import time

VERIF = os.path.dirname(os.path.dirname(os.path.abspath(__file__)))
CACHE = os.path.join(VERIF, ".cache")
DRIVER_DIR = os.path.join(VERIF, "riofacts")
DRIVER = os.path.join(DRIVER_DIR, "target", "debug", "riofacts")
REPO = os.environ.get("VERIF_REPO", "/repo")

CONFIGS = {
    "default": [],
    "nodefault": ["--no-default-features"],
    "router": ["--no-default-features", "--features", "router"],
    "compress": ["--no-default-features", "--features", "compress"],
    "dot": ["--features", "dot"],
    "release": ["--release"],
}


class BuildError(Exception):
    pass


def _sysroot():
    return subprocess.check_output(["rustc", "+nightly", "--print", "sysroot"], text=True).strip()


def ensure_driver():
    os.makedirs(CACHE, exist_ok=True)
    srcs = sorted(glob.glob(os.path.join(DRIVER_DIR, "src", "*.rs"))) + [os.path.join(DRIVER_DIR, "Cargo.toml")]
    newest = max(os.path.getmtime(p) for p in srcs)
    if os.path.exists(DRIVER) and os.path.getmtime(DRIVER) >= newest:
        return
    with open(os.path.join(CACHE, "driver.lock"), "w") as lk:
        fcntl.flock(lk, fcntl.LOCK_EX)
        if os.path.exists(DRIVER) and os.path.getmtime(DRIVER) >= newest:
            return
        env = dict(os.environ, CARGO_NET_OFFLINE="true")
        env.pop("RUSTC_WORKSPACE_WRAPPER", None)
        env.pop("RUSTFLAGS", None)
        r = subprocess.run(["cargo", "build", "--offline"], cwd=DRIVER_DIR, env=env, stdout=subprocess.PIPE, stderr=subprocess.STDOUT, text=True)
        if r.returncode != 0:
            raise BuildError("driver build failed:\n" + r.stdout[-4000:])


def tree_hash(src_root, extra=()):
    h = hashlib.sha256()
    files = []
    for base, dirs, fs in os.walk(os.path.join(src_root, "src")):
        dirs.sort()
        for f in sorted(fs):
            files.append(os.path.join(base, f))
    for f in ("Cargo.toml", "Cargo.lock"):
        p = os.path.join(src_root, f)
        if os.path.exists(p):
            files.append(p)
    for p in files:
        h.update(os.path.relpath(p, src_root).encode())
        with open(p, "rb") as fh:
            h.update(hashlib.sha256(fh.read()).digest())
    with open(DRIVER, "rb") as fh:
        h.update(hashlib.sha256(fh.read()).digest())
    for e in extra:
        h.update(str(e).encode())
    return h.hexdigest()[:20]


def facts_path(src_root=None, config="default", crate="redirectionio"):
    """Return the path of an up-to-date fact file for (tree, config), generating it if needed."""
    src_root = src_root or REPO
    ensure_driver()
    hv = tree_hash(src_root, extra=(config, crate))
    out = os.path.join(CACHE, "facts-%s-%s-%s.json" % (crate, config, hv))
    if os.path.exists(out):
        return out
    with open(os.path.join(CACHE, "facts.lock"), "w") as lk:
        fcntl.flock(lk, fcntl.LOCK_EX)
        if os.path.exists(out):
            return out
        _generate(src_root, config, crate, out)
        _prune(crate, config, keep=out)
    return out


def _prune(crate, config, keep, maxn=24):
    pats = sorted(glob.glob(os.path.join(CACHE, "facts-%s-%s-*.json" % (crate, config))), key=os.path.getmtime)
    for p in pats[:-maxn]:
        if p != keep:
            try:
                os.remove(p)
            except OSError:
                pass


def _generate(src_root, config, crate, out):
    target = os.environ.get("VERIF_TARGET_DIR", os.path.join(CACHE, "target"))
    profile_dir = "release" if config == "release" else "debug"
    for p in glob.glob(os.path.join(target, profile_dir, ".fingerprint", crate + "-*")):
        shutil.rmtree(p, ignore_errors=True)
    nonce = "%d-%f" % (os.getpid(), time.time())
    env = dict(os.environ)
    env.update({
        "PUBLISH_SKIP_BUILD": "1",
        "CARGO_NET_OFFLINE": "true",
        "LD_LIBRARY_PATH": _sysroot() + "/lib" + (":" + env["LD_LIBRARY_PATH"] if env.get("LD_LIBRARY_PATH") else ""),
        "RUSTFLAGS": "-Zmir-opt-level=0 -Awarnings",
        "RUSTC_WORKSPACE_WRAPPER": DRIVER,
        "RIOFACTS_OUT": out,
        "RIOFACTS_NONCE": nonce,
        "RIOFACTS_CRATES": crate,
        "CARGO_TARGET_DIR": target,
    })
    cmd = ["cargo", "+nightly", "check", "--offline", "--lib"] + CONFIGS.get(config, [])
    t0 = time.time()
    r = subprocess.run(cmd, cwd=src_root, env=env, stdout=subprocess.PIPE, stderr=subprocess.STDOUT, text=True)
    if r.returncode != 0:
        raise BuildError("cargo check under the riofacts driver failed for %s (%s):\n%s" % (src_root, config, r.stdout[-6000:]))
    if not os.path.exists(out):
        raise BuildError("driver did not write %s (cargo skipped the wrapper?)\n%s" % (out, r.stdout[-2000:]))
    with open(out) as fh:
        head = fh.read(200)
    if nonce not in head:
        raise BuildError("fact file %s does not carry this run's nonce" % out)
    sys.stderr.write("[riofacts] %s/%s analysed in %.1fs\n" % (src_root, config, time.time() - t0))
