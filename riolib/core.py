"""riolib.core — fact loader, function model, CFG utilities (P2) and call graph (P1).

Everything here works on the JSON fact file written by the riofacts driver; nothing executes
library code.  Standard library only.
"""
import json
import re
from collections import defaultdict, deque


# ----------------------------------------------------------------------------------------
# callee descriptors
# ----------------------------------------------------------------------------------------
class Callee:
    """A resolved call target.  `adt`/`trait`/`name` are the structured key rules match on."""

    __slots__ = ("path", "name", "adt", "trait", "local", "self_ty", "closure", "virtual", "raw", "substs", "def_path",
                 "def_trait", "def_adt", "trait_impl")

    def __init__(self, f):
        self.raw = f
        r = f.get("res") or f
        self.def_path = f["path"]
        self.def_trait = f.get("trait")
        self.def_adt = f.get("adt")
        self.path = r["path"]
        self.name = r["name"]
        self.adt = r.get("adt") or f.get("adt")
        self.trait = r.get("trait") or f.get("trait")
        self.local = r.get("local", False)
        self.self_ty = f.get("self_ty") or r.get("self_ty")
        self.closure = r.get("closure") or f.get("closure")
        if r.get("path", "").endswith("}") and "{closure" in r.get("path", ""):
            self.closure = r["path"]
        self.virtual = bool(f.get("virtual")) or r.get("inst") == "virtual"
        self.substs = f.get("substs", [])
        self.trait_impl = r.get("trait_impl")

    def is_(self, adt=None, name=None, trait=None):
        if name is not None and self.name != name:
            return False
        if adt is not None and self.adt != adt:
            return False
        if trait is not None and self.trait != trait:
            return False
        return True

    def key(self):
        if self.trait and not self.local and self.adt:
            return "<%s as %s>::%s" % (self.adt, self.trait, self.name)
        if self.adt:
            return "%s::%s" % (self.adt, self.name)
        if self.trait:
            return "%s::%s" % (self.trait, self.name)
        return strip_generics(self.path)

    def __repr__(self):
        return "Callee(%s)" % self.key()


_GEN = re.compile(r"::<[^<>]*>")


def strip_generics(path):
    prev = None
    while prev != path:
        prev = path
        path = _GEN.sub("", path)
    return path


# ----------------------------------------------------------------------------------------
# functions
# ----------------------------------------------------------------------------------------
class Fn:
    def __init__(self, facts, j):
        self.facts = facts
        self.j = j
        self.path = j["path"]
        self.name = j["name"]
        self.kind = j["kind"]
        self.adt = j.get("adt")
        self.trait = j.get("trait")
        self.root = j.get("root")
        self.parent = j.get("parent")
        self.file = j["file"]
        self.line = j["line"]
        self.end_line = j["end_line"]
        self.derived = j.get("derived", False)
        self.blocks = j["blocks"]
        self.locals = j["locals"]
        self.argc = j["argc"]
        self.abi = j.get("abi", "Rust")
        self.is_closure = self.kind == "Closure"
        self.closures = []  # filled by Facts
        self._succ = None
        self._pred = None
        self._dom = None
        self._defs = None

    # -- identity -------------------------------------------------------------------
    @property
    def key(self):
        """Stable, generics-free key: `<adt>::name`, `<adt as trait>::name`, or the stripped path."""
        base = self.j.get("root") and None
        if self.is_closure or self.root:
            return strip_generics(self.path)
        if self.adt and self.trait:
            return "<%s as %s>::%s" % (self.adt, self.trait, self.name)
        if self.adt:
            return "%s::%s" % (self.adt, self.name)
        return strip_generics(self.path)

    @property
    def site(self):
        return "%s:%d" % (self.file, self.line)

    def loc(self, span):
        line = span if isinstance(span, int) else (span[0] if span else self.line)
        return "%s:%s" % (self.file, line)

    def local_ty(self, l):
        return self.facts.types[self.locals[l][0]]

    def local_name(self, l):
        return self.locals[l][1]

    # -- CFG (normal flow only: cleanup blocks and unwind edges are ignored) --------------
    def succ(self, b):
        if self._succ is None:
            self._build_cfg()
        return self._succ[b]

    def pred(self, b):
        if self._succ is None:
            self._build_cfg()
        return self._pred[b]

    def _build_cfg(self):
        n = len(self.blocks)
        succ = [[] for _ in range(n)]
        for i, b in enumerate(self.blocks):
            if b["cleanup"]:
                continue
            t = b["term"]
            k = t["k"]
            if k == "goto":
                succ[i] = [t["t"]]
            elif k == "switch":
                s = list(t["tgts"]) + [t["otherwise"]]
                succ[i] = list(dict.fromkeys(s))
            elif k in ("call", "drop", "assert"):
                succ[i] = [t["t"]] if t.get("t") is not None else []
            else:
                succ[i] = []
        pred = [[] for _ in range(n)]
        for i, ss in enumerate(succ):
            for s_ in ss:
                pred[s_].append(i)
        self._succ, self._pred = succ, pred

    def reachable_blocks(self, start=0, stop=None):
        seen = {start}
        dq = deque([start])
        while dq:
            b = dq.popleft()
            if stop and b in stop:
                continue
            for s_ in self.succ(b):
                if s_ not in seen:
                    seen.add(s_)
                    dq.append(s_)
        return seen

    def normal_blocks(self):
        return sorted(self.reachable_blocks(0))

    def dominators(self):
        """dom[b] = set of blocks dominating b (over normal flow from block 0)."""
        if self._dom is not None:
            return self._dom
        blocks = self.normal_blocks()
        allb = set(blocks)
        dom = {b: set(allb) for b in blocks}
        dom[0] = {0}
        changed = True
        order = blocks
        while changed:
            changed = False
            for b in order:
                if b == 0:
                    continue
                ps = [p for p in self.pred(b) if p in allb]
                if not ps:
                    continue
                new = set(allb)
                for p in ps:
                    new &= dom[p]
                new.add(b)
                if new != dom[b]:
                    dom[b] = new
                    changed = True
        self._dom = dom
        return dom

    def dominates(self, a, b):
        d = self.dominators()
        return b in d and a in d[b]

    def exits(self):
        return [i for i in self.normal_blocks() if self.blocks[i]["term"]["k"] == "ret"]

    def must_pass_through(self, targets, start=0, ends=None, avoid_ok=None):
        """True iff every normal path start -> any end block passes through a block in `targets`.
        Paths that end in diverging calls (panic) or unreachable are ignored."""
        targets = set(targets)
        ends = set(self.exits() if ends is None else ends)
        if start in targets:
            return True
        seen = {start}
        dq = deque([start])
        while dq:
            b = dq.popleft()
            if b in ends:
                return False
            for s_ in self.succ(b):
                if s_ in targets or s_ in seen:
                    continue
                seen.add(s_)
                dq.append(s_)
        return True

    def path_avoiding(self, targets, start=0, ends=None):
        """Return one block path from start to an end that avoids `targets`, or None."""
        targets = set(targets)
        ends = set(self.exits() if ends is None else ends)
        if start in targets:
            return None
        prev = {start: None}
        dq = deque([start])
        while dq:
            b = dq.popleft()
            if b in ends:
                p = []
                while b is not None:
                    p.append(b)
                    b = prev[b]
                return list(reversed(p))
            for s_ in self.succ(b):
                if s_ in targets or s_ in prev:
                    continue
                prev[s_] = b
                dq.append(s_)
        return None

    def can_reach(self, a, b, avoid=()):
        avoid = set(avoid)
        seen = {a}
        dq = deque([a])
        while dq:
            x = dq.popleft()
            for s_ in self.succ(x):
                if s_ == b:
                    return True
                if s_ in seen or s_ in avoid:
                    continue
                seen.add(s_)
                dq.append(s_)
        return False

    def back_edges(self):
        """Edges (a,b) where b dominates a (natural loops)."""
        out = []
        for a in self.normal_blocks():
            for b in self.succ(a):
                if self.dominates(b, a):
                    out.append((a, b))
        return out

    def loop_blocks(self, head):
        """Blocks of the natural loop(s) with header `head`."""
        body = {head}
        for a, b in self.back_edges():
            if b != head:
                continue
            st = [a]
            while st:
                x = st.pop()
                if x in body:
                    continue
                body.add(x)
                st.extend(self.pred(x))
        return body

    def in_loop(self, b):
        for a, h in self.back_edges():
            if b in self.loop_blocks(h):
                return True
        return False

    # -- iteration helpers ------------------------------------------------------------
    def calls(self, include_cleanup=False):
        """Yield (block index, terminator, Callee|None) for every call terminator."""
        blocks = range(len(self.blocks)) if include_cleanup else self.normal_blocks()
        for i in blocks:
            t = self.blocks[i]["term"]
            if t["k"] == "call":
                yield i, t, (Callee(t["f"]) if "f" in t else None)

    def stmts(self):
        for i in self.normal_blocks():
            for si, st in enumerate(self.blocks[i]["st"]):
                yield i, si, st

    def assigns(self):
        for i, si, st in self.stmts():
            if st["k"] == "A":
                yield i, si, st

    def all_bodies(self, _seen=None):
        """This function followed by all closures (transitively) defined inside it."""
        seen = _seen if _seen is not None else set()
        if id(self) in seen:
            return []
        seen.add(id(self))
        out = [self]
        for c in self.closures:
            out.extend(c.all_bodies(seen))
        return out

    # -- definitions of locals ----------------------------------------------------------
    def defs(self):
        """local -> list of (block, stmt index | 'term') where the *whole* local is assigned."""
        if self._defs is not None:
            return self._defs
        d = defaultdict(list)
        for i in self.normal_blocks():
            b = self.blocks[i]
            for si, st in enumerate(b["st"]):
                if st["k"] == "A" and not st["p"][1]:
                    d[st["p"][0]].append((i, si))
            t = b["term"]
            if t["k"] == "call" and not t["dest"][1]:
                d[t["dest"][0]].append((i, "term"))
        self._defs = d
        return d


def is_expansion(span, allow=("d:",)):
    """True when the span comes from a macro expansion (desugarings such as `?` and `for`
    are user code and are not counted)."""
    if isinstance(span, int) or span is None:
        return False
    outer = span[1]
    for a in allow:
        if outer.startswith(a):
            return False
    return True


def span_line(span):
    if isinstance(span, int):
        return span
    if span:
        return span[0]
    return 0


def macro_of(span):
    if isinstance(span, int) or span is None:
        return None
    return span[1]


# ----------------------------------------------------------------------------------------
# places / operands helpers
# ----------------------------------------------------------------------------------------
def op_place(op):
    if "c" in op:
        return op["c"]
    if "m" in op:
        return op["m"]
    return None


def op_const(op):
    return op.get("k")


def place_fields(place):
    """List of (field name, adt) along the projection."""
    return [(p[2] if len(p) > 2 else None, p[3] if len(p) > 3 else None) for p in place[1] if isinstance(p, list) and p[0] == "f"]


def place_has_field(place, adt, field):
    for p in place[1]:
        if isinstance(p, list) and p[0] == "f" and len(p) > 3 and p[3] == adt and p[2] == field:
            return True
    return False


def place_str(fn, place):
    l, projs = place
    name = fn.local_name(l) or ("_%d" % l)
    s = name
    for p in projs:
        if p == "*":
            s = "(*%s)" % s
        elif p[0] == "f":
            s = "%s.%s" % (s, p[2] if len(p) > 2 and p[2] else p[1])
        elif p[0] == "i":
            s = "%s[%s]" % (s, fn.local_name(p[1]) or "_%d" % p[1])
        elif p[0] == "d":
            s = "(%s as %s)" % (s, p[1])
        elif p[0] == "ci":
            s = "%s[%s%d]" % (s, "-" if p[3] else "", p[1])
        elif p[0] == "ss":
            s = "%s[%d..%s%d]" % (s, p[1], "-" if p[3] else "", p[2])
        else:
            s = "%s.?" % s
    return s


# ----------------------------------------------------------------------------------------
# facts
# ----------------------------------------------------------------------------------------
class Facts:
    def __init__(self, path):
        with open(path) as fh:
            d = json.load(fh)
        from .inline import apply as _inline_new_helpers
        from .desugar import apply as _desugar_chains
        self.inline_summary = _inline_new_helpers(d)
        self.desugar_summary = _desugar_chains(d)
        self.raw = d
        self.path = path
        self.nonce = d["nonce"]
        self.config = d["config"]
        self.types = d["types"]
        self.fns = {}
        self.fn_list = []
        for j in d["fns"]:
            f = Fn(self, j)
            p = f.path
            n = 1
            while p in self.fns:
                n += 1
                p = "%s#%d" % (f.path, n)
            self.fns[p] = f
            if not j.get("desugared_away"):
                self.fn_list.append(f)
        for f in self.fn_list:
            if f.parent and f.parent in self.fns and (f.is_closure or f.root):
                self.fns[f.parent].closures.append(f)
        # closures defined in a helper that was inlined also belong to the body it was inlined into
        for g in self.fn_list:
            for hp in g.j.get("inlined", ()):
                for f in self.fn_list:
                    if f.parent == hp and (f.is_closure or f.root) and f not in g.closures and f is not g:
                        g.closures.append(f)
        self.dropped = {}
        for j in d.get("dropped_fns", ()):
            self.dropped.setdefault(j["path"], Fn(self, j))
        self.adts = {a["path"]: a for a in d["adts"]}
        self.impls = d["impls"]
        self.traits = {t["path"]: t for t in d["traits"]}
        self.statics = d["statics"]
        self.consts = {c["path"]: c for c in d["consts"]}
        self.unsafe_blocks = d["unsafe_blocks"]
        self._by_key = defaultdict(list)
        for f in self.fn_list:
            self._by_key[f.key].append(f)
        self._cg = None

    def loop_form(self, fn):
        """`fn` with every supported iterator chain written out as a loop (closures inlined), whatever the
        closures do.  For rules that read what a small function computes from its loop; the stand-alone
        Fn is not registered anywhere."""
        import copy as _copy
        from .desugar import desugar_function
        cache = self.__dict__.setdefault("_loop_forms", {})
        if fn.path in cache:
            return cache[fn.path]
        j = _copy.deepcopy(fn.j)
        try:
            n = desugar_function(self.raw, j)
        except Exception:
            n = 0
        if not n:
            cache[fn.path] = fn
            return fn
        g = Fn(self, j)
        inl = set(j.get("inlined", ()))
        g.closures = [c for c in fn.closures if c.path not in inl]
        for c in self.fns.values():
            if c.parent in inl and (c.is_closure or c.root) and c not in g.closures:
                g.closures.append(c)
        cache[fn.path] = g
        return g

    # -- lookup -------------------------------------------------------------------------
    def fn(self, key, required=True):
        """Look a function up by its generics-free key (`adt::name`, `<adt as trait>::name`,
        free fn path)."""
        c = self._by_key.get(key, [])
        if len(c) == 1:
            return c[0]
        if not c:
            if required:
                raise MissingAnchor("function %s not found" % key)
            return None
        raise MissingAnchor("function key %s is ambiguous (%d bodies)" % (key, len(c)))

    def fns_where(self, **kw):
        out = []
        for f in self.fn_list:
            ok = True
            for k, v in kw.items():
                if getattr(f, k) != v:
                    ok = False
                    break
            if ok:
                out.append(f)
        return out

    def methods_of(self, adt, inherent_only=False):
        return [f for f in self.fn_list if f.adt == adt and not f.is_closure and not f.root and (not inherent_only or not f.trait)]

    def method(self, adt, name, trait=None, required=True):
        c = [f for f in self.fn_list if f.adt == adt and f.name == name and f.trait == trait and not f.root]
        if len(c) == 1:
            return c[0]
        if not c and not required:
            return None
        raise MissingAnchor("method %s::%s (trait %s): %d candidates" % (adt, name, trait, len(c)))

    def impls_of_trait(self, trait):
        return [i for i in self.impls if i.get("trait") == trait]

    def adt(self, path):
        if path not in self.adts:
            raise MissingAnchor("ADT %s not found" % path)
        return self.adts[path]

    def adt_fields(self, path, variant=None):
        a = self.adt(path)
        out = []
        for v in a["variants"]:
            if variant is None or v["name"] == variant:
                for f in v["fields"]:
                    out.append((f["name"], self.types[f["ty"]]))
        return out

    def ty(self, ix):
        return self.types[ix]

    # -- call graph (P1) ---------------------------------------------------------------
    def callgraph(self):
        if self._cg is None:
            self._cg = CallGraph(self)
        return self._cg


class MissingAnchor(Exception):
    pass


CALLBACK_TRAITS = {
    "std::clone::Clone": ["clone", "clone_from"],
    "std::ops::Drop": ["drop"],
    "std::cmp::PartialEq": ["eq", "ne"],
    "std::cmp::Eq": [],
    "std::cmp::PartialOrd": ["partial_cmp", "lt", "le", "gt", "ge"],
    "std::cmp::Ord": ["cmp"],
    "std::hash::Hash": ["hash"],
    "std::fmt::Debug": ["fmt"],
    "std::fmt::Display": ["fmt"],
    "std::iter::Iterator": ["next"],
    "std::default::Default": ["default"],
    "std::convert::From": ["from"],
    "std::string::ToString": ["to_string"],
    "serde::Serialize": ["serialize"],
    "serde::Deserialize": ["deserialize"],
}


class CallGraph:
    """Resolved call graph over local bodies.

    Edges: direct calls to local functions; closure bodies from the function creating them;
    `dyn Trait` / unresolved trait-method calls on a local trait or with unknown receiver expand
    to all local impls of that method; calls to foreign generics instantiated with local types
    get conservative callback edges to those types' Clone/Drop/Eq/Ord/Hash/Debug/Display/Iterator
    impls.
    """

    def __init__(self, facts):
        self.facts = facts
        self.edges = defaultdict(set)
        self.redges = defaultdict(set)
        self.sites = defaultdict(list)  # (caller, callee) -> [(block, line)]
        # trait method name -> local impl fns
        self.trait_impl_fns = defaultdict(list)
        for f in facts.fn_list:
            if f.trait and not f.root:
                self.trait_impl_fns[(f.trait, f.name)].append(f)
        # local ADT -> its trait-impl fns usable as callbacks
        self.adt_callbacks = defaultdict(list)
        for f in facts.fn_list:
            if f.trait in CALLBACK_TRAITS and f.adt and not f.root:
                self.adt_callbacks[f.adt].append(f)
        for f in facts.fn_list:
            self._add_fn(f)

    def _edge(self, a, b, blk=None, line=None):
        self.edges[a.path].add(b.path)
        self.redges[b.path].add(a.path)
        if blk is not None:
            self.sites[(a.path, b.path)].append((blk, line))

    def _add_fn(self, f):
        facts = self.facts
        for c in f.closures:
            self._edge(f, c)
        for bi, t, cal in f.calls(include_cleanup=True):
            line = span_line(t["s"])
            if cal is None:
                continue  # fn pointer call: targets come from reify edges below
            tgt = None
            if cal.local:
                tgt = facts.fns.get(cal.path)
                if tgt is None:
                    # path printed with concrete generics -> look up by key
                    cands = [g for g in facts.fn_list if g.name == cal.name and g.adt == cal.adt and g.trait == (cal.trait if cal.trait_impl else None) and not g.root]
                    if len(cands) == 1:
                        tgt = cands[0]
                if tgt is not None:
                    self._edge(f, tgt, bi, line)
                    continue
            # unresolved / virtual trait method: expand to all local impls
            if cal.trait and (cal.virtual or not cal.raw.get("res")) and (cal.trait, cal.name) in self.trait_impl_fns:
                cands = self.trait_impl_fns[(cal.trait, cal.name)]
                if cal.adt and not cal.virtual:
                    narrowed = [g for g in cands if g.adt == cal.adt]
                    if narrowed:
                        cands = narrowed
                for g in cands:
                    self._edge(f, g, bi, line)
            # closure invoked through Fn* traits
            if cal.closure and cal.closure in facts.fns:
                self._edge(f, facts.fns[cal.closure], bi, line)
            # callback holes: foreign generic instantiated with local types
            if not cal.local:
                for tix in cal.substs:
                    ty = facts.types[tix]
                    # (a closure's captured values are opaque to the foreign generic: only the closure
                    # body itself can call into their impls, and that body is an edge of its own)
                    for adt in (ty.get("adts", []) if ty.get("k") != "closure" else []):
                        for g in self.adt_callbacks.get(adt, []):
                            self._edge(f, g, bi, line)
                    if ty.get("k") == "closure" and ty.get("def") in facts.fns:
                        self._edge(f, facts.fns[ty["def"]], bi, line)
                    if ty.get("k") == "fndef" and ty.get("def") in facts.fns:
                        self._edge(f, facts.fns[ty["def"]], bi, line)
        # functions whose address is taken (reified) are edges too
        for bi, si, st in f.assigns():
            for op in _rvalue_operands(st["r"]):
                k = op.get("k")
                if k and "fn" in k:
                    cal = Callee(k["fn"])
                    if cal.local and cal.path in facts.fns:
                        self._edge(f, facts.fns[cal.path])

    def reachable(self, roots):
        seen = set()
        dq = deque()
        for r in roots:
            p = r.path if isinstance(r, Fn) else r
            if p not in seen:
                seen.add(p)
                dq.append(p)
        while dq:
            x = dq.popleft()
            for y in self.edges.get(x, ()):
                if y not in seen:
                    seen.add(y)
                    dq.append(y)
        return seen

    def sccs(self, nodes=None):
        """Tarjan SCCs (iterative). Returns list of lists of fn paths; only non-trivial ones
        (size > 1 or self loop)."""
        nodes = list(nodes if nodes is not None else self.facts.fns.keys())
        nodeset = set(nodes)
        index = {}
        low = {}
        onstack = set()
        stack = []
        out = []
        counter = [0]
        for root in nodes:
            if root in index:
                continue
            work = [(root, iter(sorted(self.edges.get(root, ()))))]
            index[root] = low[root] = counter[0]
            counter[0] += 1
            stack.append(root)
            onstack.add(root)
            while work:
                v, it = work[-1]
                advanced = False
                for w in it:
                    if w not in nodeset:
                        continue
                    if w not in index:
                        index[w] = low[w] = counter[0]
                        counter[0] += 1
                        stack.append(w)
                        onstack.add(w)
                        work.append((w, iter(sorted(self.edges.get(w, ())))))
                        advanced = True
                        break
                    elif w in onstack:
                        low[v] = min(low[v], index[w])
                if advanced:
                    continue
                work.pop()
                if work:
                    u = work[-1][0]
                    low[u] = min(low[u], low[v])
                if low[v] == index[v]:
                    comp = []
                    while True:
                        w = stack.pop()
                        onstack.discard(w)
                        comp.append(w)
                        if w == v:
                            break
                    if len(comp) > 1 or v in self.edges.get(v, ()):
                        out.append(sorted(comp))
        return out


def _rvalue_operands(r):
    k = r["k"]
    if k in ("use", "cast", "repeat"):
        return [r["o"]]
    if k == "bin":
        return [r["a"], r["b"]]
    if k == "un":
        return [r["a"]]
    if k == "agg":
        return r["fields"]
    return []


def rvalue_operands(r):
    return _rvalue_operands(r)
