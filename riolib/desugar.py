"""Iterator-chain desugaring (on the fact JSON, before any rule runs).

A chain `src.map(f).filter(g).collect()` / `.any(p)` / `.all(p)` / `.for_each(f)` / `.fold(i, f)` /
`target.extend(src.map(f))` whose closures call *local* functions is control flow of the crate written
with std combinators: the same code as a `for` loop with the closure bodies in it.  Path-sensitive
rules read loops; so such a chain is rewritten into the explicit loop (`Iterator::next` + switch on the
Option discriminant, exactly the shape rustc gives a `for` loop) with the closure bodies inlined.

Chains whose closures only compute on their arguments with foreign functions (`any(|v| *v == code)`,
`map(|h| h.value.as_str())`) stay calls: rules treat them as atomic predicates / values.

Unsupported adaptors (rev, enumerate, skip, zip, ...) are left as calls and become part of the loop's
source expression.  If anything about a chain is not understood the chain is left untouched.
"""
import copy

from .inline import inline_call

ADAPTORS = {"map", "filter", "filter_map", "flat_map", "cloned", "copied", "inspect"}
CONSUMERS = {"collect", "any", "all", "find", "find_map", "for_each", "fold", "extend"}
ITER_TRAITS = ("std::iter::Iterator", "std::iter::Extend")
MAX_BLOCKS = 2500


def _is_iter_call(t, names):
    if t["k"] != "call" or "f" not in t:
        return False
    f = t["f"]
    if f.get("local"):
        return False
    if f.get("name") not in names:
        return False
    tr = f.get("trait") or (f.get("res") or {}).get("trait")
    return tr in ITER_TRAITS


class _Ctx:
    def __init__(self, d, f):
        self.d = d
        self.f = f
        self.bool_ty = next((i for i, t in enumerate(d["types"]) if t.get("k") == "bool"), None)
        self.unit_ty = next((i for i, t in enumerate(d["types"]) if t.get("s") == "()"), None)
        self.syn_ty = next((i for i, t in enumerate(d["types"]) if t.get("s") == "<desugared>"), None)
        if self.syn_ty is None:
            d["types"].append({"s": "<desugared>", "k": "other", "adts": []})
            self.syn_ty = len(d["types"]) - 1

    def local(self, ty=None, name=None):
        self.f["locals"].append([self.syn_ty if ty is None else ty, name, False, True])
        return len(self.f["locals"]) - 1

    def block(self, st=None, term=None):
        self.f["blocks"].append({"cleanup": False, "st": st or [], "term": term or {"k": "unreachable"}, "desugared": True})
        return len(self.f["blocks"]) - 1


def _closure_of(d, fn_by_path, f, operand):
    """(closure fn record, local holding the closure aggregate) for a call argument, or (None, None)."""
    if "m" not in operand and "c" not in operand:
        return None, None
    l, projs = operand.get("m") or operand.get("c")
    if projs:
        return None, None
    ty = d["types"][f["locals"][l][0]]
    if ty.get("k") != "closure":
        return None, None
    c = fn_by_path.get(ty.get("def"))
    return c, l


def _calls_local(c, fn_by_path, children, depth=0):
    for b in c["blocks"]:
        t = b["term"]
        if t["k"] == "call" and "f" in t and (t["f"].get("local") or (t["f"].get("res") or {}).get("local")):
            return True
    if depth < 4:
        for cc in children.get(c["path"], ()):
            if _calls_local(cc, fn_by_path, children, depth + 1):
                return True
    return False


def _def_block(f, l):
    """Index of the unique non-cleanup block whose call terminator defines local `l` (plain dest)."""
    hits = [i for i, b in enumerate(f["blocks"]) if not b["cleanup"] and b["term"]["k"] == "call" and b["term"]["dest"] == [l, []]]
    # also reject locals assigned by statements
    for b in f["blocks"]:
        for st in b["st"]:
            if st["k"] == "A" and st["p"][0] == l:
                return None
    return hits[0] if len(hits) == 1 else None


def _follow_moves(f, l, depth=0):
    """l, or the local it was moved from when its only definition is `l = move m`."""
    if l is None or depth > 4:
        return l
    defs = [st for b in f["blocks"] for st in b["st"] if st["k"] == "A" and st["p"][0] == l]
    calls = [b for b in f["blocks"] if b["term"]["k"] == "call" and b["term"]["dest"][0] == l]
    if len(defs) == 1 and not calls and not defs[0]["p"][1] and defs[0]["r"]["k"] == "use":
        m = _plain_local(defs[0]["r"]["o"])
        if m is not None and "m" in defs[0]["r"]["o"]:
            return _follow_moves(f, m, depth + 1)
    return l


def _plain_local(op):
    p = op.get("m") or op.get("c")
    if p is None or p[1]:
        return None
    return p[0]


def _next_callee(d, line, ty=None):
    s_ = d["types"][ty].get("s", "<desugared>") if ty is not None else "<desugared>"
    a_ = (d["types"][ty].get("adt") or "<desugared>") if ty is not None else "<desugared>"
    return {"path": "std::iter::Iterator::next", "name": "next", "local": False, "krate": "core", "trait": "std::iter::Iterator", "trait_impl": False,
            "self_ty": s_, "adt": a_, "substs": [],
            "res": {"path": "<%s as std::iter::Iterator>::next" % s_, "name": "next", "local": False, "krate": "core", "self_ty": s_, "adt": a_, "trait": "std::iter::Iterator", "trait_impl": True, "inst": "item"}}


def _into_iter_callee():
    return {"path": "std::iter::IntoIterator::into_iter", "name": "into_iter", "local": False, "krate": "core", "trait": "std::iter::IntoIterator", "trait_impl": False,
            "self_ty": "<desugared>", "adt": "<desugared>", "substs": []}


def _push_callee():
    return {"path": "std::vec::Vec::<T>::push", "name": "push", "local": False, "krate": "alloc", "self_ty": "std::vec::Vec<T>", "adt": "std::vec::Vec", "substs": []}


def _new_vec_callee():
    return {"path": "std::vec::Vec::<T>::new", "name": "new", "local": False, "krate": "alloc", "self_ty": "std::vec::Vec<T>", "adt": "std::vec::Vec", "substs": []}


def desugar_chain(cx, fn_by_path, ci, stages, line):
    """stages: list of (block index, name, call terminator) from the first supported adaptor to the
    consumer (last).  Rewrites cx.f in place.  Returns the list of closure paths inlined."""
    d, f = cx.d, cx.f
    span = [line, "d:ForLoop", "d:ForLoop"]
    cons_bi, cons_name, cons = stages[-1]
    first_bi, first_name, first = stages[0]
    # the source iterator value
    if cons_name == "extend":
        it_op = cons["args"][1] if len(stages) == 1 else first["args"][0]
    else:
        it_op = first["args"][0]
    it_local = _plain_local(it_op)
    IT = cx.local(f["locals"][it_local][0] if it_local is not None else None, name="iter")
    inlined = []
    pending_inline = []  # (block index of a synthetic closure call, closure record)

    def closure_call(cl_op, args, dest, nxt):
        """block calling closure `cl_op` (operand of the closure aggregate) with `args` (operands)"""
        return _closure_call_block(cx, fn_by_path, cl_op, args, dest, nxt, line, pending_inline)

    dest = cons["dest"]
    after = cons.get("t")
    # result / accumulator
    RES = None
    init = []
    EXIT = cx.block()
    if cons_name in ("any", "all"):
        RES = cx.local(cx.bool_ty, name="found" if cons_name == "any" else "all_hold")
        init.append({"k": "A", "p": [RES, []], "r": {"k": "use", "o": {"k": {"ty": cx.bool_ty, "bool": cons_name == "all"}}}, "s": line})
    elif cons_name in ("find", "find_map"):
        RES = cx.local()
        init.append({"k": "A", "p": [RES, []], "r": {"k": "agg", "agg": "adt", "adt": "std::option::Option", "variant": "None", "vidx": 0, "names": [], "fields": []}, "s": line})
    elif cons_name == "fold":
        RES = cx.local(name="acc")
        init.append({"k": "A", "p": [RES, []], "r": {"k": "use", "o": cons["args"][1]}, "s": line})
    elif cons_name == "collect":
        RES = cx.local(f["locals"][dest[0]][0] if not dest[1] else None, name="collected")
    f["blocks"][EXIT]["st"] = ([{"k": "A", "p": dest, "r": {"k": "use", "o": {"m": [RES, []]}}, "s": line}] if RES is not None else
                               [{"k": "A", "p": dest, "r": {"k": "use", "o": {"k": {"ty": cx.unit_ty if cx.unit_ty is not None else cx.syn_ty, "zst": True}}}, "s": line}])
    f["blocks"][EXIT]["term"] = {"k": "goto", "t": after} if after is not None else {"k": "unreachable"}

    # loop head
    HEAD = cx.block()
    NX = cx.local()
    R1 = cx.local()
    SW = cx.block()
    UNREACH = cx.block([], {"k": "unreachable"})
    BODY = cx.block()
    f["blocks"][HEAD]["st"] = [{"k": "A", "p": [R1, []], "r": {"k": "ref", "mut": True, "p": [IT, []]}, "s": span}]
    f["blocks"][HEAD]["term"] = {"k": "call", "f": _next_callee(d, line, f["locals"][it_local][0] if it_local is not None else None), "args": [{"m": [R1, []]}], "dest": [NX, []], "t": SW, "u": None, "s": span, "fs": span}
    D = cx.local()
    f["blocks"][SW]["st"] = [{"k": "A", "p": [D, []], "r": {"k": "disc", "p": [NX, []], "adt": "std::option::Option"}, "s": span}]
    f["blocks"][SW]["term"] = {"k": "switch", "d": {"m": [D, []]}, "vals": [0, 1], "tgts": [EXIT, BODY], "otherwise": UNREACH, "s": span}
    X = cx.local(name=None)
    f["blocks"][BODY]["st"] = [{"k": "A", "p": [X, []], "r": {"k": "use", "o": {"c": [NX, [["d", "Some", 1], ["f", 0, "0", "std::option::Option", "Some"]]]}}, "s": line}]
    cur = BODY       # block whose terminator is still to be set (goto next stage)
    cont = HEAD      # where `continue` goes (innermost loop head)

    def link(frm, to):
        f["blocks"][frm]["term"] = {"k": "goto", "t": to}

    for bi, name, t in stages[:-1] if cons_name != "extend" or len(stages) > 1 else []:
        if name in ("cloned", "copied", "inspect"):
            continue
        if name == "map":
            Y = cx.local()
            nb = cx.block()
            cb = closure_call(t["args"][1], [{"m": [X, []]}], Y, nb)
            link(cur, cb)
            cur, X = nb, Y
        elif name == "filter":
            XR = cx.local()
            B = cx.local(cx.bool_ty)
            swb = cx.block()
            nb = cx.block()
            cb = closure_call(t["args"][1], [{"m": [XR, []]}], B, swb)
            f["blocks"][cb]["st"].insert(0, {"k": "A", "p": [XR, []], "r": {"k": "ref", "mut": False, "p": [X, []]}, "s": line})
            f["blocks"][swb]["term"] = {"k": "switch", "d": {"m": [B, []]}, "vals": [0], "tgts": [cont], "otherwise": nb, "s": line}
            link(cur, cb)
            cur = nb
        elif name == "filter_map":
            O = cx.local()
            D2 = cx.local()
            swb = cx.block()
            nb = cx.block()
            Y = cx.local()
            cb = closure_call(t["args"][1], [{"m": [X, []]}], O, swb)
            f["blocks"][swb]["st"] = [{"k": "A", "p": [D2, []], "r": {"k": "disc", "p": [O, []], "adt": "std::option::Option"}, "s": line}]
            f["blocks"][swb]["term"] = {"k": "switch", "d": {"m": [D2, []]}, "vals": [0, 1], "tgts": [cont, nb], "otherwise": UNREACH, "s": line}
            f["blocks"][nb]["st"] = [{"k": "A", "p": [Y, []], "r": {"k": "use", "o": {"c": [O, [["d", "Some", 1], ["f", 0, "0", "std::option::Option", "Some"]]]}}, "s": line}]
            link(cur, cb)
            cur, X = nb, Y
        elif name == "flat_map":
            INNER = cx.local()
            IT2 = cx.local(name="iter")
            R2 = cx.local()
            NX2 = cx.local()
            D2 = cx.local()
            Y = cx.local()
            ib = cx.block()
            head2 = cx.block()
            sw2 = cx.block()
            body2 = cx.block()
            cb = closure_call(t["args"][1], [{"m": [X, []]}], INNER, ib)
            f["blocks"][ib]["term"] = {"k": "call", "f": _into_iter_callee(), "args": [{"m": [INNER, []]}], "dest": [IT2, []], "t": head2, "u": None, "s": span, "fs": span}
            f["blocks"][head2]["st"] = [{"k": "A", "p": [R2, []], "r": {"k": "ref", "mut": True, "p": [IT2, []]}, "s": span}]
            f["blocks"][head2]["term"] = {"k": "call", "f": _next_callee(d, line), "args": [{"m": [R2, []]}], "dest": [NX2, []], "t": sw2, "u": None, "s": span, "fs": span}
            f["blocks"][sw2]["st"] = [{"k": "A", "p": [D2, []], "r": {"k": "disc", "p": [NX2, []], "adt": "std::option::Option"}, "s": span}]
            f["blocks"][sw2]["term"] = {"k": "switch", "d": {"m": [D2, []]}, "vals": [0, 1], "tgts": [cont, body2], "otherwise": UNREACH, "s": span}
            f["blocks"][body2]["st"] = [{"k": "A", "p": [Y, []], "r": {"k": "use", "o": {"c": [NX2, [["d", "Some", 1], ["f", 0, "0", "std::option::Option", "Some"]]]}}, "s": line}]
            link(cur, cb)
            cur, X, cont = body2, Y, head2
        else:
            raise ValueError("unsupported adaptor " + name)

    # consumer step
    if cons_name in ("collect", "extend"):
        U = cx.local(cx.unit_ty)
        if cons_name == "collect":
            AR = cx.local()
            st = [{"k": "A", "p": [AR, []], "r": {"k": "ref", "mut": True, "p": [RES, []]}, "s": line}]
            target = {"m": [AR, []]}
        else:
            st = []
            target = cons["args"][0]
        pb = cx.block(st, {"k": "call", "f": _push_callee(), "args": [target, {"m": [X, []]}], "dest": [U, []], "t": cont, "u": None, "s": line, "fs": line})
        link(cur, pb)
    elif cons_name in ("any", "all"):
        B = cx.local(cx.bool_ty)
        swb = cx.block()
        hit = cx.block([{"k": "A", "p": [RES, []], "r": {"k": "use", "o": {"k": {"ty": cx.bool_ty, "bool": cons_name == "any"}}}, "s": line}], {"k": "goto", "t": EXIT})
        cb = closure_call(cons["args"][1], [{"m": [X, []]}], B, swb)
        if cons_name == "any":
            f["blocks"][swb]["term"] = {"k": "switch", "d": {"m": [B, []]}, "vals": [0], "tgts": [cont], "otherwise": hit, "s": line}
        else:
            f["blocks"][swb]["term"] = {"k": "switch", "d": {"m": [B, []]}, "vals": [0], "tgts": [hit], "otherwise": cont, "s": line}
        link(cur, cb)
    elif cons_name == "find":
        XR = cx.local()
        B = cx.local(cx.bool_ty)
        swb = cx.block()
        hit = cx.block([{"k": "A", "p": [RES, []], "r": {"k": "agg", "agg": "adt", "adt": "std::option::Option", "variant": "Some", "vidx": 1, "names": ["0"], "fields": [{"m": [X, []]}]}, "s": line}], {"k": "goto", "t": EXIT})
        cb = closure_call(cons["args"][1], [{"m": [XR, []]}], B, swb)
        f["blocks"][cb]["st"].insert(0, {"k": "A", "p": [XR, []], "r": {"k": "ref", "mut": False, "p": [X, []]}, "s": line})
        f["blocks"][swb]["term"] = {"k": "switch", "d": {"m": [B, []]}, "vals": [0], "tgts": [cont], "otherwise": hit, "s": line}
        link(cur, cb)
    elif cons_name == "find_map":
        O = cx.local()
        D2 = cx.local()
        swb = cx.block()
        hit = cx.block([{"k": "A", "p": [RES, []], "r": {"k": "use", "o": {"m": [O, []]}}, "s": line}], {"k": "goto", "t": EXIT})
        cb = closure_call(cons["args"][1], [{"m": [X, []]}], O, swb)
        f["blocks"][swb]["st"] = [{"k": "A", "p": [D2, []], "r": {"k": "disc", "p": [O, []], "adt": "std::option::Option"}, "s": line}]
        f["blocks"][swb]["term"] = {"k": "switch", "d": {"m": [D2, []]}, "vals": [0, 1], "tgts": [cont, hit], "otherwise": UNREACH, "s": line}
        link(cur, cb)
    elif cons_name == "for_each":
        U = cx.local(cx.unit_ty)
        cb = closure_call(cons["args"][1], [{"m": [X, []]}], U, cont)
        link(cur, cb)
    elif cons_name == "fold":
        A2 = cx.local()
        nb = cx.block([{"k": "A", "p": [RES, []], "r": {"k": "use", "o": {"m": [A2, []]}}, "s": line}], {"k": "goto", "t": cont})
        cb = closure_call(cons["args"][2], [{"m": [RES, []]}, {"m": [X, []]}], A2, nb)
        link(cur, cb)
    else:
        raise ValueError("unsupported consumer " + cons_name)

    # entry: the adaptor calls disappear, the consumer call becomes the loop entry
    for bi, name, t in stages[:-1]:
        f["blocks"][bi]["term"] = {"k": "goto", "t": t["t"]}
    pre = f["blocks"][cons_bi]
    pre["st"] = pre["st"] + [{"k": "A", "p": [IT, []], "r": {"k": "use", "o": it_op}, "s": span}] + init
    if cons_name == "collect":
        nv = cx.block([], {"k": "call", "f": _new_vec_callee(), "args": [], "dest": [RES, []], "t": HEAD, "u": None, "s": line, "fs": line})
        pre["term"] = {"k": "goto", "t": nv}
    else:
        pre["term"] = {"k": "goto", "t": HEAD}
    # inline the closure bodies
    for bi, c in pending_inline:
        inline_call(f, bi, copy.deepcopy(c))
        inlined.append(c["path"])
    return inlined


def find_chains(d, f, fn_by_path, children, force=False):
    """Chains to desugar in f: list of (stages, line)."""
    out = []
    used = set()
    for ci, b in enumerate(f["blocks"]):
        if b["cleanup"] or b.get("desugared") or b.get("inl_desugared"):
            continue
        t = b["term"]
        if not _is_iter_call(t, CONSUMERS):
            continue
        name = t["f"]["name"]
        if name == "extend" and len(t["args"]) != 2:
            continue
        stages = [(ci, name, t)]
        # walk back through the adaptors feeding the consumer
        op = t["args"][1] if name == "extend" else t["args"][0]
        ok = True
        while True:
            l = _follow_moves(f, _plain_local(op))
            if l is None:
                break
            db = _def_block(f, l)
            if db is None or db in used:
                break
            dt = f["blocks"][db]["term"]
            if not _is_iter_call(dt, ADAPTORS) or (dt["f"].get("trait") or (dt["f"].get("res") or {}).get("trait")) != "std::iter::Iterator":
                break
            # straight-line: the adaptor's successor chain must lead to the next stage without branching
            stages.insert(0, (db, dt["f"]["name"], dt))
            op = dt["args"][0]
        # every stage must follow the previous one on a straight line of gotos/calls
        for (b1, _, t1), (b2, _, _) in zip(stages, stages[1:]):
            x = t1.get("t")
            hops = 0
            while x is not None and x != b2 and hops < 6:
                tx = f["blocks"][x]["term"]
                x = tx.get("t") if tx["k"] in ("goto", "call", "drop") and not _is_iter_call(tx, ADAPTORS | CONSUMERS) else None
                hops += 1
            if x != b2:
                ok = False
        if not ok:
            continue
        # closures of the chain
        cl_ops = []
        for bi, nm, tt in stages:
            if nm in ("map", "filter", "filter_map", "flat_map", "any", "all", "find", "find_map", "for_each"):
                cl_ops.append(tt["args"][1])
            elif nm == "fold":
                cl_ops.append(tt["args"][2])
        cls = [_closure_of(d, fn_by_path, f, o)[0] for o in cl_ops]
        fn_items = [_fn_item_of(d, fn_by_path, f, o) if c is None else None for c, o in zip(cls, cl_ops)]
        if any(c is None and g is None for c, g in zip(cls, fn_items)) or not cls:
            continue
        has_fn_item = any(g is not None for g in fn_items)
        cls = [c for c in cls if c is not None]
        if name == "collect":
            dty = d["types"][f["locals"][t["dest"][0]][0]].get("s", "") if not t["dest"][1] else ""
            if not dty.startswith("std::vec::Vec<"):
                continue  # collecting into maps / strings / Option<Vec> is not a plain push loop
        if name == "extend":
            tty = f["locals"][_plain_local(t["args"][0])][0] if _plain_local(t["args"][0]) is not None else None
            if tty is None or "std::vec::Vec<" not in d["types"][tty].get("s", ""):
                continue
            if len(stages) == 1:
                continue  # extend(plain iterable): nothing to desugar
        # the source iterator (what feeds the first stage)
        first_t = stages[0][2]
        src_op = (t["args"][1] if len(stages) == 1 else first_t["args"][0]) if name == "extend" else first_t["args"][0]
        sl = _plain_local(src_op)
        src_adt = d["types"][f["locals"][sl][0]].get("adt", "") if sl is not None else ""
        hash_src = src_adt.startswith("std::collections::hash_map::") or src_adt.startswith("std::collections::hash_set::")
        if not force and not has_fn_item and not any(_calls_local(c, fn_by_path, children) for c in cls) and not (hash_src and name in ("collect", "extend", "for_each", "fold")):
            continue  # pure combinator use: stays an atomic call (unless it turns hash order into a sequence)
        for bi, _, _ in stages:
            used.add(bi)
        ln = t.get("s")
        ln = ln if isinstance(ln, int) else (ln[0] if ln else 0)
        out.append((stages, ln))
    return out


def _fn_item_of(d, fn_by_path, f, operand):
    """fact record of the local function named by a zero-sized fn-item operand, or None."""
    ty = None
    if isinstance(operand.get("k"), dict):
        ty = operand["k"].get("ty")
    else:
        p = operand.get("m") or operand.get("c")
        if p is not None and not p[1]:
            ty = f["locals"][p[0]][0]
    if ty is None or d["types"][ty].get("k") != "fndef":
        return None
    g = fn_by_path.get(d["types"][ty].get("def"))
    return g if g is not None and g.get("local", True) and g.get("blocks") else None


def _closure_call_block(cx, fn_by_path, cl_op, args, dest, nxt, line, pending):
    d, f = cx.d, cx.f
    c, cl_local = _closure_of(d, fn_by_path, f, cl_op)
    if c is None:
        # a function item passed by name (`filter_map(create_header_action)`): call it directly
        fd = _fn_item_of(d, fn_by_path, f, cl_op)
        if fd is None:
            raise ValueError("adaptor argument is not a closure")
        if len(args) != fd["argc"]:
            raise ValueError("fn item arity")
        callee = {"path": fd["path"], "name": fd["name"], "local": True, "krate": fd.get("krate"), "substs": []}
        for k in ("adt", "self_ty", "trait"):
            if fd.get(k):
                callee[k] = fd[k]
        return cx.block([], {"k": "call", "f": callee, "args": list(args), "dest": [dest, []], "t": nxt, "u": None, "s": line, "fs": line})
    CR = cx.local()
    by_ref = d["types"][c["locals"][1][0]].get("k") == "ref" if len(c["locals"]) > 1 else True
    if by_ref:
        st = [{"k": "A", "p": [CR, []], "r": {"k": "ref", "mut": True, "p": [cl_local, []]}, "s": line}]
    else:  # FnOnce: the closure is passed by value
        st = [{"k": "A", "p": [CR, []], "r": {"k": "use", "o": {"m": [cl_local, []]}}, "s": line}]
    term = {"k": "call", "f": {"path": c["path"], "name": c["name"], "local": True, "krate": c.get("krate"), "substs": [], "closure": c["path"]},
            "args": [{"m": [CR, []]}] + args, "dest": [dest, []], "t": nxt, "u": None, "s": line, "fs": line}
    if len(term["args"]) != c["argc"]:
        raise ValueError("closure arity")
    bi = cx.block(st, term)
    pending.append((bi, c))
    return bi


OPTION_COMBINATORS = {"is_none_or", "is_some_and", "map_or", "map_or_else", "map", "and_then", "unwrap_or_else", "filter", "or_else"}


def _is_option_call(t):
    if t["k"] != "call" or "f" not in t:
        return False
    f = t["f"]
    return (not f.get("local")) and f.get("adt") == "std::option::Option" and f.get("name") in OPTION_COMBINATORS


def desugar_option_call(cx, fn_by_path, bi, line):
    """`o.map_or(d, f)`, `o.is_none_or(p)`, `o.and_then(f)` ... as the `match o { None => .., Some(x) => .. }`
    it abbreviates, with the closure bodies inlined."""
    d, f = cx.d, cx.f
    t = f["blocks"][bi]["term"]
    name = t["f"]["name"]
    args = t["args"]
    o = _plain_local(args[0])
    if o is None or "m" not in args[0]:
        raise ValueError("receiver is not a moved local")
    dest, after = t["dest"], t.get("t")
    if after is None:
        raise ValueError("diverging call")
    pending = []
    D = cx.local()
    NONE_B = cx.block()
    SOME_B = cx.block()
    UNREACH = cx.block([], {"k": "unreachable"})
    X = cx.local()
    some_payload = {"k": "use", "o": {"m": [o, [["d", "Some", 1], ["f", 0, "0", "std::option::Option", "Some"]]]}}
    f["blocks"][SOME_B]["st"] = [{"k": "A", "p": [X, []], "r": some_payload, "s": line}]

    def const_bool(v):
        return {"k": "use", "o": {"k": {"ty": cx.bool_ty, "bool": v}}}

    def none_agg():
        return {"k": "agg", "agg": "adt", "adt": "std::option::Option", "variant": "None", "vidx": 0, "names": [], "fields": []}

    def some_agg(l):
        return {"k": "agg", "agg": "adt", "adt": "std::option::Option", "variant": "Some", "vidx": 1, "names": ["0"], "fields": [{"m": [l, []]}]}

    def goto(b, to):
        f["blocks"][b]["term"] = {"k": "goto", "t": to}

    def assign(b, rv):
        f["blocks"][b]["st"].append({"k": "A", "p": dest, "r": rv, "s": line})

    if name in ("is_none_or", "is_some_and"):
        assign(NONE_B, const_bool(name == "is_none_or"))
        goto(NONE_B, after)
        R = cx.local(cx.bool_ty)
        fin = cx.block([{"k": "A", "p": dest, "r": {"k": "use", "o": {"m": [R, []]}}, "s": line}], {"k": "goto", "t": after})
        cb = _closure_call_block(cx, fn_by_path, args[1], [{"m": [X, []]}], R, fin, line, pending)
        goto(SOME_B, cb)
    elif name == "map_or":
        assign(NONE_B, {"k": "use", "o": args[1]})
        goto(NONE_B, after)
        R = cx.local()
        fin = cx.block([{"k": "A", "p": dest, "r": {"k": "use", "o": {"m": [R, []]}}, "s": line}], {"k": "goto", "t": after})
        cb = _closure_call_block(cx, fn_by_path, args[2], [{"m": [X, []]}], R, fin, line, pending)
        goto(SOME_B, cb)
    elif name == "map_or_else":
        R0 = cx.local()
        fin0 = cx.block([{"k": "A", "p": dest, "r": {"k": "use", "o": {"m": [R0, []]}}, "s": line}], {"k": "goto", "t": after})
        cb0 = _closure_call_block(cx, fn_by_path, args[1], [], R0, fin0, line, pending)
        goto(NONE_B, cb0)
        R = cx.local()
        fin = cx.block([{"k": "A", "p": dest, "r": {"k": "use", "o": {"m": [R, []]}}, "s": line}], {"k": "goto", "t": after})
        cb = _closure_call_block(cx, fn_by_path, args[2], [{"m": [X, []]}], R, fin, line, pending)
        goto(SOME_B, cb)
    elif name == "map":
        assign(NONE_B, none_agg())
        goto(NONE_B, after)
        R = cx.local()
        fin = cx.block([{"k": "A", "p": dest, "r": some_agg(R), "s": line}], {"k": "goto", "t": after})
        cb = _closure_call_block(cx, fn_by_path, args[1], [{"m": [X, []]}], R, fin, line, pending)
        goto(SOME_B, cb)
    elif name == "and_then":
        assign(NONE_B, none_agg())
        goto(NONE_B, after)
        R = cx.local()
        fin = cx.block([{"k": "A", "p": dest, "r": {"k": "use", "o": {"m": [R, []]}}, "s": line}], {"k": "goto", "t": after})
        cb = _closure_call_block(cx, fn_by_path, args[1], [{"m": [X, []]}], R, fin, line, pending)
        goto(SOME_B, cb)
    elif name == "unwrap_or_else":
        R0 = cx.local()
        fin0 = cx.block([{"k": "A", "p": dest, "r": {"k": "use", "o": {"m": [R0, []]}}, "s": line}], {"k": "goto", "t": after})
        cb0 = _closure_call_block(cx, fn_by_path, args[1], [], R0, fin0, line, pending)
        goto(NONE_B, cb0)
        assign(SOME_B, {"k": "use", "o": {"m": [X, []]}})
        goto(SOME_B, after)
    elif name == "or_else":
        R0 = cx.local()
        fin0 = cx.block([{"k": "A", "p": dest, "r": {"k": "use", "o": {"m": [R0, []]}}, "s": line}], {"k": "goto", "t": after})
        cb0 = _closure_call_block(cx, fn_by_path, args[1], [], R0, fin0, line, pending)
        goto(NONE_B, cb0)
        assign(SOME_B, some_agg(X))
        goto(SOME_B, after)
    elif name == "filter":
        assign(NONE_B, none_agg())
        goto(NONE_B, after)
        XR = cx.local()
        B = cx.local(cx.bool_ty)
        swb = cx.block()
        keep = cx.block([{"k": "A", "p": dest, "r": some_agg(X), "s": line}], {"k": "goto", "t": after})
        drop_ = cx.block([{"k": "A", "p": dest, "r": none_agg(), "s": line}], {"k": "goto", "t": after})
        cb = _closure_call_block(cx, fn_by_path, args[1], [{"m": [XR, []]}], B, swb, line, pending)
        f["blocks"][cb]["st"].insert(0, {"k": "A", "p": [XR, []], "r": {"k": "ref", "mut": False, "p": [X, []]}, "s": line})
        f["blocks"][swb]["term"] = {"k": "switch", "d": {"m": [B, []]}, "vals": [0], "tgts": [drop_], "otherwise": keep, "s": line}
        goto(SOME_B, cb)
    else:
        raise ValueError("unsupported combinator " + name)
    blk = f["blocks"][bi]
    blk["st"] = blk["st"] + [{"k": "A", "p": [D, []], "r": {"k": "disc", "p": [o, []], "adt": "std::option::Option"}, "s": line}]
    blk["term"] = {"k": "switch", "d": {"m": [D, []]}, "vals": [0, 1], "tgts": [NONE_B, SOME_B], "otherwise": UNREACH, "s": line}
    inlined = []
    for b2, c in pending:
        inline_call(f, b2, copy.deepcopy(c))
        inlined.append(c["path"])
    return inlined


def find_option_calls(d, f, fn_by_path, children, force=False):
    out = []
    for bi, b in enumerate(f["blocks"]):
        t = b["term"]
        if b["cleanup"] or b.get("opt_desugared") or not _is_option_call(t):
            continue
        name = t["f"]["name"]
        cl_ops = [a for a in t["args"][1:]]
        cls = [_closure_of(d, fn_by_path, f, o)[0] for o in cl_ops]
        want = {"is_none_or": [0], "is_some_and": [0], "map_or": [1], "map_or_else": [0, 1], "map": [0], "and_then": [0], "unwrap_or_else": [0], "filter": [0], "or_else": [0]}[name]
        if len(cls) <= max(want) or any(cls[i] is None for i in want):
            continue  # a function item or another callable, not a closure
        used = [cls[i] for i in want]
        if not force and not any(_calls_local(c, fn_by_path, children) for c in used):
            continue
        ln = t.get("s")
        out.append((bi, ln if isinstance(ln, int) else (ln[0] if ln else 0)))
    return out


def desugar_loop_source(cx, fn_by_path, ib, stages, nb, line):
    """`for x in src.filter(p).map(f) { .. }`: iterate `src` and run the stages at the top of the body.
    ib: block of the into_iter call; stages: adaptor calls feeding it; nb: block of the loop's next() call."""
    d, f = cx.d, cx.f
    nxt = f["blocks"][nb]["term"]
    NX = nxt["dest"][0]
    sw = f["blocks"][nxt["t"]]["term"]
    if sw["k"] != "switch" or 1 not in sw["vals"]:
        raise ValueError("loop switch not recognised")
    body = sw["tgts"][sw["vals"].index(1)]
    pending = []
    S0 = cx.block()
    X = cx.local()
    f["blocks"][S0]["st"] = [{"k": "A", "p": [X, []], "r": {"k": "use", "o": {"c": [NX, [["d", "Some", 1], ["f", 0, "0", "std::option::Option", "Some"]]]}}, "s": line}]
    cur = S0
    UNREACH = cx.block([], {"k": "unreachable"})
    for bi, name, t in stages:
        if name in ("cloned", "copied", "inspect"):
            continue
        if name == "map":
            Y = cx.local()
            n2 = cx.block()
            cb = _closure_call_block(cx, fn_by_path, t["args"][1], [{"m": [X, []]}], Y, n2, line, pending)
            f["blocks"][cur]["term"] = {"k": "goto", "t": cb}
            cur, X = n2, Y
        elif name == "filter":
            XR = cx.local()
            B = cx.local(cx.bool_ty)
            swb = cx.block()
            n2 = cx.block()
            cb = _closure_call_block(cx, fn_by_path, t["args"][1], [{"m": [XR, []]}], B, swb, line, pending)
            f["blocks"][cb]["st"].insert(0, {"k": "A", "p": [XR, []], "r": {"k": "ref", "mut": False, "p": [X, []]}, "s": line})
            f["blocks"][swb]["term"] = {"k": "switch", "d": {"m": [B, []]}, "vals": [0], "tgts": [nb], "otherwise": n2, "s": line}
            f["blocks"][cur]["term"] = {"k": "goto", "t": cb}
            cur = n2
        elif name == "filter_map":
            O = cx.local()
            D2 = cx.local()
            swb = cx.block()
            n2 = cx.block()
            Y = cx.local()
            cb = _closure_call_block(cx, fn_by_path, t["args"][1], [{"m": [X, []]}], O, swb, line, pending)
            f["blocks"][swb]["st"] = [{"k": "A", "p": [D2, []], "r": {"k": "disc", "p": [O, []], "adt": "std::option::Option"}, "s": line}]
            f["blocks"][swb]["term"] = {"k": "switch", "d": {"m": [D2, []]}, "vals": [0, 1], "tgts": [nb, n2], "otherwise": UNREACH, "s": line}
            f["blocks"][n2]["st"] = [{"k": "A", "p": [Y, []], "r": {"k": "use", "o": {"c": [O, [["d", "Some", 1], ["f", 0, "0", "std::option::Option", "Some"]]]}}, "s": line}]
            f["blocks"][cur]["term"] = {"k": "goto", "t": cb}
            cur, X = n2, Y
        else:
            raise ValueError("unsupported adaptor " + name)
    f["blocks"][cur]["st"].append({"k": "A", "p": [NX, []], "r": {"k": "agg", "agg": "adt", "adt": "std::option::Option", "variant": "Some", "vidx": 1, "names": ["0"], "fields": [{"m": [X, []]}]}, "s": line})
    f["blocks"][cur]["term"] = {"k": "goto", "t": body}
    # rewire
    sw["tgts"][sw["vals"].index(1)] = S0
    f["blocks"][ib]["term"]["args"][0] = stages[0][2]["args"][0]
    for bi, name, t in stages:
        f["blocks"][bi]["term"] = {"k": "goto", "t": t["t"]}
    inlined = []
    for bi, c in pending:
        inline_call(f, bi, copy.deepcopy(c))
        inlined.append(c["path"])
    return inlined


def find_loop_sources(d, f, fn_by_path):
    out = []
    for ib, b in enumerate(f["blocks"]):
        t = b["term"]
        if b["cleanup"] or b.get("loop_desugared") or t["k"] != "call" or "f" not in t or t["f"].get("name") != "into_iter" or not isinstance(t.get("s"), list) or not str(t["s"][1]).startswith("d:ForLoop"):
            continue
        stages = []
        op = t["args"][0]
        while True:
            l = _follow_moves(f, _plain_local(op))
            if l is None:
                break
            db = _def_block(f, l)
            if db is None:
                break
            dt = f["blocks"][db]["term"]
            if not _is_iter_call(dt, {"map", "filter", "filter_map", "cloned", "copied"}):
                break
            stages.insert(0, (db, dt["f"]["name"], dt))
            op = dt["args"][0]
        if not any(nm in ("map", "filter", "filter_map") for _, nm, _ in stages):
            continue
        if any(_closure_of(d, fn_by_path, f, tt["args"][1])[0] is None for _, nm, tt in stages if nm in ("map", "filter", "filter_map")):
            continue
        # the loop's next() call: borrows the variable the into_iter result is moved into
        D = t["dest"][0]
        iters = {st["p"][0] for bb in f["blocks"] for st in bb["st"] if st["k"] == "A" and not st["p"][1] and st["r"]["k"] == "use" and _plain_local(st["r"]["o"]) == D}
        nbs = []
        for bi2, b2 in enumerate(f["blocks"]):
            t2 = b2["term"]
            if not b2["cleanup"] and t2["k"] == "call" and "f" in t2 and t2["f"].get("name") == "next" and isinstance(t2.get("s"), list) and str(t2["s"][1]).startswith("d:ForLoop"):
                if any(st["k"] == "A" and st["r"]["k"] == "ref" and st["r"]["p"][0] in iters and not st["r"]["p"][1] for st in b2["st"]):
                    nbs.append(bi2)
        if len(nbs) != 1:
            continue
        ln = t["s"][0]
        out.append((ib, stages, nbs[0], ln))
    return out


def desugar_function(d, f, force=True):
    """Desugar every supported chain / loop source of the single fact record `f` (in place), whatever
    its closures do.  For rules that read the *semantics* of a small function from its loop.  Returns the
    number of rewrites."""
    fn_by_path = {}
    children = {}
    for g in d["fns"]:
        fn_by_path.setdefault(g["path"], g)
        if g.get("parent"):
            children.setdefault(g["parent"], []).append(g)
    n = 0
    for _ in range(8):
        chains = find_chains(d, f, fn_by_path, children, force=force)
        if not chains or len(f["blocks"]) > MAX_BLOCKS:
            break
        stages, line = chains[0]
        backup = (copy.deepcopy(f["blocks"]), copy.deepcopy(f["locals"]))
        try:
            inl = desugar_chain(_Ctx(d, f), fn_by_path, stages[-1][0], stages, line)
            f.setdefault("inlined", []).extend(inl)
            n += 1
        except Exception:
            f["blocks"], f["locals"] = backup
            f["blocks"][stages[-1][0]]["inl_desugared"] = True
    for _ in range(6):
        found = find_loop_sources(d, f, fn_by_path)
        if not found or len(f["blocks"]) > MAX_BLOCKS:
            break
        ib, stages, nb, line = found[0]
        backup = (copy.deepcopy(f["blocks"]), copy.deepcopy(f["locals"]))
        try:
            inl = desugar_loop_source(_Ctx(d, f), fn_by_path, ib, stages, nb, line)
            f.setdefault("inlined", []).extend(inl)
            n += 1
        except Exception:
            f["blocks"], f["locals"] = backup
            f["blocks"][ib]["loop_desugared"] = True
    n += _option_pass(d, f, fn_by_path, children, force)
    return n


def _option_pass(d, f, fn_by_path, children, force, summary=None):
    n = 0
    for _ in range(12):
        found = find_option_calls(d, f, fn_by_path, children, force=force)
        if not found or len(f["blocks"]) > MAX_BLOCKS:
            break
        bi, line = found[0]
        backup = (copy.deepcopy(f["blocks"]), copy.deepcopy(f["locals"]))
        try:
            inl = desugar_option_call(_Ctx(d, f), fn_by_path, bi, line)
            f.setdefault("inlined", []).extend(inl)
            if summary is not None:
                summary["options"] = summary.get("options", 0) + 1
                summary["closures_inlined"].extend(inl)
            n += 1
        except Exception as e:
            f["blocks"], f["locals"] = backup
            f["blocks"][bi]["opt_desugared"] = True
            if summary is not None:
                summary["skipped"].append("%s: %s" % (f["path"], e))
    return n


FN_TRAITS = {"std::ops::Fn": "call", "std::ops::FnMut": "call_mut", "std::ops::FnOnce": "call_once"}


def _resolve_place(d, f, l, projs, depth=0):
    """Follow `[l, projs]` through single-definition temporaries: references, moves / copies (with
    projections) and closure aggregates, like Sym._static_target.  Returns (local, projs)."""
    if depth > 10 or l is None:
        return l, projs
    if 1 <= l <= f["argc"]:
        return l, projs
    defs = [st for b in f["blocks"] for st in b["st"] if st["k"] == "A" and st["p"][0] == l]
    calls = [b for b in f["blocks"] if b["term"]["k"] == "call" and b["term"]["dest"][0] == l]
    if len(defs) != 1 or calls or defs[0]["p"][1]:
        return l, projs
    r = defs[0]["r"]
    if r["k"] == "ref" and "*" not in r["p"][1]:
        if projs and projs[0] == "*":
            return _resolve_place(d, f, r["p"][0], list(r["p"][1]) + list(projs[1:]), depth + 1)
        if not projs:
            return _resolve_place(d, f, r["p"][0], list(r["p"][1]), depth + 1) if not r["p"][1] else (l, projs)
        return l, projs
    if r["k"] in ("use", "cast"):
        p = r["o"].get("m") or r["o"].get("c")
        if p is not None:
            return _resolve_place(d, f, p[0], list(p[1]) + list(projs), depth + 1)
        return l, projs
    if r["k"] == "agg" and r.get("agg") == "closure" and projs and isinstance(projs[0], list) and projs[0][0] == "f":
        idx = projs[0][1]
        if isinstance(idx, int) and idx < len(r["fields"]):
            p = r["fields"][idx].get("m") or r["fields"][idx].get("c")
            if p is not None:
                return _resolve_place(d, f, p[0], list(p[1]) + list(projs[1:]), depth + 1)
    return l, projs


def _closure_source(d, f, l, depth=0):
    """The local holding the closure aggregate that local `l` is (a copy / move of, a reference to, or a
    captured reference to), or None."""
    if l is None:
        return None
    tl, projs = _resolve_place(d, f, l, [])
    for _ in range(4):
        if d["types"][f["locals"][tl][0]].get("k") == "closure" and all(p == "*" for p in projs):
            return tl
        if projs and projs[0] == "*":
            tl, projs = _resolve_place(d, f, tl, projs)
            if projs and projs[0] == "*":
                # a reference held in a variable that is itself not followed further
                ty = d["types"][f["locals"][tl][0]]
                inner = ty.get("inner")
                if isinstance(inner, int) and d["types"][inner].get("k") == "closure":
                    return None
                break
        else:
            break
    return tl if d["types"][f["locals"][tl][0]].get("k") == "closure" and not [p for p in projs if p != "*"] else None


ENTRY_MAPS = ("std::collections::BTreeMap", "std::collections::HashMap")


def desugar_entry_calls(d, f, fn_by_path):
    """`*map.entry(k).or_insert_with(|| v)` in code that came from an inlined helper is the memo idiom
    `match map.get(&k) { Some(r) => r, None => { let v = ..; map.insert(k, v); &v } }`: written out that way
    (closure inlined), so that rules reading look-ups and insertions of a map see them."""
    out = []
    for _ in range(8):
        site = None
        for bi, b in enumerate(f["blocks"]):
            t = b["term"]
            if b["cleanup"] or not b.get("inl") or t["k"] != "call" or "f" not in t or b.get("entry_tried"):
                continue
            if t["f"].get("name") != "entry" or t["f"].get("adt") not in ENTRY_MAPS or len(t["args"]) != 2 or t["dest"][1] or t.get("t") is None:
                continue
            b2 = f["blocks"][t["t"]]
            t2 = b2["term"]
            if t2["k"] != "call" or "f" not in t2 or t2["f"].get("name") != "or_insert_with" or len(t2["args"]) != 2 or _plain_local(t2["args"][0]) != t["dest"][0]:
                continue
            c, cl_local = _closure_of(d, fn_by_path, f, t2["args"][1])
            if c is None or c["argc"] != 1:
                continue
            site = (bi, t["t"], c)
            break
        if site is None or len(f["blocks"]) > MAX_BLOCKS:
            break
        bi, b2i, c = site
        b, b2 = f["blocks"][bi], f["blocks"][b2i]
        t, t2 = b["term"], b2["term"]
        b["entry_tried"] = True
        cx = _Ctx(d, f)
        line = t.get("s")
        map_op, key_op = t["args"]
        kl = _plain_local(key_op)
        if kl is None:
            continue
        G, D, V, KR, INS = cx.local(), cx.local(), cx.local(name=None), cx.local(), cx.local()
        SW = cx.block()
        UNREACH = cx.block([], {"k": "unreachable"})
        BS = cx.block()
        BF = cx.block()
        BI = cx.block()
        pending = []
        BN = _closure_call_block(cx, fn_by_path, t2["args"][1], [], V, BI, line, pending)
        # the statements of the or_insert_with block (they build the closure) run before the look-up
        b["st"] = b["st"] + [st for st in b2["st"] if st["k"] == "A"] + [{"k": "A", "p": [KR, []], "r": {"k": "ref", "mut": False, "p": [kl, []]}, "s": line}]
        b2["st"], b2["term"] = [], {"k": "unreachable"}
        callee_get = {"path": t["f"]["path"].rsplit("::", 1)[0] + "::get", "name": "get", "local": False, "krate": t["f"].get("krate"), "self_ty": t["f"].get("self_ty"), "adt": t["f"].get("adt"), "substs": []}
        callee_ins = dict(callee_get, path=t["f"]["path"].rsplit("::", 1)[0] + "::insert", name="insert")
        b["term"] = {"k": "call", "f": callee_get, "args": [{"c": _plain_place(map_op)}, {"m": [KR, []]}], "dest": [G, []], "t": SW, "u": t.get("u"), "s": line, "fs": line}
        f["blocks"][SW]["st"] = [{"k": "A", "p": [D, []], "r": {"k": "disc", "p": [G, []], "adt": "std::option::Option"}, "s": line}]
        f["blocks"][SW]["term"] = {"k": "switch", "d": {"m": [D, []]}, "vals": [0, 1], "tgts": [BN, BS], "otherwise": UNREACH, "s": line}
        f["blocks"][BS]["st"] = [{"k": "A", "p": t2["dest"], "r": {"k": "use", "o": {"c": [G, [["d", "Some", 1], ["f", 0, "0", "std::option::Option", "Some"]]]}}, "s": line}]
        f["blocks"][BS]["term"] = {"k": "goto", "t": t2.get("t")}
        f["blocks"][BI]["term"] = {"k": "call", "f": callee_ins, "args": [{"c": _plain_place(map_op)}, {"c": [kl, []]}, {"c": [V, []]}], "dest": [INS, []], "t": BF, "u": t2.get("u"), "s": line, "fs": line}
        f["blocks"][BF]["st"] = [{"k": "A", "p": t2["dest"], "r": {"k": "ref", "mut": True, "p": [V, []]}, "s": line}]
        f["blocks"][BF]["term"] = {"k": "goto", "t": t2.get("t")}
        for x in (SW, BS, BF, BI, BN):
            f["blocks"][x]["inl"] = b.get("inl")
        for pb, pc in pending:
            inline_call(f, pb, copy.deepcopy(pc), d["types"])
            out.append(pc["path"])
    return out


def _plain_place(op):
    p = op.get("m") or op.get("c")
    return [p[0], list(p[1])]



def direct_closure_calls(d, f, fn_by_path):
    """`Fn::call(&c, (a, b))` / `FnMut::call_mut` / `FnOnce::call_once` on a closure created in the same
    body (what is left of a helper taking `impl Fn..` once the helper is inlined into its caller): call
    the closure body directly and inline it.  Returns the closure paths inlined."""
    out = []
    for _ in range(24):
        site = None
        for bi, b in enumerate(f["blocks"]):
            t = b["term"]
            if b["cleanup"] or t["k"] != "call" or "f" not in t or b.get("direct_tried"):
                continue
            cf = t["f"]
            if FN_TRAITS.get(cf.get("trait")) != cf.get("name") or cf.get("local") or len(t["args"]) != 2:
                continue
            cl = _closure_source(d, f, _plain_local(t["args"][0]))
            tl = _plain_local(t["args"][1])
            if cl is None or tl is None:
                continue
            tup = [st for st in b["st"] if st["k"] == "A" and st["p"] == [tl, []] and st["r"]["k"] == "agg" and st["r"].get("agg") == "tuple"]
            c = fn_by_path.get(d["types"][f["locals"][cl][0]].get("def"))
            if len(tup) != 1 or c is None or c["argc"] != len(tup[0]["r"]["fields"]) + 1:
                continue
            site = (bi, cl, tup[0]["r"]["fields"], c)
            break
        if site is None or len(f["blocks"]) > MAX_BLOCKS:
            break
        bi, cl, fields, c = site
        b = f["blocks"][bi]
        t = b["term"]
        cx = _Ctx(d, f)
        CR = cx.local()
        by_ref = d["types"][c["locals"][1][0]].get("k") == "ref"
        line = t.get("s")
        if by_ref:
            b["st"].append({"k": "A", "p": [CR, []], "r": {"k": "ref", "mut": bool(d["types"][c["locals"][1][0]].get("mut")), "p": [cl, []]}, "s": line})
        else:
            b["st"].append({"k": "A", "p": [CR, []], "r": {"k": "use", "o": {"m": [cl, []]}}, "s": line})
        b["term"] = {"k": "call", "f": {"path": c["path"], "name": c["name"], "local": True, "krate": c.get("krate"), "substs": [], "closure": c["path"]},
                     "args": [{"m": [CR, []]}] + list(fields), "dest": t["dest"], "t": t.get("t"), "u": t.get("u"), "s": line, "fs": t.get("fs", line)}
        b["direct_tried"] = True
        try:
            inline_call(f, bi, copy.deepcopy(c), d["types"])
            out.append(c["path"])
        except Exception:
            pass
    return out


def apply(d):
    summary = {"chains": 0, "loops": 0, "closures_inlined": [], "skipped": []}
    fn_by_path = {}
    for f in d["fns"]:
        fn_by_path.setdefault(f["path"], f)
    children = {}
    for f in d["fns"]:
        if f.get("parent"):
            children.setdefault(f["parent"], []).append(f)
    # closures first (longer paths), so that a chain nested in a closure is a loop before the closure is inlined
    order = sorted(d["fns"], key=lambda f: -f["path"].count("::"))
    # closures handed to a helper that was inlined are called where they were written
    for f in order:
        if f.get("inlined") and f.get("local", True) and not f.get("derived"):
            try:
                inl = desugar_entry_calls(d, f, fn_by_path) + direct_closure_calls(d, f, fn_by_path)
            except Exception as e:
                summary["skipped"].append("%s: %s" % (f["path"], e))
                continue
            if inl:
                f.setdefault("inlined", []).extend(inl)
                f.setdefault("desugared_closures", []).extend(inl)
                summary["closures_inlined"].extend(inl)
    for f in order:
        if f.get("derived") or not f.get("local", True):
            continue
        for _ in range(4):
            try:
                chains = find_chains(d, f, fn_by_path, children)
            except Exception as e:  # never let the preprocessing break the analysis
                summary["skipped"].append("%s: %s" % (f["path"], e))
                break
            if not chains:
                break
            progressed = False
            for stages, line in chains[:1]:  # one at a time: block indices of the others stay valid, but re-scan anyway
                if len(f["blocks"]) > MAX_BLOCKS:
                    break
                backup = (copy.deepcopy(f["blocks"]), copy.deepcopy(f["locals"]))
                try:
                    inl = desugar_chain(_Ctx(d, f), fn_by_path, stages[-1][0], stages, line)
                    f.setdefault("inlined", []).extend(inl)
                    f.setdefault("desugared_closures", []).extend(inl)
                    summary["chains"] += 1
                    summary["closures_inlined"].extend(inl)
                    progressed = True
                except Exception as e:
                    f["blocks"], f["locals"] = backup
                    summary["skipped"].append("%s: %s" % (f["path"], e))
                    # mark the consumer so that it is not retried
                    f["blocks"][stages[-1][0]]["inl_desugared"] = True
            if not progressed:
                break
    # for-loops over filter / map chains
    for f in order:
        if f.get("derived") or not f.get("local", True):
            continue
        for _ in range(6):
            try:
                found = find_loop_sources(d, f, fn_by_path)
            except Exception as e:
                summary["skipped"].append("%s: %s" % (f["path"], e))
                break
            if not found or len(f["blocks"]) > MAX_BLOCKS:
                break
            ib, stages, nb, line = found[0]
            backup = (copy.deepcopy(f["blocks"]), copy.deepcopy(f["locals"]))
            try:
                inl = desugar_loop_source(_Ctx(d, f), fn_by_path, ib, stages, nb, line)
                f.setdefault("inlined", []).extend(inl)
                summary["loops"] += 1
                summary["closures_inlined"].extend(inl)
            except Exception as e:
                f["blocks"], f["locals"] = backup
                f["blocks"][ib]["loop_desugared"] = True
                summary["skipped"].append("%s: %s" % (f["path"], e))
    # Option combinators whose closures call local functions
    for f in order:
        if f.get("derived") or not f.get("local", True):
            continue
        try:
            _option_pass(d, f, fn_by_path, children, False, summary)
        except Exception as e:
            summary["skipped"].append("%s: %s" % (f["path"], e))
    # closures that now live inside their parent are no longer stand-alone bodies
    gone = set(summary["closures_inlined"])
    if gone:
        for f in d["fns"]:
            if f["path"] in gone:
                f["desugared_away"] = True
    # the memo idiom / handed-over closures inside closures that the passes above have just inlined
    for f in order:
        if f.get("inlined") and f.get("local", True) and not f.get("derived"):
            try:
                inl = desugar_entry_calls(d, f, fn_by_path) + direct_closure_calls(d, f, fn_by_path)
            except Exception as e:
                summary["skipped"].append("%s: %s" % (f["path"], e))
                continue
            if inl:
                f.setdefault("inlined", []).extend(inl)
                f.setdefault("desugared_closures", []).extend(inl)
                summary["closures_inlined"].extend(inl)
    return summary
