"""riolib.effects — P5: which (ADT, field) pairs a function reads / writes.

A *write* of field F (of ADT A) in function f is
  * an assignment (or call destination, or SetDiscriminant) whose place projects through A.F, or
  * a mutable alias of a place through A.F (a `&mut` borrow, possibly passed through accessor
    calls that only yield inner `&mut`s, iterator steps, unwraps and reborrows) that is
      - assigned through (`*alias = ..`), or
      - handed to a foreign callee that is not in the accessor table (conservative).
Mutable aliases handed to *local* callees are not writes of F by f itself; the callee's own
writes are found in the callee and joined by `transitive`.
Field identity is (ADT path, field name): the analysis is instance-insensitive.
"""
from collections import defaultdict

from .core import Callee, op_place, span_line

# foreign callees that take `&mut X` and only hand back (an iterator over) inner `&mut`s
ACCESSORS = {
    "get_mut", "values_mut", "iter_mut", "as_mut", "deref_mut", "as_deref_mut", "as_mut_slice", "as_mut_str",
    "into_iter", "next", "unwrap", "expect", "last_mut", "first_mut", "borrow_mut", "by_ref", "as_mut_ptr",
    "get_or_insert_with", "unwrap_or_else", "map", "and_then", "ok_or", "index_mut", "peekable", "peek_mut",
    "enumerate", "zip", "rev", "skip", "take", "filter", "chain", "flatten", "filter_map", "flat_map",
    "split_first_mut", "split_last_mut", "split_at_mut", "as_deref", "iter", "last", "first", "once", "chunks_mut", "windows", "fuse", "inspect",
}
# foreign callees that take `&mut X` and certainly do not modify X's logical content
READONLY_MUT = {"len", "is_empty", "get", "contains", "contains_key", "iter", "clone", "as_ref", "as_slice", "as_str", "fmt"}


def place_field_chain(place):
    """[(adt, field)] for every field projection of a place."""
    out = []
    for p in place[1]:
        if isinstance(p, list) and p[0] == "f" and len(p) > 3 and p[3] != "{closure}":
            out.append((p[3], p[2]))
    return out


class Effects:
    def __init__(self, fn):
        self.fn = fn
        self.reads = set()  # (adt, field)
        self.writes = {}  # (adt, field) -> [(how, line)]
        self.mut_escapes_local = defaultdict(set)  # (adt, field) -> local callee keys receiving a &mut alias
        self._run()

    def _w(self, fld, how, line):
        self.writes.setdefault(fld, []).append((how, line))

    def _run(self):
        fn = self.fn
        taint = defaultdict(set)  # local -> {(adt, field)} it mutably aliases
        closure_field_alias = {}

        field_taint = defaultdict(set)  # (adt, field) of a container -> aliases stored in it

        def place_taint(place):
            """fields a mutable use of this place touches: its own chain, the aliases held by the
            base local when going through a deref, and aliases stored in the fields it reads"""
            l, projs = place
            chain = place_field_chain(place)
            t = set(chain)
            if projs and projs[0] == "*" or not projs:
                t |= taint.get(l, set())
            # aliases stored in a field are reached only by dereferencing *after* that field
            for i, p in enumerate(projs):
                if isinstance(p, list) and p[0] == "f" and len(p) > 3 and "*" in projs[i + 1:]:
                    t |= field_taint.get((p[3], p[2]), set())
            return t

        def read_taint(place):
            l, projs = place
            chain = place_field_chain(place)
            t = set()
            if not projs:
                t |= taint.get(l, set())
            for fld in chain:
                t |= field_taint.get(fld, set())
            return t

        # fixpoint over aliases (flow-insensitive)
        changed = True
        rounds = 0
        while changed and rounds < 20:
            changed = False
            rounds += 1
            for bi in fn.normal_blocks():
                b = fn.blocks[bi]
                for st in b["st"]:
                    if st["k"] != "A":
                        continue
                    l, projs = st["p"]
                    r = st["r"]
                    new = set()
                    if r["k"] in ("ref", "rawptr") and r.get("mut"):
                        new = place_taint(r["p"])
                    elif r["k"] in ("use", "cast"):
                        p = op_place(r["o"])
                        if p is not None:
                            new = read_taint(p)
                    elif r["k"] == "agg":
                        for o in r["fields"]:
                            p = op_place(o)
                            if p is not None:
                                new |= read_taint(p)
                    if not new:
                        continue
                    if not projs:
                        if not new <= taint[l]:
                            taint[l] |= new
                            changed = True
                    else:
                        # an alias stored into a field of some structure: remember it by field
                        chain = place_field_chain(st["p"])
                        if chain:
                            if not new <= field_taint[chain[-1]]:
                                field_taint[chain[-1]] |= new
                                changed = True
                        # `*p = value holding aliases`: the aliases now live in p's pointee, p itself
                        # does not become an alias of them (pointer levels are kept apart)
                t = b["term"]
                if t["k"] == "call" and "f" in t:
                    cal = Callee(t["f"])
                    argt = set()
                    for a in t["args"]:
                        p = op_place(a)
                        if p is not None:
                            argt |= read_taint(p)
                    if argt and (cal.name in ACCESSORS) and not cal.local:
                        l, projs = t["dest"]
                        if not projs:
                            if not argt <= taint[l]:
                                taint[l] |= argt
                                changed = True
                        else:
                            chain = place_field_chain(t["dest"])
                            if chain and not argt <= field_taint[chain[-1]]:
                                field_taint[chain[-1]] |= argt
                                changed = True
        self.taint = taint
        # collect reads / writes
        for bi in fn.normal_blocks():
            b = fn.blocks[bi]
            for st in b["st"]:
                if st["k"] == "A":
                    line = span_line(st["s"])
                    l, projs = st["p"]
                    chain = place_field_chain(st["p"])
                    for fld in chain:
                        self._w(fld, "assign", line)
                    if projs and projs[0] == "*":
                        for fld in taint.get(l, ()):
                            self._w(fld, "assign-through-alias", line)
                    r = st["r"]
                    for pl in _rvalue_places(r):
                        for fld in place_field_chain(pl):
                            self.reads.add(fld)
                elif st["k"] == "SD":
                    for fld in place_field_chain(st["p"]):
                        self._w(fld, "set-discriminant", span_line(st["s"]))
            t = b["term"]
            if t["k"] == "call":
                line = span_line(t["s"])
                for fld in place_field_chain(t["dest"]):
                    self._w(fld, "call-dest", line)
                if t["dest"][1] and t["dest"][1][0] == "*":
                    for fld in taint.get(t["dest"][0], ()):
                        self._w(fld, "call-dest-through-alias", line)
                for a in t["args"]:
                    p = op_place(a)
                    if p is not None:
                        for fld in place_field_chain(p):
                            self.reads.add(fld)
                if "f" in t:
                    cal = Callee(t["f"])
                    argt = set()
                    for a in t["args"]:
                        p = op_place(a)
                        if p is not None and not p[1]:
                            argt |= taint.get(p[0], set())
                    if argt:
                        if cal.local:
                            for fld in argt:
                                self.mut_escapes_local[fld].add(cal.key())
                        elif cal.name in ACCESSORS or cal.name in READONLY_MUT:
                            pass
                        elif cal.closure:
                            pass
                        else:
                            for fld in argt:
                                self._w(fld, "foreign-call:%s" % cal.key(), line)
                else:
                    pass
            elif t["k"] == "drop":
                pass


def _rvalue_places(r):
    k = r["k"]
    out = []
    if k in ("use", "cast", "repeat"):
        p = op_place(r["o"])
        if p is not None:
            out.append(p)
    elif k in ("ref", "rawptr", "disc"):
        out.append(r["p"])
    elif k == "bin":
        for o in (r["a"], r["b"]):
            p = op_place(o)
            if p is not None:
                out.append(p)
    elif k == "un":
        p = op_place(r["a"])
        if p is not None:
            out.append(p)
    elif k == "agg":
        for o in r["fields"]:
            p = op_place(o)
            if p is not None:
                out.append(p)
    return out


_CACHE = {}


def effects(fn):
    k = (id(fn.facts), fn.path)
    if k not in _CACHE:
        _CACHE[k] = Effects(fn)
    return _CACHE[k]


def fields_touched(fn, include_closures=True):
    """All (adt, field) mentioned in any place of fn (and its closures)."""
    out = set()
    for f in (fn.all_bodies() if include_closures else [fn]):
        e = effects(f)
        out |= e.reads
        out |= set(e.writes)
        # mutable borrows are recorded through taint; shared borrows through reads
        for l, flds in e.taint.items():
            out |= flds
    return out


def transitive_writes(facts, roots):
    """{(adt, field): [(fn key, how, line)]} over everything reachable from roots."""
    cg = facts.callgraph()
    out = defaultdict(list)
    for p in sorted(cg.reachable(roots)):
        f = facts.fns[p]
        e = effects(f)
        for fld, hows in e.writes.items():
            for how, line in hows:
                out[fld].append((f.key, how, "%s:%s" % (f.file, line)))
    return out
