"""riolib.guards — CFG-level guard discovery: which block is reached only when a boolean test /
discriminant has a given outcome, and "no intervening write" checks between a guard and a use."""
from .core import Callee, op_place, span_line
from .prov import call_key, callee_kind, PASS_THROUGH, COPIES
from .effects import effects, place_field_chain, ACCESSORS, READONLY_MUT


class Tests:
    """All two-way tests of a function body.

    `bool_edges`: list of (atom, true_block, false_block, test_block) where atom is either
      ("call", key, args)            a call returning bool
      ("bin", op, a, b)              a comparison
      ("val", expr)                  a bool-valued expression (field / local)
    `disc_edges`: list of (place expr, {variant name: block}, otherwise block, test_block)
    """

    def __init__(self, fn, pv):
        self.fn = fn
        self.pv = pv
        self.bool_edges = []
        self.disc_edges = []
        self.int_edges = []
        self.disc_adt = {}      # test block -> ADT whose discriminant is switched on
        self.bool_phis = []     # (defs [(block, "true"|"false"|"expr")], true block, false block, test block)
        self._phi_pending = []
        self._scan()

    def _scan(self):
        f, pv = self.fn, self.pv
        F = f.facts
        defs = f.defs()
        for bi in f.normal_blocks():
            t = f.blocks[bi]["term"]
            if t["k"] != "switch":
                continue
            pl = op_place(t["d"])
            if pl is None or pl[1]:
                continue
            l = pl[0]
            neg = False
            expr = None
            # follow Not chains / copies backwards through single definitions
            cur = l
            steps = 0
            while steps < 8:
                steps += 1
                ds = defs.get(cur, [])
                if len(ds) != 1:
                    break
                db, si = ds[0]
                if si == "term":
                    tm = f.blocks[db]["term"]
                    if "f" in tm:
                        cal = Callee(tm["f"])
                        args = tuple(pv.operand(a) for a in tm["args"])
                        expr = ("call", call_key(cal), args)
                    break
                st = f.blocks[db]["st"][si]
                r = st["r"]
                if r["k"] == "un" and r["op"] == "Not":
                    p2 = op_place(r["a"])
                    if p2 is None or p2[1]:
                        expr = ("val", pv.operand(r["a"]))
                        neg = not neg
                        break
                    neg = not neg
                    cur = p2[0]
                    continue
                if r["k"] == "use":
                    p2 = op_place(r["o"])
                    if p2 is not None and not p2[1]:
                        cur = p2[0]
                        continue
                    expr = ("val", pv.operand(r["o"]))
                    break
                if r["k"] == "bin":
                    expr = ("bin", r["op"], pv.operand(r["a"]), pv.operand(r["b"]))
                    break
                if r["k"] == "disc":
                    pe = pv.place(r["p"])
                    adt = r.get("adt")
                    names = {}
                    for v, tg in zip(t["vals"], t["tgts"]):
                        names[_variant_name(F, adt, v)] = tg
                    other = t["otherwise"]
                    nvar = _nvariants(F, adt)
                    if nvar is not None and len(names) == nvar - 1:
                        allnames = [_variant_name(F, adt, i) for i in range(nvar)]
                        rest = [n for n in allnames if n not in names]
                        if len(rest) == 1:
                            names[rest[0]] = other
                    self.disc_edges.append((pe, names, other, bi))
                    self.disc_adt[bi] = adt
                    expr = None
                    break
                break
            if expr is None:
                if steps and len(defs.get(cur, [])) != 1:
                    # multi-def bool local (e.g. short-circuit temporary): treat its value as the atom
                    expr = ("val", pv.local(cur))
                    # and remember how it is defined: `t = a && b` is `if a { t = b } else { t = false }`,
                    # so t == true implies the block assigning `b` ran (and everything guarding it)
                    info = []
                    for db, si in defs.get(cur, []):
                        kind = "expr"
                        if si != "term":
                            rr = f.blocks[db]["st"][si]["r"]
                            if rr["k"] == "use" and "k" in rr["o"] and "bool" in rr["o"]["k"]:
                                kind = "true" if rr["o"]["k"]["bool"] else "false"
                        info.append((db, kind))
                    self._phi_pending.append((cur, info, neg, bi))
                else:
                    continue
            if f.local_ty(l).get("k") in ("uint", "int") and expr[0] in ("call", "val"):
                # `match n { 0 => .., 1 => .., _ => .. }` on an integer: value edges, not a two-way test
                self.int_edges.append((expr if expr[0] == "call" else expr[1], {v: tg for v, tg in zip(t["vals"], t["tgts"])}, t["otherwise"], bi))
                continue
            tb = fb = None
            for v, tg in zip(t["vals"], t["tgts"]):
                if v == 0:
                    fb = tg
                elif v == 1:
                    tb = tg
            if tb is None:
                tb = t["otherwise"]
            if fb is None:
                fb = t["otherwise"]
            if neg:
                tb, fb = fb, tb
            self.bool_edges.append((expr, tb, fb, bi))
            if self._phi_pending and self._phi_pending[-1][3] == bi:
                cur_, info, _, _ = self._phi_pending.pop()
                self.bool_phis.append((info, tb, fb, bi))
            # short-circuit `a && b` / `a || b`: a phi-valued temporary; edges of the parts are scanned on their own switches

    # -- queries ------------------------------------------------------------------------
    def blocks_where(self, pred):
        """blocks reached only when some test satisfying pred(atom, outcome) has that outcome:
        pred gets (atom, True) for the true edge and (atom, False) for the false edge."""
        out = []
        for atom, tb, fb, sb in self.bool_edges:
            if pred(atom, True):
                out.append((tb, sb))
            if pred(atom, False):
                out.append((fb, sb))
        # implied through short-circuit temporaries: when only one definition can make the temporary
        # true (false), its true (false) edge implies every edge guarding that definition
        extra = []
        for _ in range(2):
            for info, tb, fb, sb in self.bool_phis:
                for want, edge in (("false", tb), ("true", fb)):
                    srcs = [db for db, kind in info if kind != want]
                    if len(srcs) != 1:
                        continue
                    D = srcs[0]
                    if any(edge_dominates(self.fn, g, gs, D) for g, gs in out + extra) and (edge, sb) not in out and (edge, sb) not in extra:
                        extra.append((edge, sb))
        return out + extra

    def int_blocks(self, expr_pred, value_pred):
        """(block, test block) reached only when an integer-valued expression satisfying expr_pred
        has a value satisfying value_pred (listed arms only; the `_` arm when every value it stands
        for cannot be decided is skipped)."""
        out = []
        for e, arms, other, sb in self.int_edges:
            if not expr_pred(e):
                continue
            for v, tg in arms.items():
                if value_pred(v):
                    out.append((tg, sb))
        return out

    def disc_blocks(self, place_pred, variant):
        out = []
        for pe, names, other, sb in self.disc_edges:
            if place_pred(pe) and variant in names:
                out.append((names[variant], sb))
        return out


def _variant_name(F, adt, idx):
    a = F.adts.get(adt)
    if a and idx < len(a["variants"]):
        return a["variants"][idx]["name"]
    if adt == "std::option::Option":
        return ["None", "Some"][idx] if idx < 2 else idx
    if adt == "std::result::Result":
        return ["Ok", "Err"][idx] if idx < 2 else idx
    return idx


def _nvariants(F, adt):
    if adt in ("std::option::Option", "std::result::Result"):
        return 2
    a = F.adts.get(adt)
    return len(a["variants"]) if a else None


def edge_dominates(fn, target_block, test_block, use_block):
    """The edge test_block->target_block guards use_block: target dominates use and target is
    entered only through that edge (single predecessor) or is the use block's dominator chain."""
    if not fn.dominates(target_block, use_block):
        return False
    preds = [p for p in fn.pred(target_block) if p in fn.dominators()]
    # target must not be reachable from the other outcome without passing the test again
    return all(p == test_block or fn.dominates(target_block, p) for p in preds)


def blocks_between(fn, a, b):
    """Blocks on some path from a to b (inclusive) that does not pass through `a` again (the
    guard / anchor must be re-established on every new visit, so later iterations are covered by
    their own visit of `a`)."""
    if a == b:
        return {a}
    fwd = {a}
    st = [s for s in fn.succ(a)]
    while st:
        x = st.pop()
        if x in fwd:
            continue
        fwd.add(x)
        if x == b:
            continue  # paths are cut at the use: what follows it is not "between"
        st.extend(fn.succ(x))
    bwd = {b}
    st = [p for p in fn.pred(b)]
    while st:
        x = st.pop()
        if x in bwd:
            continue
        bwd.add(x)
        if x == a:
            continue
        st.extend(fn.pred(x))
    out = fwd & bwd
    out.add(a)
    out.add(b)
    return out


def fields_written_between(fn, a, b, upto_stmt=None):
    """(adt, field) possibly written on paths a -> b (a's statements included, b's excluded
    unless a == b), through assignments or calls (local callees: their transitive writes)."""
    from .effects import transitive_writes
    F = fn.facts
    out = set()
    unknown = False
    cg = F.callgraph()
    for x in blocks_between(fn, a, b):
        blk = fn.blocks[x]
        if x != b or a == b:
            pass
        for st in blk["st"]:
            if x == b and a != b:
                break
            if st["k"] == "A":
                for fld in place_field_chain(st["p"]):
                    out.add(fld)
        if x == b:
            continue
        t = blk["term"]
        if t["k"] == "call" and "f" in t:
            cal = Callee(t["f"])
            for fld in place_field_chain(t["dest"]):
                out.add(fld)
            if cal.local:
                tgt = F.fns.get(cal.path) or next((g for g in F.fn_list if g.key == cal.key()), None)
                if tgt is not None:
                    for fld in transitive_writes(F, [tgt]):
                        out.add(fld)
            elif cal.name in ACCESSORS or cal.name in READONLY_MUT:
                pass  # yields inner references only / does not modify
            else:
                # foreign call taking a mutable alias of a field: conservative via effects taint
                e = effects(fn)
                for arg in t["args"]:
                    p = op_place(arg)
                    if p is not None and not p[1]:
                        for fld in e.taint.get(p[0], ()):
                            out.add(fld)
    return out


def local_redefined_between(fn, local, a, b):
    ds = fn.defs().get(local, [])
    bt = blocks_between(fn, a, b)
    for db, si in ds:
        if db in bt and db != b and not (db == a and False):
            if db == a:
                continue
            return True
    return False
