"""Inlining of *new* local helper functions into their callers (on the fact JSON, before any rule runs).

The rules are written against the functions of the reference tree (`/verif/known_fns.json`, the
def paths of every local body of the tree the rules were confirmed on, all configurations).  A
function that is not in that table is new to the rules — typically a private helper extracted
from one of the known functions by a refactoring, or added by a change.  Path-sensitive rules read
one body at a time, so without this step an extracted helper would hide the code it contains from
the rule that used to read it in place.  Every direct call to a new, non-recursive local function
is therefore replaced by a copy of the callee's MIR (parameters become temporaries assigned from
the arguments, `return` becomes an assignment of the destination followed by a jump to the call's
successor).  On the reference tree there is no new function and this step is the identity.

A new function whose every use is a direct call that was inlined, and which is not exported from
the crate, is then dropped from the list of stand-alone bodies (its code is analysed in the
context of each caller, like before the extraction).  New functions that are exported, used as
values, recursive, or too large stay in the list and are analysed on their own as well.
"""
import copy
import json
import os
import re as _re_mod

VERIF = os.path.dirname(os.path.dirname(os.path.abspath(__file__)))
KNOWN = os.path.join(VERIF, "known_fns.json")
MAX_BLOCKS = 1500      # do not grow a body beyond this
MAX_CALLEE_BLOCKS = 250
MAX_ROUNDS = 5


def load_known():
    if not os.path.exists(KNOWN):
        return None
    with open(KNOWN) as fh:
        return set(json.load(fh)["paths"])


# -- renumbering -------------------------------------------------------------------------------
def _place(p, lo):
    projs = []
    for x in p[1]:
        if isinstance(x, list) and x and x[0] == "i":
            projs.append(["i", x[1] + lo])
        else:
            projs.append(x)
    return [p[0] + lo, projs]


def _operand(o, lo):
    if "m" in o:
        return {"m": _place(o["m"], lo)}
    if "c" in o:
        return {"c": _place(o["c"], lo)}
    return o


def _rvalue(r, lo):
    r = dict(r)
    if "p" in r:
        r["p"] = _place(r["p"], lo)
    for k in ("o", "a", "b"):
        if k in r and isinstance(r[k], dict):
            r[k] = _operand(r[k], lo)
    if "fields" in r:
        r["fields"] = [_operand(x, lo) for x in r["fields"]]
    return r


def _stmt(st, lo):
    st = dict(st)
    k = st["k"]
    if k == "A":
        st["p"] = _place(st["p"], lo)
        st["r"] = _rvalue(st["r"], lo)
    elif k == "SD":
        st["p"] = _place(st["p"], lo)
    elif k == "dead":
        st["l"] = st["l"] + lo
    return st


def _term(t, lo, bo):
    t = dict(t)
    k = t["k"]
    for key in ("t", "u", "otherwise"):
        if t.get(key) is not None and key in t:
            t[key] = t[key] + bo
    if k == "switch":
        t["d"] = _operand(t["d"], lo)
        t["tgts"] = [x + bo for x in t["tgts"]]
    elif k == "drop":
        t["p"] = _place(t["p"], lo)
    elif k == "call":
        t["args"] = [_operand(x, lo) for x in t["args"]]
        t["dest"] = _place(t["dest"], lo)
        if "fp" in t:
            t["fp"] = _operand(t["fp"], lo)
    elif k == "assert":
        t["cond"] = _operand(t["cond"], lo)
        t["ops"] = [_operand(x, lo) for x in t["ops"]]
    return t


import re as _re


def _param_names(types, idx, acc, depth=0):
    ty = types[idx]
    if ty.get("k") == "param":
        acc.add(ty["s"])
    if depth < 6:
        for j in ty.get("args", []) or []:
            if isinstance(j, int):
                _param_names(types, j, acc, depth + 1)
        if isinstance(ty.get("inner"), int):
            _param_names(types, ty["inner"], acc, depth + 1)


def _mentions_name(name, text):
    return (name in text) if not name.isidentifier() else bool(_re.search(r"\b%s\b" % _re.escape(name), text))


def _replace_name(name, by, text):
    return text.replace(name, by) if not name.isidentifier() else _re.sub(r"\b%s\b" % _re.escape(name), by, text)


def _subst_type(types, idx, name, conc, memo, depth=0):
    """index of the type `idx` with the type parameter `name` replaced by the type `conc`"""
    if idx in memo:
        return memo[idx]
    ty = types[idx]
    if ty.get("k") == "param":
        memo[idx] = conc if ty["s"] == name else idx
        return memo[idx]
    if depth > 6 or not _mentions_name(name, ty.get("s", "")):
        memo[idx] = idx
        return idx
    new = dict(ty)
    new["s"] = _replace_name(name, types[conc]["s"], ty["s"])
    if "args" in ty and ty["args"]:
        new["args"] = [_subst_type(types, j, name, conc, memo, depth + 1) if isinstance(j, int) else j for j in ty["args"]]
    if isinstance(ty.get("inner"), int):
        new["inner"] = _subst_type(types, ty["inner"], name, conc, memo, depth + 1)
    new["adts"] = sorted(set(ty.get("adts", [])) | set(types[conc].get("adts", [])))
    types.append(new)
    memo[idx] = len(types) - 1
    return memo[idx]


_IMPLS = {}


def _monomorphise(types, call, callee):
    """A generic helper called with concrete type arguments: give the copy of its body the concrete
    types of this call site (owner types of Box::into_raw etc. are read from them, and trait methods
    called on a type parameter become calls of the concrete impl)."""
    substs = [s for s in (call.get("f") or {}).get("substs", []) if isinstance(s, int)]
    names = set()
    for l in callee["locals"]:
        _param_names(types, l[0], names)
    tps = callee.get("type_params")
    if tps and len(tps) == len(substs):
        pairs = [(n, c) for n, c in zip(tps, substs) if types[c].get("k") != "param" or types[c].get("s") != n]
        # a parameter that stays a parameter of the caller (`T` -> `T`) needs no rewriting
        pairs = [(n, c) for n, c in pairs if types[c].get("k") != "param"] + [(n, c) for n, c in pairs if types[c].get("k") == "param" and types[c].get("s") != n]
    elif len(names) == 1 and len(substs) == 1:
        pairs = [(next(iter(names)), substs[0])]
        if types[substs[0]].get("k") == "param":
            return
    else:
        return
    # longest names first: `impl IntoIterator<Item = &mut M>` is rewritten before `M`
    for name, conc in sorted(pairs, key=lambda x: -len(x[0])):
        memo = {}
        for l in callee["locals"]:
            l[0] = _subst_type(types, l[0], name, conc, memo)
        for b in callee["blocks"]:
            t = b["term"]
            if t["k"] == "call" and "f" in t:
                f = t["f"] = dict(t["f"])
                f["substs"] = [_subst_type(types, s, name, conc, memo) if isinstance(s, int) else s for s in f.get("substs", [])]
                if f.get("self_ty"):
                    f["self_ty"] = f["self_ty"].replace(name, types[conc]["s"]) if not name.isidentifier() else _re.sub(r"\b%s\b" % _re.escape(name), types[conc]["s"], f["self_ty"])
            for st in b["st"]:
                if st["k"] == "A" and st["r"].get("k") == "cast" and isinstance(st["r"].get("ty"), int):
                    st["r"] = dict(st["r"], ty=_subst_type(types, st["r"]["ty"], name, conc, memo))
    for b in callee["blocks"]:
        t = b["term"]
        if t["k"] == "call" and "f" in t:
            f = t["f"]
            # a trait method called on the type parameter is now a call of the concrete type's impl
            if f.get("trait") and not f.get("trait_impl") and f.get("local") and not f.get("res"):
                impl = _IMPLS.get((f["trait"], f["name"], f.get("self_ty")))
                if impl is not None:
                    f["path"], f["adt"], f["trait_impl"] = impl["path"], impl.get("adt"), True


def inline_call(caller, bi, callee, types=None):
    """Replace the call terminating block `bi` of the fact record `caller` by the body of `callee`."""
    lo = len(caller["locals"])
    bo = len(caller["blocks"])
    call = caller["blocks"][bi]["term"]
    if types is not None:
        _monomorphise(types, call, callee)
    # callee locals: parameters become anonymous temporaries
    for i, l in enumerate(callee["locals"]):
        l2 = list(l)
        if 1 <= i <= callee["argc"]:
            l2[1], l2[2] = None, False
        caller["locals"].append(l2)
    # argument passing
    st = caller["blocks"][bi]["st"]
    for k, a in enumerate(call["args"]):
        if k + 1 <= callee["argc"]:
            st.append({"k": "A", "p": [lo + k + 1, []], "r": {"k": "use", "o": a}, "s": call.get("s"), "inl": callee["path"]})
    caller["blocks"][bi]["term"] = {"k": "goto", "t": bo}
    nxt, dest = call.get("t"), call["dest"]
    for b in callee["blocks"]:
        nb = {"cleanup": b["cleanup"], "st": [_stmt(x, lo) for x in b["st"]], "term": _term(b["term"], lo, bo), "inl": callee["path"]}
        if b["term"]["k"] == "ret":
            nb["st"].append({"k": "A", "p": dest, "r": {"k": "use", "o": {"m": [lo, []]}}, "s": call.get("s"), "inl": callee["path"]})
            nb["term"] = {"k": "goto", "t": nxt} if nxt is not None else {"k": "unreachable"}
        caller["blocks"].append(nb)


# -- driver ------------------------------------------------------------------------------------
def _fn_values(d):
    """def paths of functions used as values (fn items in constants or generic arguments)."""
    fndef = {i: t["def"] for i, t in enumerate(d["types"]) if t.get("k") == "fndef"}
    used = set()

    def op(o):
        if isinstance(o, dict) and "k" in o and isinstance(o["k"], dict):
            ty = o["k"].get("ty")
            if ty in fndef:
                used.add(fndef[ty])
    for f in d["fns"]:
        for b in f["blocks"]:
            for st in b["st"]:
                if st["k"] == "A":
                    r = st["r"]
                    for k in ("o", "a", "b"):
                        if k in r:
                            op(r[k])
                    for x in r.get("fields", []):
                        op(x)
            t = b["term"]
            if t["k"] == "call":
                for x in t["args"]:
                    op(x)
                for s_ in (t.get("f") or {}).get("substs", []):
                    if s_ in fndef:
                        used.add(fndef[s_])
    return used


_GEN2 = _re_mod.compile(r"::<[^<>]*(?:<[^<>]*>[^<>]*)*>")


def _similar(a, b):
    """Names of a function before and after a renaming that keeps a recognisable stem
    (`find` / `find_into`, `tree_trace_to_trace` / `into_router_trace` is NOT such a pair)."""
    a, b = a.lower(), b.lower()
    if a == b:
        return True
    short, long_ = (a, b) if len(a) <= len(b) else (b, a)
    return len(short) >= 3 and (long_.startswith(short + "_") or long_.endswith("_" + short) or ("_" + short + "_") in long_)


def undo_renames(d, known):
    """A known function that is gone while a new one with a similar name sits in the same impl or module
    is the same function under a new name: give it its old name back everywhere (definition, closures
    defined in it, call sites, fn-item types), so that rules anchored on the name still find it."""
    present = {f["path"] for f in d["fns"]}
    gone = {}
    for p in known:
        if p not in present and "::" in p and "{" not in p.rsplit("::", 1)[1]:
            gone.setdefault(p.rsplit("::", 1)[0], []).append(p.rsplit("::", 1)[1])
    ren = {}
    for f in d["fns"]:
        p = f["path"]
        if p in known or not f.get("local", True) or f["kind"] not in ("Fn", "AssocFn") or "::" not in p:
            continue
        scope, name = p.rsplit("::", 1)
        cands = [o for o in gone.get(scope, ()) if _similar(o, name)]
        if len(cands) == 1:
            ren[p] = (scope + "::" + cands[0], cands[0])
    # a method that moved to another impl block / module keeps its type and name: `Leaf::<V>::cache` is gone and
    # `cache::<impl Leaf<V>>::cache` is new
    gone_methods = {}
    for p in known:
        if p not in present and "::" in p and not p.startswith("<"):
            gone_methods.setdefault(_GEN2.sub("", p), []).append(p)
    for f in d["fns"]:
        p = f["path"]
        if p in known or p in ren or not f.get("local", True) or f["kind"] != "AssocFn" or not f.get("adt") or f.get("trait"):
            continue
        cands = gone_methods.get("%s::%s" % (f["adt"], f["name"]), [])
        if len(cands) == 1:
            ren[p] = (cands[0], f["name"])
    # one old name can be claimed by one new function only
    claimed = {}
    for p, (q, _) in ren.items():
        claimed.setdefault(q, []).append(p)
    ren = {p: v for p, v in ren.items() if len(claimed[v[0]]) == 1}
    if not ren:
        return {}

    def fix_path(p):
        if p in ren:
            return ren[p][0]
        for old, (new, _) in ren.items():
            if p.startswith(old + "::"):
                return new + p[len(old):]
        return p

    def fix_callee(c):
        if not isinstance(c, dict):
            return
        if c.get("path"):
            q = fix_path(c["path"])
            if q != c["path"]:
                if c["path"] in ren:
                    c["name"] = ren[c["path"]][1]
                c["path"] = q
        for k in ("res",):
            if isinstance(c.get(k), dict):
                fix_callee(c[k])
        for k in ("closure",):
            if isinstance(c.get(k), str):
                c[k] = fix_path(c[k])
    for f in d["fns"]:
        if f["path"] in ren:
            f["renamed_from"] = f["path"]
            f["name"] = ren[f["path"]][1]
        f["path"] = fix_path(f["path"])
        for k in ("parent", "root"):
            if isinstance(f.get(k), str):
                f[k] = fix_path(f[k])
        for b in f["blocks"]:
            t = b["term"]
            if t["k"] == "call" and "f" in t:
                fix_callee(t["f"])
            for st in b["st"]:
                if st["k"] == "A":
                    r = st["r"]
                    for key in ("o", "a", "b"):
                        o = r.get(key)
                        if isinstance(o, dict) and isinstance(o.get("k"), dict) and isinstance(o["k"].get("fn"), dict):
                            fix_callee(o["k"]["fn"])
            if t["k"] == "call":
                for o in t["args"]:
                    if isinstance(o, dict) and isinstance(o.get("k"), dict) and isinstance(o["k"].get("fn"), dict):
                        fix_callee(o["k"]["fn"])
    for t in d["types"]:
        if isinstance(t.get("def"), str):
            t["def"] = fix_path(t["def"])
    return {p: v[0] for p, v in ren.items()}


def _on_cycle(d, cands):
    """Those of `cands` (def paths) that lie on a cycle of the direct-call graph over all local bodies:
    part of a recursion, hence structure and not a helper."""
    graph = {}
    for f in d["fns"]:
        graph.setdefault(f["path"], set()).update(_target(b["term"]) for b in f["blocks"] if b["term"]["k"] == "call" and "f" in b["term"] and not b["cleanup"])
    out = set()
    for p in cands:
        seen, stack = set(), list(graph.get(p, ()))
        while stack:
            q = stack.pop()
            if q == p:
                out.add(p)
                break
            if q not in seen:
                seen.add(q)
                stack.extend(graph.get(q, ()))
    return out


def _target(t):
    """def path a call terminator resolves to (the impl method for a resolved trait call).  A call
    dispatched at run time (`dyn Trait`) has no single target: it is never inlined."""
    f = t["f"]
    r = f.get("res")
    if f.get("virtual") or (isinstance(r, dict) and r.get("inst") == "virtual") or str(f.get("self_ty") or "").startswith("dyn "):
        return "<virtual>"
    if isinstance(r, dict) and r.get("local") and r.get("path"):
        return r["path"]
    return f["path"]


def apply(d):
    """Inline new helpers in the raw fact dictionary `d` (in place).  Returns a summary dict."""
    known = load_known()
    summary = {"new": [], "inlined_calls": 0, "dropped": [], "kept": []}
    if known is None:
        summary["note"] = "no known_fns.json: inlining disabled"
        return summary
    summary["renamed_back"] = undo_renames(d, known)
    _IMPLS.clear()
    for f in d["fns"]:
        if f.get("trait") and f.get("self_ty") and f["kind"] == "AssocFn" and f.get("local", True):
            key = (f["trait"], f["name"], f["self_ty"])
            _IMPLS[key] = f if key not in _IMPLS else None
    byp = {}
    for f in d["fns"]:
        byp.setdefault(f["path"], []).append(f)
    new = {}
    for f in d["fns"]:
        if f["path"] in known or not f.get("local", True):
            continue
        if f["kind"] not in ("Fn", "AssocFn") or f.get("derived") or f.get("root") or (f.get("from_expansion") and "_::" in f["path"]):
            continue
        if len(byp[f["path"]]) != 1 or len(f["blocks"]) > MAX_CALLEE_BLOCKS:
            continue
        new[f["path"]] = f
    if not new:
        return summary
    summary["new"] = sorted(new)

    def callees(f):
        return {_target(b["term"]) for b in f["blocks"] if b["term"]["k"] == "call" and "f" in b["term"] and not b["cleanup"]}
    # recursive new functions are not inlined
    graph = {p: callees(f) & set(new) for p, f in new.items()}
    rec = set()
    for p in graph:
        seen, stack = set(), list(graph[p])
        while stack:
            q = stack.pop()
            if q == p:
                rec.add(p)
                break
            if q not in seen:
                seen.add(q)
                stack.extend(graph.get(q, ()))
    rec |= _on_cycle(d, set(new) - rec)
    inl = {p: f for p, f in new.items() if p not in rec}
    pristine = {p: copy.deepcopy(f) for p, f in inl.items()}
    left = {}
    for f in d["fns"]:
        for _ in range(MAX_ROUNDS):
            sites = [i for i, b in enumerate(f["blocks"]) if not b["cleanup"] and b["term"]["k"] == "call" and "f" in b["term"] and _target(b["term"]) in inl and _target(b["term"]) != f["path"] and not b["term"].get("noinline")]
            if not sites:
                break
            for i in sites:
                cal = pristine[_target(f["blocks"][i]["term"])]
                if len(f["blocks"]) + len(cal["blocks"]) > MAX_BLOCKS or len(f["blocks"][i]["term"]["args"]) != cal["argc"]:
                    left[cal["path"]] = left.get(cal["path"], 0) + 1
                    f["blocks"][i]["term"] = dict(f["blocks"][i]["term"], noinline=True)
                    continue
                inline_call(f, i, copy.deepcopy(cal), d["types"])
                f.setdefault("inlined", []).append(cal["path"])
                summary["inlined_calls"] += 1
    # which new functions are still used otherwise?
    used_as_value = _fn_values(d)
    still_called = set()
    for f in d["fns"]:
        if f["path"] in inl:
            continue  # calls among new helpers were inlined wherever the helper itself was
        for b in f["blocks"]:
            t = b["term"]
            if t["k"] == "call" and "f" in t and _target(t) in new:
                still_called.add(_target(t))
    n_inl = {}
    for f in d["fns"]:
        for p in f.get("inlined", []):
            n_inl[p] = n_inl.get(p, 0) + 1
    drop = set()
    for p, f in new.items():
        if p in inl and n_inl.get(p) and p not in still_called and p not in used_as_value and not f.get("exported") and not f.get("no_mangle") and f.get("abi", "Rust") == "Rust":
            drop.add(p)
    # a helper only reachable from dropped helpers goes with them
    summary["dropped"] = sorted(drop)
    summary["kept"] = sorted(set(new) - drop)
    if drop:
        # (kept aside: their promoted constants are referenced from the copies of their bodies)
        d.setdefault("dropped_fns", []).extend(f for f in d["fns"] if f["path"] in drop)
        d["fns"] = [f for f in d["fns"] if f["path"] not in drop]
    return summary
