"""riolib.prov — P3 provenance: backward def-use over MIR locals, producing small expression
trees that rules compare structurally.

Expression forms (hashable tuples):
  ("param", k)                      k-th argument (1-based MIR local)
  ("local", l)                      a local that could not be resolved further
  ("field", e, name, adt)           field projection
  ("variant", e, name)              enum downcast
  ("index", e, i)                   indexing
  ("call", key, (args...))          result of a call (after peeling pass-through callees)
  ("const", v)                      literal / named constant / fn item / static
  ("bin", op, a, b) ("un", op, a) ("cast", e)
  ("agg", kind, variant, ((name, e), ...))
  ("disc", e)                       discriminant read
  ("phi", (e1, e2, ...))            several reaching definitions (user variable)
  ("unknown", why)
References and dereferences are transparent (value-level provenance).
"""
from .core import Callee, op_place

# callees that return (a view of) their first argument: peeled for provenance
PASS_THROUGH = {
    ("std::ops::Deref", "deref"),
    ("std::ops::DerefMut", "deref_mut"),
    ("std::convert::AsRef", "as_ref"),
    ("std::convert::AsMut", "as_mut"),
    ("std::borrow::Borrow", "borrow"),
    ("std::borrow::BorrowMut", "borrow_mut"),
    ("std::string::String", "as_str"),
    ("std::string::String", "as_bytes"),
    ("std::string::String", "as_mut_str"),
    ("std::vec::Vec", "as_slice"),
    ("std::vec::Vec", "as_mut_slice"),
    ("str", "as_bytes"),
    ("std::option::Option", "as_ref"),
    ("std::option::Option", "as_mut"),
    ("std::option::Option", "as_deref"),
    ("std::option::Option", "as_deref_mut"),
    ("std::result::Result", "as_ref"),
    ("std::result::Result", "as_mut"),
    ("std::sync::Arc", "as_ref"),
    ("std::boxed::Box", "as_ref"),
    ("std::boxed::Box", "as_mut"),
    ("std::ffi::CStr", "as_ptr"),
    ("std::convert::Into", "into"),
    ("std::convert::From", "from"),
    ("std::iter::IntoIterator", "into_iter"),
    ("std::vec::Vec", "iter"),
    ("std::vec::Vec", "iter_mut"),
    ("slice", "iter"),
    ("slice", "iter_mut"),
}

# value-preserving copies: peeled only when the rule asks for it (copies=True)
COPIES = {
    ("std::clone::Clone", "clone"),
    ("std::borrow::ToOwned", "to_owned"),
    ("std::string::ToString", "to_string"),
    ("str", "to_string"),
    ("str", "to_owned"),
    ("std::string::String", "clone"),
    ("slice", "to_vec"),
    ("std::vec::Vec", "clone"),
    ("std::option::Option", "cloned"),
    ("std::option::Option", "copied"),
    ("std::iter::Iterator", "cloned"),
    ("std::iter::Iterator", "copied"),
}


def callee_kind(cal):
    """(group, name) keys used by the tables above: by trait first, then by ADT / primitive."""
    keys = []
    if cal.def_trait:
        keys.append((cal.def_trait, cal.name))
    if cal.trait:
        keys.append((cal.trait, cal.name))
    if cal.adt:
        keys.append((cal.adt, cal.name))
    st = cal.self_ty or ""
    base = st.lstrip("&").replace("mut ", "")
    if base == "str" or cal.path.startswith("core::str::<impl str>") or cal.path.startswith("std::str::<impl str>") or "<impl str>" in cal.path:
        keys.append(("str", cal.name))
    if "<impl [T]>" in cal.path or base.startswith("["):
        keys.append(("slice", cal.name))
    return keys


def call_key(cal):
    """Canonical, generics-free name of a callee for use in expressions."""
    if "<impl str>" in cal.path:
        return "str::%s" % cal.name
    if "<impl [T]>" in cal.path:
        return "slice::%s" % cal.name
    if cal.local:
        if cal.adt and cal.trait:
            return "<%s as %s>::%s" % (cal.adt, cal.trait, cal.name)
        if cal.adt:
            return "%s::%s" % (cal.adt, cal.name)
        return cal.key()
    if cal.def_trait:
        # foreign trait method: key by the trait (e.g. std::cmp::PartialOrd::ge) plus receiver ADT
        if cal.adt:
            return "<%s as %s>::%s" % (cal.adt, cal.def_trait, cal.name)
        return "%s::%s" % (cal.def_trait, cal.name)
    return cal.key()


_PROMOTED_CACHE = {}


def promoted_value(fn, owner_path, idx):
    """Value expression of promoted constant `idx` of `fn` (e.g. `&"add"` -> ("const","add"))."""
    key = (id(fn.facts), owner_path, idx)
    if key in _PROMOTED_CACHE:
        return _PROMOTED_CACHE[key]
    from .core import Fn
    owner = fn if fn.path == owner_path else (fn.facts.fns.get(owner_path) or getattr(fn.facts, "dropped", {}).get(owner_path))
    res = ("const", ("promoted", owner_path, idx))
    if owner is not None:
        proms = owner.j.get("promoted") or []
        if idx < len(proms):
            pj = dict(owner.j)
            pj.update(proms[idx])
            pj["promoted"] = []
            pf = Fn(fn.facts, pj)
            _PROMOTED_CACHE[key] = res  # recursion guard
            try:
                res = Prov(pf).local(0)
            except Exception:
                pass
    _PROMOTED_CACHE[key] = res
    return res


def const_expr(fn, k):
    if "str" in k:
        return ("const", k["str"])
    if "int" in k:
        return ("const", k["int"])
    if "bool" in k:
        return ("const", k["bool"])
    if "char" in k:
        return ("const", chr(k["char"]))
    if "fn" in k:
        return ("const", ("fn", call_key(Callee(k["fn"]))))
    if "static" in k:
        return ("const", ("static", k["static"]))
    if "const" in k:
        if "promoted" in k:
            return promoted_value(fn, k["const"], k["promoted"])
        if "bytes" in k:
            return ("const", ("named", k["const"], tuple(k["bytes"])))
        if "int" in k:
            return ("const", k["int"])
        return ("const", ("named", k["const"]))
    if "zst" in k:
        return ("const", ("zst", fn.facts.types[k["ty"]].get("s")))
    if "bytes" in k:
        return ("const", ("bytes", tuple(k["bytes"])))
    return ("const", ("other", fn.facts.types[k["ty"]].get("s")))


class Prov:
    def __init__(self, fn, copies=False, peel=True, sites=False, extra_peel=()):
        self.fn = fn
        self.copies = copies
        self.peel = peel
        self.sites = sites
        self.extra_peel = set(extra_peel)
        self._memo = {}
        self._active = set()
        self.defs = fn.defs()
        # partial definitions (assignment through a projection of the local), by local
        self.partial = {}
        for bi, si, st in fn.assigns():
            l, projs = st["p"]
            if projs:
                self.partial.setdefault(l, []).append((bi, si, st))

    # -- public -----------------------------------------------------------------------
    def operand(self, op):
        if "k" in op:
            return self.const(op["k"])
        p = op_place(op)
        if p is None:
            return ("unknown", "operand")
        return self.place(p)

    def const(self, k):
        return const_expr(self.fn, k)

    def place(self, place):
        l, projs = place
        e = self.local(l)
        for p in projs:
            e = self.project(e, p)
        return e

    def project(self, e, p):
        if p == "*":
            return e
        k = p[0]
        if k == "f":
            name = p[2] if len(p) > 2 else str(p[1])
            adt = p[3] if len(p) > 3 else None
            if e[0] == "agg":
                for n, fe in e[3]:
                    if n == name or n == str(p[1]):
                        return fe
            return ("field", e, name, adt)
        if k == "d":
            return ("variant", e, p[1])
        if k == "i":
            return ("index", e, self.local(p[1]))
        if k == "ci":
            return ("index", e, ("const", -p[1] if p[3] else p[1]))
        if k == "ss":
            return ("subslice", e, p[1], p[2], p[3])
        return ("proj?", e)

    def local(self, l):
        if l in self._memo:
            return self._memo[l]
        fn = self.fn
        ds = self.defs.get(l, [])
        if 1 <= l <= fn.argc and not ds:
            e = ("param", l)
            self._memo[l] = e
            return e
        if not ds:
            e = ("local", l)
            self._memo[l] = e
            return e
        multi = len(ds) > 1 or (1 <= l <= fn.argc)
        if multi:
            # cycles in the def-use graph always pass through a multiply-defined local: break there,
            # so that the result does not depend on where the query entered the cycle
            if l in self._active:
                return ("local", l)
            self._active.add(l)
        try:
            es = []
            for d in ds:
                es.append(self.def_expr(d))
            if 1 <= l <= fn.argc:
                es.append(("param", l))
            es = tuple(sorted(set(es), key=repr))
            e = es[0] if len(es) == 1 else ("phi", es)
        finally:
            if multi:
                self._active.discard(l)
        if not self._active:
            self._memo[l] = e
        return e

    def def_expr(self, d):
        bi, si = d
        b = self.fn.blocks[bi]
        if si == "term":
            return self.call_expr(bi, b["term"])
        return self.rvalue(b["st"][si]["r"])

    def call_expr(self, bi, t):
        if "f" not in t:
            return ("call", "<fnptr>", tuple(self.operand(a) for a in t["args"]))
        cal = Callee(t["f"])
        args = tuple(self.operand(a) for a in t["args"])
        if self.peel and args:
            for key in callee_kind(cal):
                if key in PASS_THROUGH or key in self.extra_peel or (self.copies and key in COPIES):
                    return args[0]
        key = call_key(cal)
        if self.sites:
            return ("call", key, args, bi)
        return ("call", key, args)

    def rvalue(self, r):
        k = r["k"]
        if k == "use":
            return self.operand(r["o"])
        if k in ("ref", "rawptr"):
            return self.place(r["p"])
        if k == "cast":
            inner = self.operand(r["o"])
            ck = r.get("cast", "")
            if "Unsize" in ck or "PtrToPtr" in ck or "MutToConstPointer" in ck or "Subtype" in ck or "ReifyFnPointer" in ck or "ClosureFnPointer" in ck:
                return inner
            return ("cast", inner)
        if k == "bin":
            return ("bin", r["op"], self.operand(r["a"]), self.operand(r["b"]))
        if k == "un":
            return ("un", r["op"], self.operand(r["a"]))
        if k == "disc":
            return ("disc", self.place(r["p"]))
        if k == "agg":
            names = r.get("names") or [str(i) for i in range(len(r["fields"]))]
            if len(names) != len(r["fields"]):
                names = [str(i) for i in range(len(r["fields"]))]
            fields = tuple((n, self.operand(o)) for n, o in zip(names, r["fields"]))
            kind = r.get("adt") or r.get("def") or r.get("agg")
            return ("agg", kind, r.get("variant"), fields)
        if k == "repeat":
            return ("repeat", self.operand(r["o"]))
        return ("unknown", k)


# ----------------------------------------------------------------------------------------
# expression utilities
# ----------------------------------------------------------------------------------------
def walk(e):
    """Yield every sub-expression (pre-order)."""
    st = [e]
    while st:
        x = st.pop()
        if not isinstance(x, tuple):
            continue
        yield x
        tag = x[0] if x else None
        if tag in ("field", "variant", "cast", "disc", "repeat", "proj?", "subslice"):
            st.append(x[1])
        elif tag == "index":
            st.append(x[1])
            st.append(x[2])
        elif tag == "call":
            st.extend(x[2])
        elif tag == "bin":
            st.append(x[2])
            st.append(x[3])
        elif tag == "un":
            st.append(x[2])
        elif tag == "agg":
            for _, fe in x[3]:
                st.append(fe)
        elif tag == "phi":
            st.extend(x[1])


def mentions(e, pred):
    for x in walk(e):
        if pred(x):
            return True
    return False


def mentions_field(e, name, adt=None):
    return mentions(e, lambda x: len(x) > 3 and x[0] == "field" and x[2] == name and (adt is None or x[3] == adt))


def mentions_param(e, k):
    return mentions(e, lambda x: x == ("param", k))


def mentions_call(e, key_substr):
    return mentions(e, lambda x: x[0] == "call" and key_substr in x[1])


def calls_in(e):
    return [x for x in walk(e) if x[0] == "call"]


def consts_in(e):
    return [x[1] for x in walk(e) if x[0] == "const"]


def phi_parts(e):
    if isinstance(e, tuple) and e and e[0] == "phi":
        out = []
        for p in e[1]:
            out.extend(phi_parts(p))
        return out
    return [e]


def show(e, fn=None, depth=0):
    if not isinstance(e, tuple) or not e:
        return repr(e)
    t = e[0]
    if depth > 6:
        return "…"
    if t == "param":
        if fn is not None:
            return fn.local_name(e[1]) or "arg%d" % e[1]
        return "arg%d" % e[1]
    if t == "local":
        if fn is not None and fn.local_name(e[1]):
            return fn.local_name(e[1])
        return "_%d" % e[1]
    if t == "havoc":
        return "%s'" % ((fn.local_name(e[1]) if fn is not None else None) or "_%d" % e[1])
    if t == "field":
        return "%s.%s" % (show(e[1], fn, depth + 1), e[2])
    if t == "variant":
        return "(%s as %s)" % (show(e[1], fn, depth + 1), e[2])
    if t == "index":
        return "%s[%s]" % (show(e[1], fn, depth + 1), show(e[2], fn, depth + 1))
    if t == "call":
        short = e[1].split("::")[-1] if "::" in e[1] else e[1]
        owner = e[1].rsplit("::", 1)[0].split("::")[-1] if "::" in e[1] else ""
        return "%s::%s(%s)" % (owner, short, ", ".join(show(a, fn, depth + 1) for a in e[2]))
    if t == "const":
        return repr(e[1])
    if t == "bin":
        return "(%s %s %s)" % (show(e[2], fn, depth + 1), e[1], show(e[3], fn, depth + 1))
    if t == "un":
        return "%s(%s)" % (e[1], show(e[2], fn, depth + 1))
    if t == "cast":
        return "cast(%s)" % show(e[1], fn, depth + 1)
    if t == "disc":
        return "disc(%s)" % show(e[1], fn, depth + 1)
    if t == "agg":
        return "%s{%s}" % ((e[1] or "").split("::")[-1] + (("::" + e[2]) if e[2] else ""), ", ".join("%s: %s" % (n, show(v, fn, depth + 1)) for n, v in e[3]))
    if t == "phi":
        return "phi(%s)" % " | ".join(show(p, fn, depth + 1) for p in e[1])
    return repr(e)


def container_fills(fn):
    """{block of the `Vec::new()` / `with_capacity` call that created a vector: [values pushed into it]},
    from a site-sensitive provenance (each creation site is a distinct container)."""
    pv = Prov(fn, copies=True, sites=True)
    fills = {}
    for bi, t, cal in fn.calls():
        if cal is None or cal.adt != "std::vec::Vec" or cal.name not in ("push", "insert", "extend", "extend_from_slice", "append") or len(t["args"]) < 2:
            continue
        recv = pv.operand(t["args"][0])
        if recv[0] == "call" and recv[1] in ("std::vec::Vec::new", "std::vec::Vec::with_capacity") and len(recv) == 4:
            fills.setdefault(recv[3], []).append(pv.operand(t["args"][-1]))
    return pv, fills


def mentions_through_containers(expr, pred, fills, depth=0):
    """`expr` mentions something satisfying `pred`, directly or as an element pushed into a vector
    that `expr` mentions (site-sensitive expressions from container_fills)."""
    if mentions(expr, pred):
        return True
    if depth > 3:
        return False
    for x in walk(expr):
        if x[0] == "call" and len(x) == 4 and x[1] in ("std::vec::Vec::new", "std::vec::Vec::with_capacity"):
            for v in fills.get(x[3], ()):
                if mentions_through_containers(v, pred, fills, depth + 1):
                    return True
    return False


def resolve_captures(expr, closure_fn, copies=True):
    """Replace captured-variable reads inside a closure body (`field(_, name, "{closure}")`) by
    the provenance of the parent's local of that name."""
    parent = closure_fn.facts.fns.get(closure_fn.parent)
    if parent is None:
        return expr
    pv = Prov(parent, copies=copies)
    names = {}
    for l, (tix, name, user, mut) in enumerate(parent.locals):
        if name and name not in names:
            names[name] = l

    def rec(e):
        if not isinstance(e, tuple) or not e:
            return e
        if e[0] == "field" and e[3] == "{closure}":
            base = e[2].split("__")[0] if e[2] else e[2]
            # captured places print as `var` or `var.field`; take the variable
            var = (e[2] or "").replace("_ref__", "").split(".")[0]
            for cand in (e[2], var, base):
                if cand in names:
                    return pv.local(names[cand])
            # edition-2021 disjoint captures: `_ref__var__field__field`
            parts = [x for x in (e[2] or "").replace("_ref__", "", 1).split("__") if x]
            if parts and parts[0] in names:
                out = pv.local(names[parts[0]])
                for fld in parts[1:]:
                    out = ("field", out, fld, None)
                return out
            return e
        return tuple(rec(x) if isinstance(x, tuple) else x for x in e)
    return rec(expr)


def decode_fmt_template(bs):
    """Decode the byte template of `core::fmt::Arguments::new` (this nightly's format_args
    lowering): a length byte < 0x80 followed by that many literal bytes; 0xC0 = `{}`; 0 = end.
    Returns the list of pieces (literal strings and "{}")."""
    out = []
    i = 0
    bs = list(bs)
    while i < len(bs):
        b = bs[i]
        if b == 0:
            break
        if b < 0x80:
            out.append(bytes(bs[i + 1:i + 1 + b]).decode("utf-8", "replace"))
            i += 1 + b
        elif b == 0xC0:
            out.append("{}")
            i += 1
        else:
            out.append("{?}")
            i += 1
    return out


def format_templates(fn):
    """Decoded templates of every format_args! in fn (and its closures)."""
    out = []
    for b in fn.all_bodies():
        pv = Prov(b)
        for bi, t, cal in b.calls():
            if cal and cal.adt == "std::fmt::Arguments" and cal.name in ("new", "new_const", "new_v1", "from_str") and t["args"]:
                e = pv.operand(t["args"][0])
                if e[0] == "const" and isinstance(e[1], tuple) and e[1] and e[1][0] == "bytes":
                    out.append(decode_fmt_template(e[1][1]))
                elif e[0] == "const" and isinstance(e[1], str):
                    out.append([e[1]])
    return out
