"""riolib.report — obligations, violations, known findings, evidence and replay files."""
import json
import os
import shutil
import time

VERIF = os.path.dirname(os.path.dirname(os.path.abspath(__file__)))
EVIDENCE_DIR = os.environ.get("VERIF_EVIDENCE_DIR") or os.path.join(VERIF, "evidence")
REPLAY_DIR = os.path.join(EVIDENCE_DIR, "replay")
KNOWN_FILE = os.path.join(VERIF, "known_findings.json")


T_START = time.time()


class Obligation:
    __slots__ = ("rule", "key", "ok", "site", "detail", "data")

    def __init__(self, rule, key, ok, site, detail, data):
        self.rule = rule
        self.key = key
        self.ok = ok
        self.site = site
        self.detail = detail
        self.data = data

    def to_json(self):
        d = {"rule": self.rule, "key": self.key, "ok": self.ok, "site": self.site, "detail": self.detail}
        if self.data is not None:
            d["data"] = self.data
        return d


class Rule:
    def __init__(self, ctx, rid, title, floor=0, statement=""):
        self.ctx = ctx
        self.id = rid
        self.title = title
        self.floor = floor
        self.statement = statement
        self.obs = []
        self.analysed_fns = set()
        self.exceptions_used = []
        self.notes = []

    def ob(self, key, ok, site="", detail="", data=None):
        """Record one obligation instance.  `key` must be free of line numbers."""
        self.obs.append(Obligation(self.id, key, bool(ok), site, detail, data))
        return bool(ok)

    def analysed(self, *fns):
        for f in fns:
            self.analysed_fns.add(f if isinstance(f, str) else f.key)

    def exception(self, key, reason):
        self.exceptions_used.append({"key": key, "reason": reason})

    def note(self, s):
        self.notes.append(s)

    def missing(self, what):
        """A missing anchor: fail closed."""
        self.ob("anchor:" + what, False, "", "anchor not found (rule would pass vacuously): " + what)

    def finish(self):
        """Check the instance floor."""
        n = len([o for o in self.obs if not o.key.startswith("anchor:") and not o.key.startswith("floor:")])
        if n < self.floor:
            self.ob("floor:%s" % self.id, False, "", "only %d instances found, floor is %d (rule would pass vacuously)" % (n, self.floor))


class Context:
    def __init__(self, prop, tier, facts, seed=0, get_facts=None):
        self.prop = prop
        self.tier = tier
        self.facts = facts
        self.seed = seed
        self.rules = []
        self.t0 = T_START
        self.get_facts = get_facts
        self.extra = {}
        self.configs = []

    def rule(self, rid, title, floor=0, statement=""):
        r = Rule(self, rid, title, floor, statement)
        self.rules.append(r)
        return r

    def run_rule(self, rid, title, fn, floor=0, statement=""):
        """Run `fn(rule)`; a MissingAnchor or extraction failure is a fail-closed violation."""
        from .core import MissingAnchor
        from .sym import TooManyPaths
        r = self.rule(rid, title, floor, statement)
        try:
            fn(r)
        except MissingAnchor as e:
            r.missing(str(e))
        except TooManyPaths as e:
            r.ob("extract:%s" % rid, False, "", "cannot extract decision table: %s" % e)
        r.finish()
        return r


def load_known():
    if not os.path.exists(KNOWN_FILE):
        return []
    with open(KNOWN_FILE) as fh:
        return json.load(fh).get("findings", [])


def finalize(ctx, configs=None, extra_violations=None):
    """Print report, write evidence + replay files, return exit code."""
    os.makedirs(REPLAY_DIR, exist_ok=True)
    known = [k for k in load_known() if k.get("property") == ctx.prop]
    known_map = {(k["rule"], k["key"]): k for k in known if k.get("status") == "known"}
    total = 0
    discharged = 0
    violations = []
    known_hits = []
    rules_json = []
    samples = []
    fns = set()
    for r in ctx.rules:
        total += len(r.obs)
        bad = [o for o in r.obs if not o.ok]
        good = [o for o in r.obs if o.ok]
        discharged += len(good)
        fns |= r.analysed_fns
        for o in bad:
            kf = known_map.get((o.rule, o.key))
            if kf is not None:
                known_hits.append((o, kf))
            else:
                violations.append(o)
        rules_json.append({
            "rule": r.id,
            "title": r.title,
            "statement": r.statement,
            "instances": len(r.obs),
            "floor": r.floor,
            "failed": len(bad),
            "functions_analysed": len(r.analysed_fns),
            "exceptions_used": r.exceptions_used,
            "notes": r.notes,
        })
        for o in (good[:2] + bad[:3]):
            samples.append(o.to_json())
    for o in (extra_violations or []):
        violations.append(o)
    # stale known findings are reported (not an error): the defect may have been fixed
    hit_keys = {(o.rule, o.key) for o, _ in known_hits}
    for (rid, key), kf in known_map.items():
        if (rid, key) not in hit_keys:
            print("note: known finding %s %s no longer reproduces on this tree" % (rid, key))
    for o, kf in known_hits:
        print("KNOWN-FINDING: property=%s %s [%s %s] %s" % (ctx.prop, kf.get("what_fails", o.detail), o.rule, o.key, o.site))
    replay_paths = []
    for n, o in enumerate(violations):
        path = os.path.join(REPLAY_DIR, "%s-%d.json" % (ctx.prop, n))
        with open(path, "w") as fh:
            json.dump({"property": ctx.prop, "rule": o.rule, "key": o.key, "site": o.site, "detail": o.detail, "data": o.data}, fh, indent=1, default=str)
        replay_paths.append(path)
        print("---- %s violated" % o.rule)
        print("  instance : %s" % o.key)
        print("  site     : %s" % o.site)
        print("  detail   : %s" % o.detail)
        print("VIOLATION property=%s replay=%s" % (ctx.prop, path))
    wall = time.time() - ctx.t0
    ev = {
        "property_id": ctx.prop,
        "tier": ctx.tier,
        "seed": ctx.seed,
        "level": "other",
        "coverage": {
            "explanation": ("Static analysis of /repo's type-checked MIR (riofacts driver under cargo +nightly check): "
                            "%d rules generated %d obligations (rule instances found in the current source), %d discharged, "
                            "%d known findings, %d violations. Each rule decides a structural necessary condition of the property "
                            "(see DESIGN.md); it does not decide the behavioural statement as a whole."
                            % (len(ctx.rules), total, discharged, len(known_hits), len(violations))),
            "obligations": total,
            "discharged": discharged,
            "known_findings": [{"rule": o.rule, "key": o.key, "site": o.site} for o, _ in known_hits],
            "rules": rules_json,
            "functions_analysed": len(fns),
            "bodies_in_fact_file": len(ctx.facts.fn_list) if ctx.facts else 0,
            "configurations": configs or ctx.configs,
            "samples": samples[:40],
            "checker_cmd": "./check %s --tier %s" % (ctx.prop, ctx.tier),
            "trusted_base": [
                "rustc nightly MIR construction / Instance::try_resolve / const evaluation",
                "frozen std-API tables in riolib (panicking APIs, pass-through callees, hash-ordered containers)",
                "reference decision tables and exception tables in /verif/rules (derived by reading)",
            ],
            "exhaustive": False,
        },
        "assumptions": [
            "MIR at mir-opt-level=0 of the debug profile represents the shipped source",
            "src/wasm_api.rs is not compiled on this target and is not analysed",
        ],
        "wall_s": round(wall, 3),
        "violations": len(violations),
    }
    ev["coverage"].update(ctx.extra)
    os.makedirs(EVIDENCE_DIR, exist_ok=True)
    tmp = os.path.join(EVIDENCE_DIR, "%s.json.tmp.%d" % (ctx.prop, os.getpid()))
    with open(tmp, "w") as fh:
        json.dump(ev, fh, indent=1, default=str)
    os.replace(tmp, os.path.join(EVIDENCE_DIR, "%s.json" % ctx.prop))
    if ctx.tier == "thorough":
        # keep the last thorough-tier evidence next to the (more frequently rewritten) quick one
        os.makedirs(os.path.join(EVIDENCE_DIR, "thorough"), exist_ok=True)
        shutil.copyfile(os.path.join(EVIDENCE_DIR, "%s.json" % ctx.prop), os.path.join(EVIDENCE_DIR, "thorough", "%s.json" % ctx.prop))
    print("%s: %d rules, %d obligations, %d discharged, %d known findings, %d violations (%.1fs)" % (
        ctx.prop, len(ctx.rules), total, discharged, len(known_hits), len(violations), wall))
    return 1 if violations else 0
