"""riolib.sym — P4: path-sensitive abstract interpretation of one MIR body (or a region of it).

Acyclic paths are enumerated forward from a start block; every block is entered at most once per
path (so a loop body is seen as "one iteration").  Values are the expression trees of
riolib.prov, built forward (so the reaching definition of a user variable is exact on the path).
Every `SwitchInt` forks with a recorded, consistent assumption; switches on constants (drop
flags) do not fork.  No solver, no concrete execution: the result is a finite enumeration of
(assumptions -> ordered effects).
"""
from .core import Callee, op_place, span_line
from .prov import PASS_THROUGH, COPIES, callee_kind, call_key, const_expr


class TooManyPaths(Exception):
    pass


class Path:
    __slots__ = ("conds", "events", "end", "blocks")

    def __init__(self, conds, events, end, blocks):
        self.conds = conds  # list of (atom expr, value)
        self.events = events  # list of event tuples
        self.end = end  # ("ret", expr) | ("stop", block) | ("loop", block) | ("diverge", block)
        self.blocks = blocks

    def cond_map(self):
        return dict(self.conds)

    def calls(self, pred=None):
        return [e for e in self.events if e[0] == "call" and (pred is None or pred(e))]


CONTAINERS = {
    "std::vec::Vec", "std::collections::HashMap", "std::collections::BTreeMap", "std::collections::HashSet",
    "std::collections::BTreeSet", "std::string::String", "std::collections::VecDeque", "linked_hash_set::LinkedHashSet",
}


class Sym:
    def __init__(self, fn, copies=False, extra_peel=(), max_paths=20000, no_peel=(), stateful=True):
        self.fn = fn
        self.stateful = stateful
        # named mutable locals holding a container keep their identity (their content is state)
        self.stateful_locals = set()
        if stateful:
            for l, (tix, name, user, mut) in enumerate(fn.locals):
                if name and mut and l > fn.argc and fn.facts.types[tix].get("adt") in CONTAINERS:
                    self.stateful_locals.add(l)
        self.container_locals = {l for l, (tix, name, user, mut) in enumerate(fn.locals) if fn.facts.types[tix].get("adt") in CONTAINERS}
        # temp -> named locals it mutably borrows (directly, or through a closure aggregate)
        self.mut_alias = {}
        changed = True
        while changed:
            changed = False
            for bi, si, st in fn.assigns():
                l, projs = st["p"]
                if projs:
                    continue
                r = st["r"]
                new = set()
                if r["k"] == "ref" and r.get("mut") and "*" not in r["p"][1]:
                    new.add(r["p"][0])
                    new |= self.mut_alias.get(r["p"][0], set())
                elif r["k"] == "ref" and r.get("mut"):
                    new |= self.mut_alias.get(r["p"][0], set())
                elif r["k"] in ("use", "cast"):
                    pl = op_place(r["o"])
                    if pl is not None:
                        new |= self.mut_alias.get(pl[0], set())
                elif r["k"] == "agg":
                    for o in r["fields"]:
                        pl = op_place(o)
                        if pl is not None:
                            new |= self.mut_alias.get(pl[0], set())
                if new and not new <= self.mut_alias.get(l, set()):
                    self.mut_alias.setdefault(l, set()).update(new)
                    changed = True
        self.copies = copies
        self.extra_peel = set(extra_peel)
        self.no_peel = set(no_peel)
        self.max_paths = max_paths
        self._prov = None
        self._outside = {}

    def _single_def(self, l):
        """the statement that is the only definition of temporary `l` (no call defines it), or None"""
        fn = self.fn
        if 1 <= l <= fn.argc or fn.local_name(l):
            return None
        d = fn.defs().get(l, [])
        if len(d) != 1 or d[0][1] == "term":
            return None
        return fn.blocks[d[0][0]]["st"][d[0][1]]

    def _static_target(self, place, depth=0):
        """`*r = v` where the temporary `r` can only be `&mut x` — directly, through moves, or as the field
        of a closure aggregate that captured `&mut x` (an inlined closure writing a captured variable) —
        is an assignment to `x`: the place written, with such references followed."""
        l, projs = place
        if not projs or depth > 8:
            return place
        cache = self.__dict__.setdefault("_targets", {})
        key = (l, _pkey(projs))
        if key in cache:
            return cache[key]
        out = place
        st = self._single_def(l)
        if st is not None and not st["p"][1]:
            r = st["r"]
            if projs[0] == "*" and r["k"] == "ref" and "*" not in r["p"][1]:
                out = self._static_target([r["p"][0], list(r["p"][1]) + list(projs[1:])], depth + 1)
            elif r["k"] in ("use", "cast") and op_place(r["o"]) is not None:
                pl = op_place(r["o"])
                out = self._static_target([pl[0], list(pl[1]) + list(projs)], depth + 1)
            elif r["k"] == "agg" and isinstance(projs[0], list) and projs[0][0] == "f" and r.get("agg") == "closure" or (r["k"] == "agg" and isinstance(projs[0], list) and projs[0][0] == "f" and len(projs[0]) > 3 and projs[0][3] == "{closure}"):
                idx = projs[0][1]
                if isinstance(idx, int) and idx < len(r["fields"]):
                    pl = op_place(r["fields"][idx])
                    if pl is not None and not pl[1]:
                        out = self._static_target([pl[0], list(projs[1:])], depth + 1)
        # only a whole named local (or a field of it) is worth redirecting to
        if out is not place:
            tl = out[0]
            if not (self.fn.local_name(tl) and tl > self.fn.argc and "*" not in [p for p in out[1] if p == "*"]):
                out = place
        cache[key] = out
        return out

    # -- expression evaluation in an environment ------------------------------------------
    def const(self, k):
        return const_expr(self.fn, k)

    def local(self, env, l):
        if l in env:
            return env[l]
        if 1 <= l <= self.fn.argc:
            return ("param", l)
        # an anonymous temporary with a single definition that the path did not execute was defined
        # before the region the path starts in: its value is its provenance
        if l not in self.stateful_locals and not self.fn.local_name(l):
            v = self._outside.get(l)
            if v is None:
                v = ("local", l)
                defs = self.fn.defs().get(l, [])
                if len(defs) == 1:
                    try:
                        if self._prov is None:
                            from .prov import Prov
                            self._prov = Prov(self.fn, copies=self.copies)
                        v = self._prov.local(l)
                    except Exception:
                        v = ("local", l)
                self._outside[l] = v
            return v
        return ("local", l)

    def place(self, env, place):
        l, projs = place
        key = (l, _pkey(projs))
        if projs and key in env:
            return env[key]
        e = self.local(env, l)
        for i, p in enumerate(projs):
            e = self.project(env, e, p)
            sub = (l, _pkey(projs[: i + 1]))
            if sub in env and i + 1 < len(projs):
                e = env[sub]
        return e

    def project(self, env, e, p):
        if p == "*":
            return e
        k = p[0]
        if k == "f":
            name = p[2] if len(p) > 2 else str(p[1])
            adt = p[3] if len(p) > 3 else None
            if e[0] == "agg":
                for n, fe in e[3]:
                    if n == name or n == str(p[1]):
                        return fe
            if e[0] == "variant" and e[1][0] == "agg" and e[1][2] == e[2]:
                for n, fe in e[1][3]:
                    if n == name or n == str(p[1]):
                        return fe
            return ("field", e, name, adt)
        if k == "d":
            return ("variant", e, p[1])
        if k == "i":
            return ("index", e, self.local(env, p[1]))
        if k == "ci":
            return ("index", e, ("const", -p[1] if p[3] else p[1]))
        if k == "ss":
            return ("subslice", e, p[1], p[2], p[3])
        return ("proj?", e)

    def operand(self, env, op):
        if "k" in op:
            return self.const(op["k"])
        p = op_place(op)
        if p is None:
            return ("unknown", "operand")
        return self.place(env, p)

    def rvalue(self, env, r):
        k = r["k"]
        if k == "use":
            return self.operand(env, r["o"])
        if k in ("ref", "rawptr"):
            return self.place(env, r["p"])
        if k == "cast":
            inner = self.operand(env, r["o"])
            ck = r.get("cast", "")
            if any(x in ck for x in ("Unsize", "PtrToPtr", "MutToConstPointer", "Subtype", "ReifyFnPointer", "ClosureFnPointer")):
                return inner
            return ("cast", inner)
        if k == "bin":
            return ("bin", r["op"], self.operand(env, r["a"]), self.operand(env, r["b"]))
        if k == "un":
            a = self.operand(env, r["a"])
            if r["op"] == "Not" and a[0] == "const" and isinstance(a[1], bool):
                return ("const", not a[1])
            if r["op"] == "Not" and a[0] == "un" and a[1] == "Not":
                return a[2]
            return ("un", r["op"], a)
        if k == "disc":
            return ("disc", self.place(env, r["p"]), r.get("adt"))
        if k == "agg":
            names = r.get("names") or [str(i) for i in range(len(r["fields"]))]
            if len(names) != len(r["fields"]):
                names = [str(i) for i in range(len(r["fields"]))]
            fields = tuple((n, self.operand(env, o)) for n, o in zip(names, r["fields"]))
            kind = r.get("adt") or r.get("def") or r.get("agg")
            return ("agg", kind, r.get("variant"), fields)
        if k == "repeat":
            return ("repeat", self.operand(env, r["o"]))
        return ("unknown", k)

    # -- path enumeration -----------------------------------------------------------------
    def paths(self, start=0, stops=(), env=None, assume=None, region=None):
        """Enumerate paths from `start`.  `stops`: blocks at which a path ends with ("stop", b).
        `region`: if given, stepping to a block outside it ends the path with ("exit", b).
        `assume`: initial {atom: value} assumptions."""
        self._out = []
        self._stops = set(stops)
        self._region = set(region) if region is not None else None
        self._walk(start, dict(env or {}), dict(assume or {}), [], [], [], frozenset())
        return self._out

    def _finish(self, conds, events, end, blocks):
        self._out.append(Path(list(conds), list(events), end, list(blocks)))
        if len(self._out) > self.max_paths:
            raise TooManyPaths("%s: more than %d paths" % (self.fn.key, self.max_paths))

    def _variant_name(self, adt, idx):
        a = self.fn.facts.adts.get(adt)
        if a and idx < len(a["variants"]):
            return a["variants"][idx]["name"]
        if adt == "std::option::Option":
            return ["None", "Some"][idx] if idx < 2 else idx
        if adt == "std::result::Result":
            return ["Ok", "Err"][idx] if idx < 2 else idx
        if adt == "std::ops::ControlFlow":
            return ["Continue", "Break"][idx] if idx < 2 else idx
        if adt == "std::cmp::Ordering":
            return {255: "Less", 0: "Equal", 1: "Greater", -1: "Less"}.get(idx, idx)
        return idx

    def _walk(self, b, env, known, conds, events, blocks, visited):
        fn = self.fn
        while True:
            if b in self._stops and blocks:
                self._finish(conds, events, ("stop", b), blocks + [b])
                return
            if self._region is not None and b not in self._region and blocks:
                self._finish(conds, events, ("exit", b), blocks + [b])
                return
            if b in visited:
                self._finish(conds, events, ("loop", b), blocks + [b])
                return
            visited = visited | {b}
            blocks = blocks + [b]
            blk = fn.blocks[b]
            for st in blk["st"]:
                k = st["k"]
                if k == "A":
                    l, projs = self._static_target(st["p"])
                    val = self.rvalue(env, st["r"])
                    if not projs:
                        env = dict(env)
                        env[l] = val
                        if l in self.stateful_locals:
                            events = events + [("init", l, fn.local_name(l), val, b, span_line(st["s"]))]
                            del env[l]
                        # forget stale partial knowledge about l
                        for key in [x for x in env if isinstance(x, tuple) and x[0] == l]:
                            del env[key]
                        if fn.local_name(l) and l != 0 and l not in self.stateful_locals:
                            events = events + [("set", l, fn.local_name(l), val, b, span_line(st["s"]))]
                    else:
                        env = dict(env)
                        env[(l, _pkey(projs))] = val
                        base = self.place(env, [l, [p for p in projs[:-1]]]) if projs else None
                        if "*" in projs or 1 <= l <= fn.argc:
                            events = events + [("write", self._place_expr(env, st["p"]), val, b, span_line(st["s"]))]
                        else:
                            events = events + [("lwrite", self._place_expr(env, st["p"]), val, b, span_line(st["s"]))]
                elif k == "SD":
                    pass
            t = blk["term"]
            k = t["k"]
            if k == "goto":
                b = t["t"]
                continue
            if k in ("drop", "assert"):
                if k == "drop":
                    events = events + [("drop", self.place(env, t["p"]), b, span_line(t["s"]))]
                b = t["t"]
                continue
            if k == "ret":
                events = events + [("ret", self.local(env, 0), b)]
                self._finish(conds, events, ("ret", self.local(env, 0)), blocks)
                return
            if k == "call":
                args = tuple(self.operand(env, a) for a in t["args"])
                if "f" in t:
                    cal = Callee(t["f"])
                    key = call_key(cal)
                    val = None
                    if args:
                        for ck in callee_kind(cal):
                            if ck in self.no_peel:
                                break
                            if ck in PASS_THROUGH or ck in self.extra_peel or (self.copies and ck in COPIES):
                                val = args[0]
                                break
                    if val is None:
                        val = simplify_call(key, args)
                else:
                    cal = None
                    key = "<fnptr>"
                    val = ("call", key, (self.operand(env, t["fp"]),) + args)
                events = events + [("call", key, args, val, b, span_line(t["s"]), cal)]
                # a callee that received a mutable reference may have changed what it points to:
                # earlier assumptions about values read through it no longer hold
                stale_roots = set()
                for a_op, a_val in zip(t["args"], args):
                    pl = op_place(a_op)
                    if pl is None or pl[1]:
                        continue
                    aty = fn.facts.types[fn.locals[pl[0]][0]]
                    if aty.get("k") == "ref" and aty.get("mut"):
                        root = a_val
                        while isinstance(root, tuple) and root and root[0] in ("field", "variant", "index", "cast"):
                            root = root[1]
                        if isinstance(root, tuple) and root and root[0] in ("param", "local"):
                            stale_roots.add(root)
                if stale_roots:
                    def _stale(x):
                        return any(y in stale_roots for y in _walk_expr(x))
                    if any(_stale(k_) for k_ in known):
                        known = {k_: v_ for k_, v_ in known.items() if not _stale(k_)}
                    drop = [k_ for k_ in env if isinstance(k_, tuple) and len(k_) == 2 and isinstance(k_[1], tuple) and (("param", k_[0]) in stale_roots or ("local", k_[0]) in stale_roots)]
                    if drop:
                        env = dict(env)
                        for k_ in drop:
                            del env[k_]
                # a callee that received `&mut x` (possibly inside a closure) may have changed x
                hv = set()
                for a in t["args"]:
                    pl = op_place(a)
                    if pl is not None:
                        hv |= self.mut_alias.get(pl[0], set())
                if hv:
                    env = dict(env)
                    for x in hv:
                        if fn.local_name(x) and x not in self.stateful_locals and x not in self.container_locals:
                            env[x] = ("havoc", x, b)
                            for kk in [y for y in env if isinstance(y, tuple) and len(y) == 2 and y[0] == x and isinstance(y[1], tuple)]:
                                del env[kk]
                # std::mem::replace(&mut place, v) / take(&mut place): yields what the place held and
                # stores v (the default) there
                if key in ("std::mem::replace", "std::mem::take") and args:
                    pl0 = op_place(t["args"][0])
                    target = None
                    if pl0 is not None and not pl0[1]:
                        cur = pl0[0]
                        for _ in range(4):
                            found = None
                            for st_ in reversed(blk["st"]):
                                if st_["k"] == "A" and st_["p"] == [cur, []] and st_["r"]["k"] == "ref":
                                    found = st_["r"]["p"]
                                    break
                            if found is None:
                                break
                            if found[1] == ["*"]:
                                cur = found[0]
                                continue
                            target = found
                            break
                    if target is not None:
                        val = args[0]
                        new_val = args[1] if key == "std::mem::replace" and len(args) > 1 else ("default",)
                        env = dict(env)
                        if target[1]:
                            env[(target[0], _pkey(target[1]))] = new_val
                            events = events[:-1] + [("call", key, args, val, b, span_line(t["s"]), cal), ("write", self._place_expr(env, target), new_val, b, span_line(t["s"]))]
                        elif target[0] not in self.stateful_locals:
                            env[target[0]] = new_val
                            if fn.local_name(target[0]):
                                events = events + [("set", target[0], fn.local_name(target[0]), new_val, b, span_line(t["s"]))]
                if t.get("t") is None:
                    self._finish(conds, events, ("diverge", b), blocks)
                    return
                l, projs = t["dest"]
                env = dict(env)
                if not projs:
                    env[l] = val
                    if l in self.stateful_locals:
                        events = events + [("init", l, fn.local_name(l), val, b, span_line(t["s"]))]
                        del env[l]
                    elif fn.local_name(l) and l != 0:
                        events = events + [("set", l, fn.local_name(l), val, b, span_line(t["s"]))]
                    for kk in [x for x in env if isinstance(x, tuple) and x[0] == l]:
                        del env[kk]
                else:
                    env[(l, _pkey(projs))] = val
                    events = events + [("write", self._place_expr(env, t["dest"]), val, b, span_line(t["s"]))]
                b = t["t"]
                continue
            if k == "switch":
                d = self.operand(env, t["d"])
                neg = False
                while True:
                    if d[0] == "un" and d[1] == "Not":
                        d = d[2]
                        neg = not neg
                    elif d[0] == "bin" and d[1] in _NEG_BIN:
                        d = ("bin", _NEG_BIN[d[1]], d[2], d[3])
                        neg = not neg
                    elif d[0] == "call" and d[1].endswith("::ne") and "PartialEq" in d[1]:
                        d = ("call", d[1][:-2] + "eq", d[2])
                        neg = not neg
                    elif d[0] == "call" and d[1] == "std::option::Option::is_none":
                        d = ("call", "std::option::Option::is_some", d[2])
                        neg = not neg
                    elif d[0] == "call" and d[1] == "std::result::Result::is_err":
                        d = ("call", "std::result::Result::is_ok", d[2])
                        neg = not neg
                    else:
                        break
                vals = t["vals"]
                tgts = t["tgts"]
                other = t["otherwise"]
                if d[0] == "const" and isinstance(d[1], (bool, int)):
                    v = int(d[1])
                    if neg:
                        v = 1 - v
                    nb = other
                    for vv, tt in zip(vals, tgts):
                        if vv == v:
                            nb = tt
                    b = nb
                    continue
                is_disc = d[0] == "disc"
                if is_disc and d[1][0] == "agg" and d[1][2] is not None:
                    # the scrutinee was built on this path: its variant is known
                    nb = other
                    for vv, tt in zip(vals, tgts):
                        if self._variant_name(d[2], vv) == d[1][2]:
                            nb = tt
                    b = nb
                    continue
                atom = d
                branches = []  # (value label, target)
                for vv, tt in zip(vals, tgts):
                    if is_disc:
                        lab = self._variant_name(d[2], vv)
                    else:
                        lab = vv
                        if neg and vv in (0, 1):
                            lab = 1 - vv
                    branches.append((lab, tt))
                listed = [lab for lab, _ in branches]
                # the otherwise branch
                if is_disc:
                    olab = ("other", tuple(listed))
                    # a 2-variant enum with one listed value: name the other variant
                    nvar = self._nvariants(d[2])
                    if nvar is not None and len(listed) == nvar - 1:
                        names = [self._variant_name(d[2], i) for i in range(nvar)]
                        rest = [n for n in names if n not in listed]
                        if len(rest) == 1:
                            olab = rest[0]
                    elif nvar is not None and len(listed) == nvar:
                        olab = None  # unreachable otherwise
                else:
                    if listed == [0]:
                        olab = 1
                    elif listed == [1]:
                        olab = 0
                    else:
                        olab = ("other", tuple(listed))
                if olab is not None:
                    branches.append((olab, other))
                if atom in known:
                    kv = known[atom]
                    chosen = [(lab, tt) for lab, tt in branches if lab == kv]
                    if not chosen and isinstance(kv, tuple) and kv and kv[0] == "other":
                        chosen = [(lab, tt) for lab, tt in branches if lab not in kv[1]]
                    if len(chosen) == 1:
                        b = chosen[0][1]
                        continue
                    if chosen:
                        branches = chosen
                for lab, tt in branches:
                    if fn.blocks[tt]["term"]["k"] == "unreachable" and not fn.blocks[tt]["st"]:
                        continue
                    k2 = dict(known)
                    k2[atom] = lab
                    self._walk(tt, env, k2, conds + [(atom, lab)], events + [("cond", atom, lab, b)], blocks, visited)
                return
            if k == "unreachable":
                self._finish(conds, events, ("unreachable", b), blocks)
                return
            # resume/terminate/other
            self._finish(conds, events, ("diverge", b), blocks)
            return

    def _nvariants(self, adt):
        if adt in ("std::option::Option", "std::result::Result", "std::ops::ControlFlow"):
            return 2
        if adt == "std::cmp::Ordering":
            return 3
        a = self.fn.facts.adts.get(adt)
        if a:
            return len(a["variants"])
        return None

    def _place_expr(self, env, place):
        l, projs = place
        e = self.local(env, l)
        for p in projs:
            e = self.project(env, e, p)
        return e


_NEG_BIN = {"Ne": "Eq", "Le": "Gt", "Ge": "Lt"}


_OPTION = "std::option::Option"


def simplify_call(key, args):
    """Value of a call; a few std accessors applied to an Option/Result built on the same path are
    evaluated (this is what makes a helper returning `Some(x)` / `None` transparent once inlined)."""
    if args and args[0][0] == "agg" and args[0][1] in (_OPTION, "std::result::Result") and args[0][2] is not None:
        a = args[0]
        var = a[2]
        payload = a[3][0][1] if a[3] else None
        name = key.rsplit("::", 1)[1]
        some = var in ("Some", "Ok")
        if name in ("unwrap", "expect", "unwrap_or_default", "unwrap_or", "unwrap_or_else", "unwrap_unchecked") and some and payload is not None:
            return payload
        if name == "unwrap_or" and not some and len(args) > 1:
            return args[1]
        if name == "unwrap_or_default" and not some:
            return ("default",)
        if name in ("is_some", "is_ok"):
            return ("const", some)
        if name in ("is_none", "is_err"):
            return ("const", not some)
    # a Cow built on this path: its content, whichever way it is held
    if args and args[0][0] == "agg" and args[0][1] == "std::borrow::Cow" and args[0][2] in ("Borrowed", "Owned") and args[0][3]:
        if key.rsplit("::", 1)[1] in ("into_owned", "to_string", "deref", "as_ref", "to_owned", "into"):
            return args[0][3][0][1]
    # the `?` operator on values whose variant is known on this path
    if key.endswith("FromResidual>::from_residual") and args:
        if key.startswith("<std::result::Result"):
            inner = args[0]
            payload = inner[3][0][1] if inner[0] == "agg" and inner[2] == "Err" and inner[3] else ("residual", inner)
            return ("agg", "std::result::Result", "Err", (("0", payload),))
        if key.startswith("<std::option::Option"):
            return ("agg", _OPTION, "None", ())
    if key.endswith("Try>::branch") and args and args[0][0] == "agg" and args[0][2] is not None:
        a = args[0]
        if a[1] == "std::result::Result":
            if a[2] == "Ok":
                return ("agg", "std::ops::ControlFlow", "Continue", (("0", a[3][0][1] if a[3] else ("const", ("zst", "()"))),))
            return ("agg", "std::ops::ControlFlow", "Break", (("0", a),))
        if a[1] == _OPTION:
            if a[2] == "Some":
                return ("agg", "std::ops::ControlFlow", "Continue", (("0", a[3][0][1]),))
            return ("agg", "std::ops::ControlFlow", "Break", (("0", a),))
    return ("call", key, args)


def _walk_expr(e):
    st = [e]
    while st:
        x = st.pop()
        if not isinstance(x, tuple):
            continue
        yield x
        for y in x:
            if isinstance(y, tuple):
                st.append(y)


def _pkey(projs):
    out = []
    for p in projs:
        if isinstance(p, list):
            out.append(tuple(p))
        else:
            out.append(p)
    return tuple(out)


# ----------------------------------------------------------------------------------------
# loops
# ----------------------------------------------------------------------------------------
class ForLoop:
    """A `for` loop: `next_block` holds the `Iterator::next` call; `body` is the `Some` target,
    `exit` the `None` target; `source` is the provenance of the iterated collection."""

    def __init__(self, fn, next_block, switch_block, body, exit_, item_local, iter_local, line):
        self.fn = fn
        self.next_block = next_block
        self.switch_block = switch_block
        self.body = body
        self.exit = exit_
        self.item_local = item_local
        self.iter_local = iter_local
        self.line = line
        self.source = None

    def blocks(self):
        return self.fn.loop_blocks(self.head())

    def tail_blocks(self):
        """Blocks reachable from the normal loop exit without going through the loop again
        (blocks that only a `break` path reaches are therefore not part of the tail, even when an
        enclosing loop leads back into this one)."""
        body = self.blocks()
        seen = set()
        st = [self.exit]
        while st:
            x = st.pop()
            if x in seen or x in body:
                continue
            seen.add(x)
            st.extend(self.fn.succ(x))
        return seen

    def iteration_paths(self, sym, env=None, assume=None):
        """Paths of one iteration: from the body entry until the next `next()` call, the loop
        exit, or (after a `break`) the first block shared with the code after the loop."""
        stops = {self.next_block, self.head()} | self.tail_blocks()
        return sym.paths(start=self.body, stops=stops, env=env, assume=assume)

    def head(self):
        # the loop header is the target of the back edge that dominates next_block; for nested loops
        # the innermost such loop
        best = None
        for a, h in self.fn.back_edges():
            if self.fn.dominates(h, self.next_block) and self.next_block in self.fn.loop_blocks(h):
                if best is None or len(self.fn.loop_blocks(h)) < len(self.fn.loop_blocks(best)):
                    best = h
        return best if best is not None else self.next_block


def for_loops(fn, prov=None):
    """Find `for` loops (desugared `Iterator::next` + switch on the Option discriminant)."""
    from .prov import Prov
    prov = prov or Prov(fn)
    out = []
    for bi, t, cal in fn.calls():
        if cal is None or cal.name != "next" or cal.def_trait != "std::iter::Iterator":
            continue
        sp = t["s"]
        if isinstance(sp, int) or not sp[1].startswith("d:ForLoop"):
            continue
        tgt = t["t"]
        if tgt is None:
            continue
        sw = fn.blocks[tgt]["term"]
        if sw["k"] != "switch":
            continue
        body = exit_ = None
        for v, tt in zip(sw["vals"], sw["tgts"]):
            if v == 1:
                body = tt
            elif v == 0:
                exit_ = tt
        if body is None:
            body = sw["otherwise"]
        if exit_ is None:
            exit_ = sw["otherwise"]
        lp = ForLoop(fn, bi, tgt, body, exit_, None, None, span_line(sp))
        # the iterator: first arg of next() is &mut iter_local
        recv = prov.operand(t["args"][0])
        lp.source = recv
        out.append(lp)
    return out


# ----------------------------------------------------------------------------------------
# boolean decision tables
# ----------------------------------------------------------------------------------------
def eval_bool(e, assign, canon):
    """Evaluate a boolean expression under an assignment of canonical atoms.
    Returns True/False, or None when it depends on an unassigned atom."""
    if e[0] == "const" and isinstance(e[1], bool):
        return e[1]
    if e[0] == "const" and e[1] in (0, 1):
        return bool(e[1])
    if e[0] == "un" and e[1] == "Not":
        v = eval_bool(e[2], assign, canon)
        return None if v is None else (not v)
    if e[0] == "bin" and e[1] in ("BitAnd", "BitOr"):
        a = eval_bool(e[2], assign, canon)
        b = eval_bool(e[3], assign, canon)
        if e[1] == "BitAnd":
            if a is False or b is False:
                return False
            if a is None or b is None:
                return None
            return True
        if a is True or b is True:
            return True
        if a is None or b is None:
            return None
        return False
    c = canon(e)
    if c is None:
        if e[0] == "bin" and e[1] in ("Eq", "Ne"):
            a = eval_bool(e[2], assign, canon)
            b = eval_bool(e[3], assign, canon)
            if a is None or b is None:
                return None
            return (a == b) if e[1] == "Eq" else (a != b)
        return None
    name, pol = c
    if name in assign:
        return assign[name] == pol
    return None


def consistent_with(other_conds, assign, canon):
    """False when some condition of the path that is a boolean combination of known atoms
    (e.g. `exclude == listed`) evaluates differently under `assign`."""
    for atom, v in other_conds:
        if v not in (0, 1, True, False):
            continue
        got = eval_bool(atom, assign, canon)
        if got is not None and got != bool(v):
            return False
    return True


def path_assignment(path, canon, strict=None):
    """Canonical assignment {atom name: bool} of a path's conditions; conditions that `canon`
    does not recognise are returned separately."""
    assign = {}
    other = []
    for atom, v in path.conds:
        c = canon(atom)
        if c is None:
            other.append((atom, v))
            continue
        name, pol = c
        if isinstance(v, int) and not isinstance(v, bool) and v in (0, 1):
            val = bool(v)
        elif isinstance(v, bool):
            val = v
        else:
            # discriminant-valued atom: canon returns (name, variant that means True)
            val = (v == pol)
            assign[name] = val
            continue
        assign[name] = (val == pol)
    return assign, other


def completions(assign, atoms):
    free = [a for a in atoms if a not in assign]
    n = len(free)
    for m in range(1 << n):
        d = dict(assign)
        for i, a in enumerate(free):
            d[a] = bool((m >> i) & 1)
        yield d
