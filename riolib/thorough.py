"""riolib.thorough — the thorough tier: additional build configurations, compile-fail witnesses and
checker self-tests on seeded / neutral variants of /repo's current tree (scratch copies outside
/repo and /verif, deleted as soon as they have been analysed)."""
import re
import glob
import json
import os
import shutil
import subprocess
import tempfile
import time

from . import build, report
from .core import Facts

VERIF = os.path.dirname(os.path.dirname(os.path.abspath(__file__)))


def run_rules_on(mod, prop, facts, tier="quick"):
    ctx = report.Context(prop, tier, facts, 0, None)
    mod.run(ctx)
    bad = []
    for r in ctx.rules:
        for o in r.obs:
            if not o.ok:
                bad.append(o)
    return ctx, bad


def known_keys(prop):
    return {(k["rule"], k["key"]) for k in report.load_known() if k.get("property") == prop and k.get("status") == "known"}


# ---------------------------------------------------------------------------------------
def extra_configs(ctx, mod, repo):
    """Re-run the property's rules on the other feature configurations it applies to."""
    configs = getattr(mod, "THOROUGH_CONFIGS", [])
    out = []
    kk = known_keys(ctx.prop)
    for cfg in configs:
        t0 = time.time()
        facts = Facts(build.facts_path(repo, cfg))
        c2, bad = run_rules_on(mod, ctx.prop, facts)
        new = [o for o in bad if (o.rule, o.key) not in kk]
        out.append({"config": cfg, "bodies": len(facts.fn_list), "obligations": sum(len(r.obs) for r in c2.rules), "violations": len(new), "wall_s": round(time.time() - t0, 1)})
        for o in new:
            r = ctx.rule(o.rule + "@" + cfg, "configuration %s" % cfg)
            r.ob(o.key, False, o.site, "[%s] %s" % (cfg, o.detail), o.data)
        ctx.configs.append(cfg)
    return out


# ---------------------------------------------------------------------------------------
def release_overflow_profile(ctx, repo):
    """Which arithmetic panic sites exist only with overflow checks (debug profile)."""
    facts = Facts(build.facts_path(repo, "release"))
    n_dbg = n_rel = 0
    for f in ctx.facts.fn_list:
        for b in f.blocks:
            if b["term"]["k"] == "assert" and b["term"]["kind"].startswith("overflow"):
                n_dbg += 1
    for f in facts.fn_list:
        for b in f.blocks:
            if b["term"]["k"] == "assert" and b["term"]["kind"].startswith("overflow"):
                n_rel += 1
    return {"overflow_asserts_debug_profile": n_dbg, "overflow_asserts_release_profile": n_rel,
            "note": "arithmetic-overflow sites panic only when overflow checks are on (debug profile); index / unwrap / div sites panic in every profile"}


# ---------------------------------------------------------------------------------------
def witnesses(ctx, names, repo):
    """Run the compile-fail witnesses (rustdoc tests of /verif/witness against `repo`)."""
    wdir = os.path.join(VERIF, "witness")
    tmp = tempfile.mkdtemp(prefix="riowit.")
    try:
        dst = os.path.join(tmp, "witness")
        shutil.copytree(wdir, dst)
        with open(os.path.join(dst, "Cargo.toml")) as fh:
            t = fh.read()
        with open(os.path.join(dst, "Cargo.toml"), "w") as fh:
            fh.write(t.replace("@REPO@", repo))
        shutil.copy(os.path.join(repo, "Cargo.lock"), os.path.join(dst, "Cargo.lock"))
        env = dict(os.environ, CARGO_NET_OFFLINE="true", PUBLISH_SKIP_BUILD="1", CARGO_TARGET_DIR=os.path.join(build.CACHE, "target-witness"))
        env.pop("RUSTC_WORKSPACE_WRAPPER", None)
        t0 = time.time()
        r = subprocess.run(["cargo", "+nightly", "test", "--doc", "--offline"], cwd=dst, env=env, stdout=subprocess.PIPE, stderr=subprocess.STDOUT, text=True)
        out = r.stdout
        results = {}
        for line in out.splitlines():
            line = line.strip()
            if line.startswith("test ") and (" ... ok" in line or " ... FAILED" in line):
                name = line[5:].split(" ... ")[0]
                results[name] = line.endswith("ok")
        rule = ctx.rule("W", "compile-fail witnesses and their compiling twins")
        for w in names:
            hits = {k: v for k, v in results.items() if ("::%s_" % w) in k or k.startswith("src/lib.rs - %s_" % w) or (" %s_" % w) in k or ("- %s_" % w) in k}
            if not hits:
                rule.ob("witness:%s" % w, False, "witness/src/lib.rs", "witness %s did not run (cargo exit %d): %s" % (w, r.returncode, out[-600:]))
                continue
            for k, v in sorted(hits.items()):
                rule.ob("witness:%s" % k.split(" - ")[-1].split(" (")[0], v, "witness/src/lib.rs", "rustdoc test %s: %s" % (k, "as expected" if v else "UNEXPECTED (a compile_fail witness compiled, or its compiling twin did not)"))
        rule.finish()
        return {"witness_tests": len(results), "wall_s": round(time.time() - t0, 1)}
    finally:
        shutil.rmtree(tmp, ignore_errors=True)


# ---------------------------------------------------------------------------------------
def load_variants(prop):
    """Seeded / neutral variants for this property: /verif/variants/*.json (substitutions) and
    /verif/seeded/*/ (patch.diff + meta.json)."""
    out = []
    for p in sorted(glob.glob(os.path.join(VERIF, "variants", "*.json"))):
        with open(p) as fh:
            for v in json.load(fh):
                if prop in v.get("properties", []):
                    v["name"] = v.get("name") or os.path.basename(p)
                    out.append(v)
    for d in sorted(glob.glob(os.path.join(VERIF, "neutral", "*"))):
        mp = os.path.join(d, "meta.json")
        pp = os.path.join(d, "patch.diff")
        if not (os.path.exists(mp) and os.path.exists(pp)):
            continue
        with open(mp) as fh:
            m = json.load(fh)
        if prop in m.get("properties", []):
            out.append({"name": "neutral/" + os.path.basename(d), "patch": pp, "expect": "silent", "properties": m["properties"]})
    for d in sorted(glob.glob(os.path.join(VERIF, "seeded", "*"))):
        mp = os.path.join(d, "meta.json")
        pp = os.path.join(d, "patch.diff")
        if not (os.path.exists(mp) and os.path.exists(pp)):
            continue
        with open(mp) as fh:
            m = json.load(fh)
        props = m.get("detected_by") or []
        if prop in props:
            out.append({"name": "seeded/" + os.path.basename(d), "patch": pp, "expect": "violation", "properties": props, "rules": m.get("rules", {}).get(prop)})
    return out


def apply_variant(v, dst):
    if "patch" in v:
        r = subprocess.run(["patch", "-p1", "-s", "--no-backup-if-mismatch", "-i", v["patch"]], cwd=dst, stdout=subprocess.PIPE, stderr=subprocess.STDOUT, text=True)
        return r.returncode == 0, r.stdout[-300:]
    for s in v.get("subs", []):
        p = os.path.join(dst, s["file"])
        if not os.path.exists(p):
            return False, "no file %s" % s["file"]
        with open(p) as fh:
            t = fh.read()
        if "re" in s:  # identifier rename: every occurrence of the pattern
            t2, n = re.subn(s["re"], s["to"], t)
            if n < s.get("min", 1):
                return False, "pattern %s occurs %d times in %s" % (s["re"], n, s["file"])
            with open(p, "w") as fh:
                fh.write(t2)
            continue
        if t.count(s["old"]) != 1:
            return False, "substitution target occurs %d times in %s" % (t.count(s["old"]), s["file"])
        with open(p, "w") as fh:
            fh.write(t.replace(s["old"], s["new"]))
    return True, ""


def variants(ctx, mod, repo):
    """Checker self-test: every seeded variant must be reported (by the expected rule), every
    neutral variant must stay silent.  Returns (summary, failures)."""
    vs = load_variants(ctx.prop)
    base_bad = {(o.rule, o.key) for r in ctx.rules for o in r.obs if not o.ok}
    summary = []
    failures = []
    from concurrent.futures import ThreadPoolExecutor

    def prepare(v):
        """scratch copy + variant -> facts file (the copy is removed at once, the fact file is kept
        in its own scratch directory until the rules have run)"""
        tmp = tempfile.mkdtemp(prefix="riovar.")
        try:
            dst = os.path.join(tmp, "repo")
            subprocess.check_call(["rsync", "-a", "--exclude", "target", "--exclude", ".git", repo.rstrip("/") + "/", dst + "/"])
            ok, why = apply_variant(v, dst)
            if not ok:
                return tmp, None, "does not apply to the current tree: " + why
            try:
                fp = build.facts_path(dst, "default")
            except build.BuildError as e:
                return tmp, None, "does not build: " + str(e)[-200:]
            out = os.path.join(tmp, "facts.json")
            shutil.copyfile(fp, out)
            shutil.rmtree(dst, ignore_errors=True)
            return tmp, out, ""
        except Exception as e:  # infrastructure trouble with one variant must not hide the others
            return tmp, None, "preparation failed: %s" % e
    with ThreadPoolExecutor(max_workers=6) as ex:
        prepared = list(ex.map(prepare, vs))
    for v, (tmp, fp, why) in zip(vs, prepared):
        try:
            if fp is None:
                summary.append({"variant": v["name"], "status": "skipped", "why": why})
                continue
            facts = Facts(fp)
            c2, bad = run_rules_on(mod, ctx.prop, facts)
            new = [o for o in bad if (o.rule, o.key) not in base_bad]
            rules = sorted({o.rule for o in new})
            if v.get("expect", "violation") == "violation":
                want = v.get("rules")
                hit = bool(new) and (not want or any(r in rules for r in want))
                summary.append({"variant": v["name"], "expect": "violation", "reported_by": rules, "status": "detected" if hit else "MISSED", "instances": [o.key[:120] for o in new[:3]]})
                if not hit:
                    failures.append("seeded variant %s is not reported (expected %s, got %s)" % (v["name"], want or "any rule", rules))
            else:
                summary.append({"variant": v["name"], "expect": "silent", "reported_by": rules, "status": "silent" if not new else "FALSE ALARM", "instances": [o.key[:120] for o in new[:3]]})
                if new:
                    failures.append("neutral variant %s raises %s: %s" % (v["name"], rules, [o.key[:100] for o in new[:2]]))
        finally:
            shutil.rmtree(tmp, ignore_errors=True)
    return summary, failures
