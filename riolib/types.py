"""riolib.types — P7: type walks over ADT facts (closure of reachable ADTs, interior mutability,
hash-ordered containers)."""

INTERIOR_MUT = (
    "std::sync::RwLock", "std::sync::Mutex", "std::cell::RefCell", "std::cell::Cell", "std::cell::UnsafeCell",
    "std::cell::OnceCell", "std::sync::OnceLock", "std::sync::LazyLock", "std::cell::LazyCell", "std::sync::Once",
    "std::sync::atomic::", "std::sync::Condvar", "std::sync::mpsc::", "std::sync::poison::rwlock::RwLock", "std::sync::poison::mutex::Mutex",
    "std::sync::nonpoison::", "std::sync::poison::",
)

HASH_ORDERED = ("std::collections::HashMap", "std::collections::HashSet", "std::collections::hash_map::", "std::collections::hash_set::")
ORDERED = ("std::vec::Vec", "std::collections::BTreeMap", "std::collections::BTreeSet", "linked_hash_set::LinkedHashSet", "std::collections::VecDeque")


def is_interior_mut(adt_path):
    return any(adt_path == p or (p.endswith("::") and adt_path.startswith(p)) for p in INTERIOR_MUT)


def is_hash_ordered(adt_path):
    return any(adt_path == p or (p.endswith("::") and adt_path.startswith(p)) for p in HASH_ORDERED)


def adt_closure(F, roots):
    """All local ADTs reachable from the root ADT paths through field types.  Returns
    {adt: [(via adt, field)]} (first discovery path)."""
    seen = {}
    work = []
    for r in roots:
        if r in F.adts:
            seen[r] = None
            work.append(r)
    while work:
        a = work.pop()
        for v in F.adts[a]["variants"]:
            for f in v["fields"]:
                ty = F.types[f["ty"]]
                for sub in ty.get("adts", []):
                    if sub in F.adts and sub not in seen:
                        seen[sub] = (a, f["name"])
                        work.append(sub)
    return seen


def foreign_adts_in(F, adts):
    """{foreign adt path: [(local adt, field)]} mentioned by fields of the given local ADTs."""
    out = {}
    for a in adts:
        for v in F.adts[a]["variants"]:
            for f in v["fields"]:
                ty = F.types[f["ty"]]
                for sub in ty.get("adts", []):
                    if sub not in F.adts:
                        out.setdefault(sub, []).append((a, f["name"]))
    return out


def interior_mut_fields(F, adts):
    """[(adt, field, interior-mutable type)] among the fields of the given local ADTs."""
    out = []
    for a in sorted(adts):
        for v in F.adts[a]["variants"]:
            for f in v["fields"]:
                ty = F.types[f["ty"]]
                for sub in ty.get("adts", []):
                    if is_interior_mut(sub):
                        out.append((a, f["name"], sub))
    return out
