"""C01 — rule matching is exact (structural necessary conditions; see DESIGN §3 C01)."""
from riolib.core import Callee, MissingAnchor, op_place, span_line
from riolib.prov import Prov, show, mentions, mentions_field, walk
from riolib.sym import Sym, for_loops, path_assignment, completions, eval_bool
from riolib import types as T
from . import layers as LY

THOROUGH_CONFIGS = ['dot', 'router']


COVER_EXC = {}


def is_child_call(e, L, opname):
    """event e is a call to the next layer's `opname`"""
    return e[0] == "call" and L.next and e[1] == "%s::%s" % (L.next, opname)


def bucket_of(expr, L):
    """which bucket field of layer L an expression derives from"""
    hits = [b for b in L.buckets if mentions_field(expr, b, L.adt)]
    return hits


# ---------------------------------------------------------------------------------------
def r01_1(ctx, layers):
    def body(r):
        LY.bucket_coverage(ctx.facts, layers, ("insert", "match_request"), r, COVER_EXC)
    ctx.run_rule("R01.1", "bucket coverage: every bucket is fed by insert and consulted by match_request", body, floor=32,
                 statement="for each of the 7 layers, insert and match_request touch each of the layer's bucket fields")


# ---------------------------------------------------------------------------------------
PLACEMENT_NAMES = {"insert"}


def r01_2(ctx, layers):
    F = ctx.facts

    def producer_never_some_empty(route_accessor):
        """side condition for placement loops: the list the loop runs over is never Some(empty).
        Decided on the function that builds the list for Rule (the only IntoRoute impl)."""
        table = {
            "ips": "api::rule::Rule::route_ips",
        }
        key = table.get(route_accessor)
        if key is None:
            return False, "no producer known for route.%s()" % route_accessor
        f = F.fn(key)
        # every path returning Some(..) must have taken the `is_empty == false` edge
        for p in Sym(f, copies=True).paths():
            if p.end[0] != "ret":
                continue
            ret = p.end[1]
            if ret[0] == "agg" and ret[2] == "Some":
                ok = any(a[0] == "call" and a[1] == "std::vec::Vec::is_empty" and v == 0 for a, v in p.conds)
                if not ok:
                    return False, "%s can return Some(list) without testing that the list is non-empty" % key
        return True, "%s returns None when the list is empty" % key

    def body(r):
        for L in layers:
            f = L.methods["insert"]
            if f is None:
                r.missing("%s::insert" % L.short)
                continue
            r.analysed(f)
            f = ctx.facts.loop_form(f)  # (`methods().filter(|m| !m.is_empty())` written out: the emptiness test is a path condition)
            s = Sym(f, copies=True)
            loops = for_loops(f)
            npaths = 0
            bad_count = []
            bad_place = []
            for p in s.paths():
                if p.end[0] not in ("ret", "loop"):
                    continue
                npaths += 1
                cw = [e for e in p.events if e[0] == "write" and mentions_field(e[1], "count", L.adt)]
                incs = [e for e in cw if mentions(e[2], lambda x: x[0] == "bin" and x[1].startswith("Add") and x[3] == ("const", 1) and mentions_field(x[2], "count", L.adt))]
                if len(cw) != 1 or len(incs) != 1:
                    bad_count.append((len(cw), p.blocks[-1]))
                places = [e for e in p.events if e[0] == "call" and e[1].rsplit("::", 1)[1] in PLACEMENT_NAMES and any(mentions(a, lambda x: x == ("param", 2)) for a in e[2])]
                if not places and p.end[0] == "ret":
                    # allowed only through the zero-iteration exit of a placement loop with a proven side condition
                    excused = False
                    for lp in loops:
                        if lp.exit in p.blocks and lp.body not in p.blocks:
                            src = [c for c in walk(lp.source) if c[0] == "call" and c[1].startswith("router::route::Route::")]
                            acc = src[0][1].rsplit("::", 1)[1] if src else None
                            if acc == "methods":
                                # explicit is_empty arm: the path must have seen methods.is_empty() == false
                                if any(a[0] == "call" and a[1] == "std::vec::Vec::is_empty" and v == 0 for a, v in p.conds):
                                    excused = True
                                    # an empty list cannot reach the loop: the zero-iteration path is infeasible
                            elif acc:
                                ok, why = producer_never_some_empty(acc)
                                if ok:
                                    excused = True
                                    r.note("%s: zero-iteration path excused: %s" % (L.short, why))
                    if not excused:
                        bad_place.append(p.blocks[-1])
            r.ob("insert:%s:count-once" % L.short, not bad_count and npaths > 0, f.site,
                 "`count` incremented exactly once on each of %d paths" % npaths if not bad_count else "paths with count writes != 1: %s" % bad_count[:3])
            r.ob("insert:%s:placed" % L.short, not bad_place and npaths > 0, f.site,
                 "every path places the route in at least one bucket" if not bad_place else "paths returning without placing the route (exit blocks %s)" % bad_place[:3])
    ctx.run_rule("R01.2", "insert totality: count += 1 once and the route reaches a bucket on every path", body, floor=14)


# ---------------------------------------------------------------------------------------
def any_host_table(f, L, opname, r, tag):
    """Shared by R01.4 (match_request) and R17.3 (trace): the any_host bucket is consulted
    iff always_match_any_host or nothing host-specific was collected."""
    s = Sym(f, copies=True)

    def canon(e):
        if e == ("field", ("param", 1), "always_match_any_host", L.adt):
            return ("always", True)
        if e[0] == "call" and e[1] == "std::vec::Vec::is_empty":
            return ("empty", True)
        return None

    rows = 0
    bad = []
    empties = set()
    for p in s.paths():
        if p.end[0] != "ret":
            continue
        assign, _ = path_assignment(p, canon)
        for a, v in p.conds:
            if a[0] == "call" and a[1] == "std::vec::Vec::is_empty":
                empties.add(a[2][0])
        consulted = any(is_child_call(e, L, opname) and e[2][0] == ("field", ("param", 1), "any_host", L.adt) for e in p.events)
        for full in completions(assign, ["always", "empty"]):
            rows += 1
            want = full["always"] or full["empty"]
            # rows where `always` is true never evaluate `empty`; both completions want True
            if consulted != want and not ("empty" not in assign and full["always"]):
                bad.append((full, consulted))
            elif "empty" not in assign and full["always"] and not consulted:
                bad.append((full, consulted))
    r.ob("%s:any-host-table" % tag, not bad and rows > 0, f.site,
         "any_host consulted <=> always_match_any_host || collected.is_empty() on %d rows" % rows if not bad else "deviating rows: %s" % bad[:4],
         data={"bad": [str(b) for b in bad[:8]]})
    return empties


def r01_4(ctx, layers):
    F = ctx.facts

    def body(r):
        L = [x for x in layers if x.short == "HostMatcher"]
        if not L:
            r.missing("HostMatcher layer")
            return
        L = L[0]
        f = L.methods["match_request"]
        r.analysed(f)
        empties = any_host_table(f, L, "match_request", r, "match")
        # the vector whose emptiness is tested is the result vector and before the test only
        # host-specific buckets fed it
        s = Sym(f, copies=True)
        ok_feed = True
        detail = ""
        for p in s.paths():
            if p.end[0] != "ret":
                continue
            tested = False
            will_test = any(e[0] == "call" and e[1] == "std::vec::Vec::is_empty" for e in p.events)
            for e in p.events:
                if e[0] == "call" and e[1] == "std::vec::Vec::is_empty":
                    tested = True
                    if e[2][0] != p.end[1]:
                        ok_feed = False
                        detail = "emptiness tested on %s but %s is returned" % (show(e[2][0], f), show(p.end[1], f))
                if e[0] == "call" and e[1].endswith("Extend>::extend") and not tested and will_test:
                    if mentions_field(e[2][1], "any_host", L.adt):
                        ok_feed = False
                        detail = "any_host results are collected before the emptiness test"
        r.ob("match:emptiness-of-host-specific-results", ok_feed, f.site, detail or "is_empty() is evaluated on the returned vector, fed only by host-specific buckets before the test")
        # flag initialised from the config field of the same name
        g = F.method(L.adt, "new")
        r.analysed(g)
        okinit = False
        for p in Sym(g, copies=True).paths():
            if p.end[0] == "ret" and p.end[1][0] == "agg":
                d = dict(p.end[1][3])
                v = d.get("always_match_any_host")
                okinit = v is not None and mentions_field(v, "always_match_any_host", "router_config::RouterConfig")
        r.ob("new:flag-from-config", okinit, g.site, "HostMatcher.always_match_any_host is initialised from RouterConfig.always_match_any_host")
    ctx.run_rule("R01.4", "any-host policy table", body, floor=3)


# ---------------------------------------------------------------------------------------
def r01_5(ctx):
    F = ctx.facts

    def window(r, key, short):
        f = F.loop_form(F.fn(key))  # Option combinators (`is_none_or(|s| t >= s)`) written out as the match they abbreviate
        r.analysed(f)

        def canon(e):
            if e[0] == "call" and "PartialOrd" in e[1]:
                op = e[1].rsplit("::", 1)[1]
                a, b = e[2]
                side = None
                for nm in ("start", "end"):
                    if mentions_field(a, nm) or mentions_field(b, nm):
                        side = nm
                if side is None:
                    return None
                req_left = not (mentions_field(a, "start") or mentions_field(a, "end"))
                if not req_left:
                    op = {"lt": "gt", "le": "ge", "gt": "lt", "ge": "le"}[op]
                # canonical atoms: GE_start (x >= start), LT_end (x < end)
                if side == "start":
                    if op == "ge":
                        return ("ge_start", True)
                    if op == "lt":
                        return ("ge_start", False)
                    return ("BAD:%s_start" % op, True)
                if op == "lt":
                    return ("lt_end", True)
                if op == "ge":
                    return ("lt_end", False)
                return ("BAD:%s_end" % op, True)
            if e[0] == "disc" and e[1][0] == "field" and e[1][2] in ("start", "end"):
                return ("has_" + e[1][2], "Some")
            return None

        rows = 0
        bad = []
        for p in Sym(f, copies=True).paths():
            if p.end[0] != "ret":
                continue
            assign, other = path_assignment(p, canon)
            for k in assign:
                if k.startswith("BAD:"):
                    bad.append("comparison %s is neither `>= start` nor `< end`" % k[4:])
            atoms = ["has_start", "has_end", "ge_start", "lt_end"]
            for full in completions(assign, atoms):
                rows += 1
                want = (full["ge_start"] if full["has_start"] else True) and (full["lt_end"] if full["has_end"] else True)
                got = eval_bool(p.end[1], full, canon)
                c = canon(p.end[1]) if p.end[1][0] == "call" else None
                if c and c[0].startswith("BAD:"):
                    bad.append("comparison %s is neither `>= start` nor `< end`" % c[0][4:])
                    continue
                if got is None:
                    bad.append("result %s not decidable from the window atoms" % show(p.end[1], f))
                elif got != want:
                    bad.append("start=%s end=%s x>=start=%s x<end=%s -> %s (reference %s)" % (full["has_start"], full["has_end"], full["ge_start"], full["lt_end"], got, want))
        r.ob("window:%s" % short, not bad and rows > 0, f.site,
             "half-open window [start, end) on %d rows" % rows if not bad else "; ".join(sorted(set(bad))[:4]))

    def body(r):
        window(r, "router::route_datetime::RouteDateTime::match_datetime", "RouteDateTime")
        window(r, "router::route_time::RouteTime::match_datetime", "RouteTime")
        f = F.fn("router::route_ip::RouteIp::match_ip")
        r.analysed(f)
        rows = {}
        for p in Sym(f).paths():
            if p.end[0] != "ret":
                continue
            var = [v for a, v in p.conds if a[0] == "disc"]
            e = p.end[1]
            neg = False
            while e[0] == "un" and e[1] == "Not":
                neg = not neg
                e = e[2]
            isc = e[0] == "call" and e[1].endswith("::contains") and mentions(e, lambda x: x == ("param", 2))
            rows[var[0] if var else "?"] = (isc, neg)
        r.ob("ip:InRange", rows.get("InRange") == (True, False), f.site, "InRange -> contains(ip): %s" % (rows.get("InRange"),))
        r.ob("ip:NotInRange", rows.get("NotInRange") == (True, True), f.site, "NotInRange -> !contains(ip): %s" % (rows.get("NotInRange"),))
    ctx.run_rule("R01.5", "half-open time windows and cidr polarity", body, floor=4)


# ---------------------------------------------------------------------------------------
DEDUP_CALLS = {"dedup", "dedup_by", "dedup_by_key"}


def r01_7(ctx, layers, rid="R01.7"):
    def body(r):
        for L in layers:
            ins, mr = L.methods["insert"], L.methods["match_request"]
            if ins is None or mr is None or not L.next:
                continue
            r.analysed(ins, mr)
            # buckets that receive one route several times: placement inside a for loop
            multi = set()
            si = Sym(ins, copies=True)
            for lp in for_loops(ins):
                for p in lp.iteration_paths(si):
                    for e in p.events:
                        if is_child_call(e, L, "insert"):
                            multi.update(bucket_of(e[2][0], L))
                        # receiver reached through entry()/get_mut() chains keeps the field in its provenance
            # buckets whose children are unioned in a loop at match time
            union = set()
            sm = Sym(mr, copies=True)
            for lp in for_loops(mr):
                src_b = bucket_of(lp.source, L)
                for p in lp.iteration_paths(sm):
                    if any(is_child_call(e, L, "match_request") for e in p.events):
                        union.update(src_b)
            both = multi & union
            dedup = False
            # (Vec::dedup* only removes *adjacent* repeats: it de-duplicates a union only after a sort of the same vector)
            sorted_before_dedup = any(cal and cal.name in ("sort", "sort_by", "sort_by_key", "sort_unstable", "sort_unstable_by", "sort_unstable_by_key", "sort_by_cached_key") for g in mr.all_bodies() for bi, t, cal in g.calls())
            for g in mr.all_bodies():
                for bi, t, cal in g.calls():
                    if cal and ((cal.name in DEDUP_CALLS and sorted_before_dedup) or (cal.name == "insert" and cal.adt in ("std::collections::HashSet", "std::collections::BTreeSet", "std::collections::HashMap", "std::collections::BTreeMap") and g is not mr) or (cal.name == "insert" and cal.adt in ("std::collections::HashSet", "std::collections::BTreeSet"))):
                        dedup = True
            key = "union:%s" % L.short
            if both:
                r.ob(key, dedup, mr.site,
                     "a route is placed in several `%s` buckets and match_request unions several of them: %s" % (",".join(sorted(both)), "results are de-duplicated" if dedup else "no de-duplication -> a rule can be reported more than once"))
            else:
                r.ob(key, True, mr.site, "no bucket is both multiply fed (%s) and unioned in a loop (%s)" % (sorted(multi), sorted(union)))
    ctx.run_rule(rid, "duplicate-free union of buckets", body, floor=6)


# ---------------------------------------------------------------------------------------
def option_bool_presence_tests(F, only_adts=None):
    """All sites where an Option<bool> is tested by presence only (is_some/is_none, or a
    discriminant switch whose payload is never read)."""
    out = []
    for f in F.fn_list:
        if f.derived:
            continue
        pv = None
        for bi, t, cal in f.calls():
            if cal is None or cal.adt != "std::option::Option" or cal.name not in ("is_some", "is_none"):
                continue
            if not t["args"]:
                continue
            pl = op_place(t["args"][0])
            if pl is None:
                continue
            ty = f.local_ty(pl[0])["s"]
            if "std::option::Option<bool>" not in ty:
                continue
            pv = pv or Prov(f, copies=True)
            src = pv.operand(t["args"][0])
            out.append((f, span_line(t["s"]), cal.name, src))
    return out


def r01_8(ctx):
    F = ctx.facts

    def body(r):
        # inventory of Option<bool> fields on the rule / route types
        fields = []
        for adt in ("api::source::Source", "router::route::Route", "api::rule::Rule"):
            for name, ty in F.adt_fields(adt):
                if ty["s"] == "std::option::Option<bool>":
                    fields.append((adt, name))
        r.note("Option<bool> fields: %s" % fields)
        sites = option_bool_presence_tests(F)
        seen = set()
        for f, line, how, src in sites:
            names = sorted({x[2] for x in walk(src) if x[0] == "field"} | {x[1].rsplit("::", 1)[1] for x in walk(src) if x[0] == "call" and x[1].startswith("router::route::Route::")})
            if not any(n in ("exclude_methods",) for n in names):
                continue
            key = "flag-by-value:%s:%s" % (f.key, ",".join(names))
            if key in seen:
                continue
            seen.add(key)
            r.ob(key, False, f.loc(line), "Option<bool> `%s` is tested with %s(): Some(false) is read as true" % (show(src, f), how))
        # positive obligations: every use of the exclude_methods flag reads the payload
        uses = 0
        for f in F.fn_list:
            for bi, t, cal in f.calls():
                if cal and cal.local and cal.name == "exclude_methods" and cal.adt == "router::route::Route":
                    uses += 1
                    k = "flag-use:%s" % f.key
                    bad = any(x[0] is f for x in sites if any(n == "exclude_methods" for n in [y[1].rsplit("::", 1)[1] for y in walk(x[3]) if y[0] == "call"]))
                    if not bad:
                        r.ob(k, True, f.loc(span_line(t["s"])), "exclude_methods() is read by value")
        r.ob("flag-uses-found", uses >= 1, "", "%d uses of Route::exclude_methods()" % uses)
    ctx.run_rule("R01.8", "option flags are read by value (exclude_methods)", body, floor=2)


# ---------------------------------------------------------------------------------------
ALLOWED_INTERIOR = {("marker::MarkerString", "regex_capture")}


def r01_9(ctx, layers):
    F = ctx.facts

    def body(r):
        for L in layers:
            f = L.methods["match_request"]
            if f is None:
                continue
            t0 = F.types[f.j["inputs"][0]]
            r.ob("stateless:%s:&self" % L.short, t0["k"] == "ref" and not t0["mut"], f.site, "match_request takes %s" % t0["s"])
        closure = T.adt_closure(F, [LY.ROUTER, "api::rule::Rule"])
        im = T.interior_mut_fields(F, closure)
        for a, fld, ty in im:
            ok = (a, fld) in ALLOWED_INTERIOR
            r.ob("stateless:interior:%s.%s" % (a, fld), ok, "", "interior mutability %s inside the router's type closure%s" % (ty, " (regex cache, decided transparent by C12)" if ok else ""))
        r.ob("stateless:closure-size", len(closure) >= 20, "", "%d ADTs in the type closure of Router<Rule>" % len(closure))
        # no mutable or interior-mutable static is reachable from matching
        cg = F.callgraph()
        roots = [L.methods["match_request"] for L in layers if L.methods["match_request"]]
        reach = cg.reachable(roots)
        statics_used = set()
        for p in reach:
            g = F.fns[p]
            for bi, si, st in g.assigns():
                for x in walk(Prov(g).rvalue(st["r"])) if False else ():
                    pass
        bad_statics = [s_ for s_ in F.statics if s_["mut"] or not s_["freeze"]]
        # which functions mention those statics
        users = {}
        for g in F.fn_list:
            txt = None
            for bi, si, st in g.assigns():
                r_ = st["r"]
                for o in ([r_.get("o")] if r_.get("o") else []) + r_.get("fields", []) + [x for x in (r_.get("a"), r_.get("b")) if x]:
                    k = o.get("k") if isinstance(o, dict) else None
                    if k and "static" in k:
                        users.setdefault(k["static"], set()).add(g.path)
        for s_ in bad_statics:
            if s_["path"].endswith("::__CALLSITE"):
                r.exception("stateless:static:%s" % s_["path"], "tracing callsite registration (logging metadata only, no effect on results)")
                continue
            us = users.get(s_["path"], set()) & reach
            r.ob("stateless:static:%s" % s_["path"], not us, "%s:%s" % (s_["file"], s_["line"]), "non-Freeze/mutable static %s reachable from matching: %s" % (s_["path"], sorted(us)))
    ctx.run_rule("R01.9", "matching is stateless (&self, no interior mutability but the regex cache, no mutable statics)", body, floor=9)


# ---------------------------------------------------------------------------------------
def regex_build_sites(F):
    out = []
    for f in F.fn_list:
        for bi, t, cal in f.calls():
            if cal and cal.adt in ("regex::Regex", "regex::RegexBuilder", "regex::bytes::Regex", "regex::bytes::RegexBuilder") and cal.name == "new":
                out.append((f, bi, t, cal))
    return out


def is_case_flag(x):
    return x[0] == "field" and "ignore" in (x[2] or "") and "case" in (x[2] or "")


def payload_selected_by_case_flag(F, adt, variant):
    """For every function constructing `adt::variant` (outside derives): among its paths, the
    payload built when a case-flag atom is true differs from the one built when it is false."""
    n = 0
    ok_all = True
    for g in F.fn_list:
        if g.derived:
            continue
        has = False
        for bi, si, st in g.assigns():
            r_ = st["r"]
            if r_["k"] == "agg" and r_.get("adt") == adt and r_.get("variant") == variant:
                has = True
        if not has:
            continue
        n += 1
        by_flag = {0: set(), 1: set()}
        for p in Sym(g, copies=False, max_paths=50000).paths():
            payloads = []
            for e in p.events:
                pass
            # payload values: scan every aggregate value that appears in set/write/call events
            vals = []
            for e in p.events:
                if e[0] in ("set", "init"):
                    vals.append(e[3])
                elif e[0] in ("write", "lwrite"):
                    vals.append(e[2])
                elif e[0] == "call":
                    vals.extend(e[2])
            pl = None
            for v in vals:
                for x in walk(v):
                    if x[0] == "agg" and x[1] == adt and x[2] == variant and x[3]:
                        pl = x[3][0][1]
            if pl is None:
                continue
            for a, v in p.conds:
                if mentions(a, is_case_flag) and v in (0, 1):
                    by_flag[v].add(pl)
        if not by_flag[0] or not by_flag[1] or by_flag[0] == by_flag[1]:
            ok_all = False
    return ok_all, n


def r01_11(ctx):
    F = ctx.facts

    def body(r):
        sites = regex_build_sites(F)
        for f, bi, t, cal in sites:
            r.analysed(f)
            key = "regex-build:%s" % f.key
            if cal.adt.endswith("RegexBuilder"):
                # must call case_insensitive(flag) with a flag that is data (not a constant)
                ok = False
                detail = "RegexBuilder without case_insensitive()"
                pv = Prov(f, copies=True)
                for bj, t2, c2 in f.calls():
                    if c2 and c2.name == "case_insensitive":
                        flag = pv.operand(t2["args"][1])
                        ok = flag[0] != "const"
                        detail = "case_insensitive(%s)" % show(flag, f)
                r.ob(key, ok, f.loc(span_line(t["s"])), detail)
            else:
                # Regex::new(pattern): acceptable only if the pattern carries the flag inline,
                # i.e. the pattern expression depends on a case flag
                pv = Prov(f, copies=True)
                pat = pv.operand(t["args"][0])
                dep = mentions(pat, is_case_flag)
                how = "pattern depends on the case flag" if dep else ""
                if not dep:
                    # the pattern is the payload of an enum variant: follow it to every site that
                    # constructs that variant and require the payload there to be selected by a
                    # case flag (control dependence, decided on the constructing function's paths)
                    vs = [x for x in walk(pat) if x[0] == "variant"]
                    adts = [x[3] for x in walk(pat) if x[0] == "field" and x[3]]
                    if vs and adts:
                        variant, adt = vs[0][2], adts[0]
                        sites_ok, n_sites = payload_selected_by_case_flag(F, adt, variant)
                        dep = n_sites > 0 and sites_ok
                        how = "payload of %s::%s is chosen under a case flag at its %d construction site(s)" % (adt.rsplit("::", 1)[1], variant, n_sites)
                r.ob(key, dep, f.loc(span_line(t["s"])),
                     "Regex::new(%s): %s" % (show(pat, f), how if dep else "built case-sensitively whatever the configuration (request header values are lower-cased under ignore_header_case)"))
        # rule side: HeaderMatcher::insert must make the stored regex depend on the case flag when
        # match_value cannot see the configuration
        r.ob("regex-build:sites", len(sites) >= 2, "", "%d regex construction sites" % len(sites))
    ctx.run_rule("R01.11", "case flag reaches every regex build", body, floor=3)


def r01_14(ctx):
    """Bucket keys: the date/time conditions are keys of ordered maps and sets (`BTreeSet<DateTimeCondition>`
    groups, the per-request memo).  A hand-written ordering of a key type must compare the *whole* key: it is one
    std comparison (`Iterator::cmp`, `Ord::cmp`, slice / tuple comparison) of a projection of `self` with the same
    projection of `other` — a comparison cut short (zip, take, find, first) makes different keys equal, and two
    rules then share a bucket or a memo entry."""
    F = ctx.facts
    TRUNC = {"zip", "take", "take_while", "map_while", "find", "find_map", "position", "first", "last", "nth", "skip", "step_by", "any", "all"}

    def body(r):
        n = 0
        for f in F.fn_list:
            if f.trait != "std::cmp::Ord" or f.name != "cmp" or f.derived or not f.file.startswith("src/router/"):
                continue
            n += 1
            r.analysed(f)
            rets = {p.end[1] for p in Sym(f, copies=True).paths() if p.end[0] == "ret"}
            whole = len(rets) == 1
            e = next(iter(rets)) if rets else ()
            whole = whole and e[0] == "call" and e[1].rsplit("::", 1)[1] == "cmp" and len(e[2]) == 2 \
                and mentions(e[2][0], lambda x: x == ("param", 1)) and not mentions(e[2][0], lambda x: x == ("param", 2)) \
                and mentions(e[2][1], lambda x: x == ("param", 2)) and not mentions(e[2][1], lambda x: x == ("param", 1))
            cut = sorted({cal.name for b in f.all_bodies() for bi, t, cal in b.calls() if cal is not None and not cal.local and cal.name in TRUNC})
            r.ob("key-order:%s" % f.key, whole and not cut, f.site, "cmp is one comparison of the whole key of self with that of other" if whole and not cut else "cmp is not a single whole-key comparison (returns %s; truncating adaptors %s)" % ([show(x, f)[:80] for x in rets], cut))
        r.ob("key-order:impls", n >= 2, "", "%d hand-written Ord impls under src/router" % n)
    ctx.run_rule("R01.14", "hand-written orderings of bucket keys compare the whole key", body, floor=3)


def run(ctx):
    try:
        layers = LY.discover(ctx.facts)
    except MissingAnchor as e:
        r = ctx.rule("R01.0", "layer discovery")
        r.missing(str(e))
        return
    r0 = ctx.rule("R01.0", "layer discovery", floor=2)
    r0.ob("layers:count", len(layers) == 7, "", "%d matcher layers discovered from Router.matcher: %s" % (len(layers), [L.short for L in layers]))
    r0.ob("layers:buckets", sum(len(L.buckets) for L in layers) >= 16, "", "%d bucket fields" % sum(len(L.buckets) for L in layers))
    r0.finish()
    r01_1(ctx, layers)
    r01_2(ctx, layers)
    r01_4(ctx, layers)
    r01_5(ctx)
    r01_7(ctx, layers)
    r01_8(ctx)
    r01_9(ctx, layers)
    r01_11(ctx)
    from .c02 import r02_8
    r02_8(ctx, layers, rid="R01.12")
    from .c02 import r02_9
    r02_9(ctx, layers, rid="R01.13")
    r01_14(ctx)
