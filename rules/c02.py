"""C02 — incremental updates are equivalent to rebuilding; clones are isolated."""
from riolib.core import Callee, MissingAnchor, op_place, span_line
from riolib.prov import Prov, show, mentions, mentions_field, walk
from riolib.sym import Sym, for_loops
from riolib.effects import effects, transitive_writes
from riolib import types as T
from . import layers as LY

THOROUGH_CONFIGS = ['dot', 'router']
WITNESSES = ['w1']


TREE = "regex_radix_tree::"
REMOVE_RESULT_CALLEES = ("remove",)


def payload_used(fn, dest_local):
    """P8: is the Option returned into `dest_local` used beyond a bare presence test?  True iff
    some statement moves/copies the whole local or reads `(dest as Some).0`."""
    for bi in fn.normal_blocks():
        b = fn.blocks[bi]
        ops = []
        for st in b["st"]:
            if st["k"] == "A":
                r = st["r"]
                for key in ("o", "a", "b"):
                    if key in r and isinstance(r[key], dict):
                        ops.append(r[key])
                ops.extend(r.get("fields", []))
                if r["k"] in ("ref",) and r["p"][0] == dest_local:
                    # a borrow of the payload or of the whole option handed on
                    if r["p"][1] and any(isinstance(x, list) and x[0] == "f" for x in r["p"][1]):
                        return True
        t = b["term"]
        if t["k"] == "call":
            ops.extend(t["args"])
        for o in ops:
            pl = op_place(o)
            if pl is None or pl[0] != dest_local:
                continue
            if not pl[1]:
                return True  # whole value moved somewhere (return slot, captured variable, tuple)
            if any(isinstance(x, list) and x[0] == "f" for x in pl[1]):
                return True
    return False


def r02_1(ctx, layers):
    def body(r):
        LY.bucket_coverage(ctx.facts, layers, ("remove", "batch_remove"), r)
    ctx.run_rule("R02.1", "bucket coverage of remove / batch_remove", body, floor=32)


def r02_2(ctx, layers):
    F = ctx.facts

    def check_fn(r, f, owner, child_pred):
        n = 0
        for g in f.all_bodies():
            for bi, t, cal in g.calls():
                if cal is None or cal.name != "remove" or not child_pred(cal):
                    continue
                n += 1
                dest = t["dest"]
                used = (not dest[1]) and (dest[0] == 0 or payload_used(g, dest[0]))
                if dest[1]:
                    used = True  # written straight into a place (field / return slot)
                where = "closure" if g is not f else "body"
                key = "remove-result:%s:%s:%s" % (owner, cal.key(), where if g is f else g.path.rsplit("::", 1)[1])
                r.ob(key, used, g.loc(span_line(t["s"])),
                     "result of `%s` %s" % (cal.key(), "is propagated" if used else "is dropped: the removed route is not returned to the caller"))
                # inside a traversal closure (called once per bucket) the result goes into a variable of the enclosing
                # function: a bucket that did not hold the route must not overwrite what an earlier bucket returned
                if g is not f and g.is_closure:
                    over = False
                    for p in Sym(g, copies=True).paths():
                        for e in p.events:
                            if e[0] == "write" and mentions(e[1], lambda x: x[0] == "field" and len(x) > 3 and x[3] == "{closure}") and e[2][0] == "call" and e[2][1] == cal.key():
                                caps = {x for x in walk(e[1]) if x[0] == "field" and len(x) > 3 and x[3] == "{closure}"}
                                # (fine when the path established that nothing was found so far)
                                empty_so_far = any(a[0] == "call" and a[1].rsplit("::", 1)[1] in ("is_some", "is_none") and any(c in set(walk(a[2][0])) for c in caps)
                                                   and v == (0 if a[1].endswith("is_some") else 1) for a, v in p.conds)
                                # (or that this bucket did return a route: `if r.is_some() { removed = r }`)
                                found_here = any((a[0] == "call" and a[1].rsplit("::", 1)[1] in ("is_some", "is_none") and a[2] and a[2][0] == e[2] and v == (1 if a[1].endswith("is_some") else 0))
                                                 or (a[0] == "disc" and a[1] == e[2] and v == "Some") for a, v in p.conds)
                                if not empty_so_far and not found_here:
                                    over = True
                    r.ob(key + ":kept", not over, g.loc(span_line(t["s"])),
                         "a found route is kept: the captured result is assigned only when this bucket returned one" if not over else "the captured result is overwritten with whatever this bucket returned — `None` from a later bucket erases the removed route")
        return n

    def body(r):
        for L in layers:
            f = L.methods["remove"]
            if f is None:
                continue
            r.analysed(f)
            check_fn(r, f, L.short, lambda c: (c.local and (c.adt == L.next or (c.adt or "").startswith(TREE))) or c.adt in ("std::collections::HashMap", "std::collections::BTreeMap"))
        for adt in ("regex_radix_tree::item::Item", "regex_radix_tree::node::Node", "regex_radix_tree::leaf::Leaf", "regex_radix_tree::tree::RegexTreeMap", "regex_radix_tree::tree::UniqueRegexTreeMap"):
            f = F.method(adt, "remove")
            r.analysed(f)
            check_fn(r, f, adt.rsplit("::", 1)[1], lambda c: (c.local and (c.adt or "").startswith(TREE)) or c.adt in ("std::collections::HashMap",))
        f = F.method(LY.ROUTER, "remove")
        r.analysed(f)
        check_fn(r, f, "Router", lambda c: c.local and c.adt == layers[0].adt)
    ctx.run_rule("R02.2", "removal results are propagated to the caller", body, floor=16)


def r02_3(ctx, layers):
    F = ctx.facts

    def body(r):
        for name in ("insert_route", "remove", "batch_remove"):
            f = F.method(LY.ROUTER, name)
            r.analysed(f)
            e = effects(f)
            mut = set(e.writes) | set(e.mut_escapes_local)
            for fld in ("routes", "matcher"):
                ok = (LY.ROUTER, fld) in mut
                r.ob("sync:Router::%s:%s" % (name, fld), ok, f.site, "Router::%s %s `%s`" % (name, "updates" if ok else "does not update", fld))
        for name in ("len", "get_route_by_id", "is_empty"):
            f = F.method(LY.ROUTER, name)
            e = effects(f)
            touched = {fl for (a, fl) in e.reads | set(e.writes) if a == LY.ROUTER}
            r.ob("sync:Router::%s:reads-routes" % name, touched == {"routes"}, f.site, "Router::%s reads %s" % (name, sorted(touched)))
    ctx.run_rule("R02.3", "router id-index and matcher tree are updated together", body, floor=9)


def r02_4(ctx, layers):
    F = ctx.facts

    def body(r):
        f = F.method(LY.ROUTER, "apply_change_set")
        r.analysed(f)
        pv = Prov(f, copies=True)
        calls = {}
        for bi, t, cal in f.calls():
            if cal is None:
                continue
            calls.setdefault(cal.key(), []).append((bi, t))
        br = calls.get("router::Router::batch_remove", [])
        ins = calls.get("router::Router::insert_route", []) + calls.get("router::Router::insert", [])
        r.ob("changeset:batch_remove-once", len(br) == 1, f.site, "%d batch_remove calls" % len(br))
        if len(br) != 1:
            return
        bb = br[0][0]
        r.ob("changeset:inserts-found", len(ins) >= 2, f.site, "%d insert calls" % len(ins))
        for bi, t in ins:
            r.ob("changeset:remove-before-insert@%s" % Callee(t["f"]).name, f.dominates(bb, bi) and bb != bi, f.loc(span_line(t["s"])), "batch_remove dominates the insertion")
        # the removal set handed to batch_remove is the `removed` parameter extended with updated ids
        arg = pv.operand(br[0][1]["args"][1])
        r.ob("changeset:removal-set-is-param", arg == ("param", 4), f.site, "batch_remove receives %s" % show(arg, f))
        ext = [(bi, t) for bi, t, cal in f.calls() if cal and cal.name == "extend" and pv.operand(t["args"][0]) == ("param", 4)]
        ok = False
        from riolib.prov import container_fills, mentions_through_containers
        pvs, fills = container_fills(f)
        from_updated = lambda e: mentions_through_containers(e, lambda x: x == ("param", 3), fills)
        for bi, t in ext:
            src = pvs.operand(t["args"][1])
            if f.dominates(bi, bb) and from_updated(src):
                ok = True
        if not ok:
            # the same written as a loop: for route in <updated> { removed.insert(route.id()) }
            s = Sym(f, copies=True)
            for lp in for_loops(f, pvs):
                if not from_updated(lp.source) or not f.dominates(lp.exit, bb):
                    continue
                its = [p for p in lp.iteration_paths(s) if p.end[0] == "stop"]
                if its and all(any(e[0] == "call" and e[1].endswith("HashSet::insert") and e[2][0] in (("param", 4), ("local", 4)) and mentions(e[2][1], lambda x: x[0] == "call" and x[1].endswith("::id")) for e in p.events) for p in its):
                    if not any(bb in p.blocks for p in its):
                        ok = True
        r.ob("changeset:updated-ids-removed", ok, f.site, "ids of `updated` are added to the removal set before batch_remove")
        # updated are inserted before added
        loops = for_loops(f, pvs)
        ins_blocks = {bi for bi, t in ins}
        inserting = [lp for lp in loops if lp.blocks() & ins_blocks]
        upd = [lp for lp in inserting if from_updated(lp.source)]
        add = [lp for lp in inserting if mentions(lp.source, lambda x: x == ("param", 2))]
        ok2 = bool(upd and add) and all(f.dominates(u.exit, a.next_block) for u in upd for a in add)
        r.ob("changeset:updated-before-added", ok2, f.site, "the loop inserting `updated` completes before the loop inserting `added`")
    ctx.run_rule("R02.4", "change-set ordering", body, floor=6)


def count_verdicts(layers):
    """Per layer: (fn, problems where count is decremented although nothing was removed,
    problems where something was removed but count is not decremented, path count)."""
    out = []
    for L in layers:
        f = L.methods["remove"]
        if f is None:
            continue
        extra, missing = [], []
        n = 0
        for p in Sym(f, copies=True).paths():
            if p.end[0] != "ret":
                continue
            n += 1
            decs = [e for e in p.events if e[0] == "write" and mentions_field(e[1], "count", L.adt) and mentions(e[2], lambda x: x[0] == "bin" and x[1].startswith("Sub") and x[3] == ("const", 1))]
            other = [e for e in p.events if e[0] == "write" and mentions_field(e[1], "count", L.adt) and e not in decs]
            ret = p.end[1]
            verdict = None
            if ret[0] == "agg" and ret[2] in ("Some", "None"):
                verdict = ret[2] == "Some"
            for a, v in p.conds:
                if a[0] == "call" and a[1] == "std::option::Option::is_some" and a[2][0] == ret:
                    verdict = bool(v)
                if a[0] == "call" and a[1] == "std::option::Option::is_none" and a[2][0] == ret:
                    verdict = not bool(v)
                if a[0] == "disc" and a[1] == ret:
                    verdict = v == "Some"
            if other:
                extra.append("count written by something else than `-= 1`")
            elif verdict is None:
                if decs:
                    extra.append("a path returning %s decrements count without testing that something was removed" % show(ret, f))
                else:
                    missing.append("a path returns %s without the count update being governed by its presence" % show(ret, f))
            elif verdict and len(decs) != 1:
                (missing if not decs else extra).append("returns Some with %d decrements" % len(decs))
            elif not verdict and decs:
                extra.append("returns None but decrements count")
        out.append((L, f, extra, missing, n))
    return out


def r02_5(ctx, layers):
    def body(r):
        for L, f, extra, missing, n in count_verdicts(layers):
            r.analysed(f)
            r.ob("count:%s::remove:no-spurious-decrement" % L.short, not extra and n > 0, f.site,
                 "count is decremented only when a route was removed (%d paths); a spurious decrement would let a parent prune a non-empty bucket" % n if not extra else "; ".join(sorted(set(extra))[:3]))
    ctx.run_rule("R02.5", "count is never decremented unless a route was removed", body, floor=7)


def r02_9(ctx, layers, rid="R02.9"):
    """`count` drives is_empty(), which parents use to prune buckets: it may only move by one per inserted /
    removed route.  Every statement that writes a layer's count is one of the two recognised updates."""
    F = ctx.facts
    from riolib.effects import place_field_chain

    def body(r):
        n = 0
        for L in layers:
            for f in F.fn_list:
                if f.derived:
                    continue
                pv = None
                for bi, si, st in f.assigns():
                    if (L.adt, "count") not in place_field_chain(st["p"]):
                        continue
                    pv = pv or Prov(f, copies=True)
                    n += 1
                    v = pv.rvalue(st["r"])
                    cnt = lambda x: x[0] == "field" and x[2] == "count" and x[3] == L.adt
                    step = [x for x in walk(v) if x[0] == "bin" and (x[1].startswith("Add") or x[1].startswith("Sub")) and cnt(x[2]) and x[3] == ("const", 1)]
                    ok = bool(step) and f.adt == L.adt and ((step[0][1].startswith("Add") and f.name == "insert") or (step[0][1].startswith("Sub") and f.name == "remove"))
                    key = "count-write:%s:%s" % (L.short, f.key.rsplit("::", 1)[1])
                    r.ob(key, ok, f.loc(span_line(st["s"])),
                         "count %s 1 in %s" % ("+=" if step and step[0][1].startswith("Add") else "-=", f.name) if ok else
                         "%s.count := %s in %s: count must stay the number of live routes of the layer (it decides is_empty() and the pruning of buckets); only `+= 1` per insert and `-= 1` per removed route are recognised" % (L.short, show(v, f)[:80], f.key))
        r.ob("count-write:sites", n >= 14, "", "%d statements write a layer count" % n)
    ctx.run_rule(rid, "count moves by one per inserted / removed route", body, floor=14)


def r02_10(ctx, layers):
    """The boolean a layer's batch_remove returns means "nothing is left here": it is true only when every
    bucket was found empty (or it is the count-based is_empty())."""
    F = ctx.facts

    def body(r):
        for L in layers:
            f = L.methods["batch_remove"]
            if f is None:
                continue
            r.analysed(f)
            bad = set()
            n = 0
            for p in Sym(f, copies=True, max_paths=50000).paths():
                if p.end[0] != "ret":
                    continue
                ret = p.end[1]
                if ret == ("const", False):
                    continue
                n += 1
                emptied = set()
                via_count = False
                terms = [(a, v) for a, v in p.conds] + [(ret, 1)]
                for a, v in terms:
                    if a[0] == "call" and a[1].rsplit("::", 1)[1] == "is_empty" and v == 1:
                        for b in L.buckets:
                            if mentions_field(a[2][0], b, L.adt):
                                emptied.add(b)
                        if a[1] == L.adt + "::is_empty" and a[2][0] == ("param", 1):
                            via_count = True
                    if a[0] == "bin" and a[1] == "Eq" and v == 1 and mentions_field(a[2], "count", L.adt) and a[3] == ("const", 0):
                        via_count = True
                missing = [b for b in L.buckets if b not in emptied]
                if missing and not via_count:
                    bad.add("reports `empty` without having found %s empty" % ", ".join(missing))
            r.ob("emptiness:%s::batch_remove" % L.short, not bad and n > 0, f.site,
                 "returns true only when every bucket (%s) is empty" % ", ".join(L.buckets) if not bad else "; ".join(sorted(bad)) + ": a caller that prunes on this answer drops live routes")
    ctx.run_rule("R02.10", "a layer reports itself empty only when every bucket is", body, floor=7)


ALLOWED_INTERIOR = {("marker::MarkerString", "regex_capture")}
NO_UNSAFE_MODULES = ("src/router/", "src/regex_radix_tree/", "src/marker/", "src/regex.rs", "src/api/rules_message.rs", "src/api/rule.rs")


def marker_compile_stores_own(F):
    """MarkerString::compile: the value written through the lock guard is LazyRegex::compile() of
    the value read through that same guard (not of a regex rebuilt from other fields)."""
    f = F.fn("marker::MarkerString::compile")
    n = 0
    for p in Sym(f, copies=True).paths():
        for e in p.events:
            if e[0] == "write" and mentions(e[2], lambda x: x[0] == "call" and x[1] == "regex::LazyRegex::compile"):
                n += 1
                comp = [x for x in walk(e[2]) if x[0] == "call" and x[1] == "regex::LazyRegex::compile"][0]
                recv = comp[2][0]
                from_guard = mentions(recv, lambda x: x[0] == "call" and x[1].rsplit("::", 1)[1] in ("write", "lock", "try_write") and mentions_field(x[2][0], "regex_capture", "marker::MarkerString"))
                rebuilt = mentions(recv, lambda x: x[0] == "call" and x[1] in ("regex::LazyRegex::new_leaf", "regex::LazyRegex::new_node"))
                if not from_guard or rebuilt:
                    return False, "regex_capture := compile(%s): not the regex that was stored there (captures of the compiled form may differ from the lazy form)" % show(recv, f)
                dest_guard = mentions(e[1], lambda x: x[0] == "call" and x[1].rsplit("::", 1)[1] in ("write", "lock", "try_write"))
                if not dest_guard:
                    return False, "compile() result stored into %s" % show(e[1], f)
    if n == 0:
        return False, "MarkerString::compile does not store a compiled regex"
    return True, "MarkerString::compile stores LazyRegex::compile() of the value it read through the same lock guard"


def r02_6(ctx, layers):
    F = ctx.facts

    def body(r):
        closure = T.adt_closure(F, [LY.ROUTER, "api::rule::Rule"])
        for a, fld, ty in T.interior_mut_fields(F, closure):
            ok = (a, fld) in ALLOWED_INTERIOR
            r.ob("isolation:interior:%s.%s" % (a, fld), ok, "", "interior mutability (%s) behind the shared router%s" % (ty, ": regex cache only" if ok else ""))
        # the only writer of the allowed cell is MarkerString::compile storing LazyRegex::compile of itself
        writers = []
        for f in F.fn_list:
            for bi, t, cal in f.calls():
                if cal and cal.name in ("write", "try_write", "get_mut", "lock") and cal.adt and T.is_interior_mut(cal.adt):
                    writers.append((f, t))
        for f, t in writers:
            ok = f.key == "marker::MarkerString::compile"
            r.ob("isolation:lock-writer:%s" % f.key, ok, f.loc(span_line(t["s"])), "write access to an interior-mutable cell in %s" % f.key)
        f = F.fn("marker::MarkerString::compile")
        r.analysed(f)
        ok_store, why = marker_compile_stores_own(F)
        r.ob("isolation:compile-stores-own-compile", ok_store, f.site, why)
        # no user unsafe in the modules holding the shared structures
        n_unsafe = 0
        for ub in F.unsafe_blocks:
            if any(ub["file"].startswith(m) for m in NO_UNSAFE_MODULES):
                n_unsafe += 1
                r.ob("isolation:unsafe:%s" % ub["fn"], False, "%s:%s" % (ub["file"], ub["line"]), "unsafe block in a module holding shared router state")
        r.ob("isolation:no-unsafe", n_unsafe == 0, "", "no user-written unsafe block in router / regex_radix_tree / marker / regex / rules_message (%d unsafe blocks elsewhere in the crate)" % len(F.unsafe_blocks))
        for f2 in F.fn_list:
            if f2.j.get("unsafe") and any(f2.file.startswith(m) for m in NO_UNSAFE_MODULES):
                r.ob("isolation:unsafe-fn:%s" % f2.key, False, f2.site, "unsafe fn in a module holding shared router state")
        # update_existing_router mutates and returns the clone
        g = F.fn("api::rules_message::RuleChangeSet::update_existing_router")
        r.analysed(g)
        ok_clone = False
        ok_ret = False
        for p in Sym(g, copies=False).paths():
            if p.end[0] != "ret":
                continue
            for e in p.events:
                if e[0] == "call" and e[1] == "router::Router::apply_change_set":
                    recv = e[2][0]
                    ok_clone = recv[0] == "call" and recv[1].endswith("Clone>::clone") and mentions(recv, lambda x: x == ("param", 2))
                    ok_ret = p.end[1] == recv
                    if p.end[1][0] == "havoc":
                        sets = [x for x in p.events if x[0] == "set" and x[1] == p.end[1][1]]
                        ok_ret = bool(sets) and sets[-1][3] == recv
        r.ob("isolation:mutates-the-clone", ok_clone, g.site, "apply_change_set is applied to Router::clone(existing)")
        # ... with the three lists of the change set as they were received (added / updated / deleted are
        # classified by whoever computed the change set; the wrapper does not re-sort them)
        given = True
        seen_call = False
        CS = "api::rules_message::RuleChangeSet"
        for p in Sym(g, copies=True).paths():
            for e in p.events:
                if e[0] == "call" and e[1] == "router::Router::apply_change_set":
                    seen_call = True
                    want = [("field", ("param", 1), n, CS) for n in ("added", "updated", "deleted")]
                    given = given and list(e[2][1:4]) == want
        r.ob("changeset:update_existing_router:lists-as-given", given and seen_call, g.site, "apply_change_set receives self.added, self.updated, self.deleted in this order")
        r.ob("isolation:returns-the-clone", ok_ret, g.site, "the mutated clone is what is returned")
        t2 = F.types[g.j["inputs"][1]]
        r.ob("isolation:shared-arc-param", t2.get("adt") == "std::sync::Arc", g.site, "existing router is received as %s (immutable access only)" % t2["s"])
        # manual Clone impls clone every field
        for adt in ("regex_radix_tree::item::Item", "regex_radix_tree::node::Node", "regex_radix_tree::leaf::Leaf", "regex_radix_tree::tree::RegexTreeMap", "regex_radix_tree::tree::UniqueRegexTreeMap"):
            c = F.method(adt, "clone", trait="std::clone::Clone")
            r.analysed(c)
            fields = {(v["name"], fl["name"]) for v in F.adt(adt)["variants"] for fl in v["fields"]}
            read = {fl for (a, fl) in effects(c).reads if a == adt}
            built = set()
            for p in Sym(c, copies=False).paths():
                if p.end[0] == "ret" and p.end[1][0] == "agg" and p.end[1][1] == adt:
                    for n_, v in p.end[1][3]:
                        if mentions(v, lambda x: x[0] == "field" and x[3] == adt and x[2] == n_) or (v[0] == "un"):
                            built.add((p.end[1][2], n_))
                        elif mentions(v, lambda x: x[0] == "field" and x[3] == adt):
                            built.add((p.end[1][2], n_))
            missing = fields - built
            r.ob("isolation:clone-all-fields:%s" % adt.rsplit("::", 1)[1], not missing, c.site, "manual Clone copies every field" if not missing else "fields not cloned from self: %s" % sorted(missing))
        # derived Clone on the layers (deep copy of buckets)
        for L in layers:
            imps = [i for i in F.impls if i.get("adt") == L.adt and i.get("trait") == "std::clone::Clone"]
            r.ob("isolation:derived-clone:%s" % L.short, bool(imps) and all(i["derived"] for i in imps), "", "%s: Clone is %s" % (L.short, "derived" if imps and all(i["derived"] for i in imps) else "hand-written or missing"))
    ctx.run_rule("R02.6", "clone isolation (type level)", body, floor=20)


def multi_placement_buckets(L):
    """bucket fields of layer L into which `insert` may place one route several times (placement
    inside a for loop)."""
    from .c01 import is_child_call, bucket_of
    ins = L.methods["insert"]
    multi = set()
    if ins is None:
        return multi
    si = Sym(ins, copies=True)
    for lp in for_loops(ins):
        for p in lp.iteration_paths(si):
            for e in p.events:
                if is_child_call(e, L, "insert"):
                    multi.update(bucket_of(e[2][0], L))
    return multi


def r02_8(ctx, layers, rid="R02.8"):
    F = ctx.facts

    def body(r):
        n = 0
        for L in layers:
            f = L.methods["remove"]
            if f is None or not L.next:
                continue
            multi = multi_placement_buckets(L)
            r.analysed(f)
            pv = Prov(f, copies=True)
            # traversals of bucket maps in remove: retain(closure) calls whose receiver is a bucket
            for bi, t, cal in f.calls():
                if cal is None or cal.name not in ("retain", "retain_mut"):
                    continue
                recv = pv.operand(t["args"][0])
                b = [x for x in L.buckets if mentions_field(recv, x, L.adt)]
                if not b:
                    continue
                cl = None
                for tix in cal.substs:
                    ty = F.types[tix]
                    if ty.get("k") == "closure":
                        cl = F.fns.get(ty["def"])
                if cl is None:
                    # closure passed by reference (&|..|): look it up among the closures of remove
                    continue
                n += 1
                skips = 0
                total = 0
                for p in Sym(cl, copies=True).paths():
                    if p.end[0] != "ret":
                        continue
                    total += 1
                    if not any(e[0] == "call" and e[1] in ("%s::remove" % L.next, "std::collections::HashMap::remove") for e in p.events):
                        skips += 1
                key = "removal-visits-every-bucket:%s:%s" % (L.short, b[0])
                if b[0] in multi:
                    r.ob(key, skips == 0 and total > 0, cl.site,
                         "a route can live in several `%s` buckets (insert places it in a loop): %s" % (b[0], "every bucket is asked to remove it" if skips == 0 else "the traversal stops asking after the first hit, the other buckets keep the removed route"))
                else:
                    r.ob(key, True, cl.site, "a route lives in at most one `%s` bucket: %s" % (b[0], "early exit after the hit is sound" if skips else "every bucket is visited"))
        r.ob("removal-visits-every-bucket:traversals", n >= 7, "", "%d bucket traversals in the layers' remove" % n)
    ctx.run_rule(rid, "single-id removal visits every bucket a route can live in", body, floor=8)


def run(ctx):
    try:
        layers = LY.discover(ctx.facts)
    except MissingAnchor as e:
        r = ctx.rule("R02.0", "layer discovery")
        r.missing(str(e))
        return
    r02_1(ctx, layers)
    r02_2(ctx, layers)
    r02_3(ctx, layers)
    r02_4(ctx, layers)
    r02_5(ctx, layers)
    r02_6(ctx, layers)
    from .c08 import r08_2
    r08_2(ctx, rid="R02.7")
    r02_8(ctx, layers)
    r02_9(ctx, layers)
    r02_10(ctx, layers)
    from .c08 import r08_8
    r08_8(ctx, rid="R02.11")
