"""C03 — body filtering is invariant under chunking (structural conditions)."""
from riolib.core import Callee, MissingAnchor, span_line
from riolib.prov import Prov, show, mentions, mentions_field, walk
from riolib.sym import Sym, for_loops
from riolib.effects import effects, transitive_writes

THOROUGH_CONFIGS = ['dot', 'compress']


MANIFEST = {
    "text": "Static decision of the chunk-carrying mechanisms: the carry-over discipline of HtmlFilterBodyAction::filter (the tokenizer is fed held-back bytes followed by the new chunk; every path on which the tokenizer ran out of input stores, in input order, the pending text, the unfinished token and the unread remainder before returning; no other normal return); the resume-state typestate of the tokenizer (state written by one next() and read by a later one must be carried to the tokenizer of the next chunk); the executed-flag typestate of the text filters as decision tables; the end() chaining of the stage list. Invariance at every cut position for every document is a run-time fact of the tokenizer and is not decided.",
    "technique": "static analysis: must-pass-through and provenance of held-back bytes, inter-call state (field effect) typestate, decision tables over MIR",
}

HF = "filter::html_filter_body::HtmlFilterBodyAction"
TOK = "html::Tokenizer"
TEXT = "filter::text_filter_body::TextFilterBodyAction"
FBA = "filter::filter_body::FilterBodyAction"
ITEM = "filter::filter_body::FilterBodyActionItem"


def is_error_token_test(a, v):
    """cond `token_type == ErrorToken` is true"""
    return a[0] == "call" and "PartialEq" in a[1] and v == 1 and any(x[0] == "agg" and x[2] == "ErrorToken" for x in a[2])


def r03_1(ctx, rid="R03.1"):
    F = ctx.facts

    def body(r):
        f = F.method(HF, "filter")
        r.analysed(f)
        s = Sym(f, copies=True, max_paths=400000)
        paths = s.paths()
        # (a) tokenizer input = last_buffer ++ input
        ok_a = False
        for p in paths:
            newt = [e for e in p.events if e[0] == "call" and e[1].startswith(TOK + "::new")]
            if not newt or newt[0][2][0][0] != "local":
                continue
            buf = newt[0][2][0][1]  # the buffer handed to the tokenizer
            init = [e for e in p.events if e[0] == "init" and e[1] == buf]
            ext = [e for e in p.events if e[0] == "call" and e[1].endswith("Extend>::extend") and e[2][0] == ("local", buf)]
            if init and ext:
                ok_a = init[0][3] == ("field", ("param", 1), "last_buffer", HF) and len(ext) == 1 and ext[0][2][1] == ("param", 2) and p.events.index(init[0]) < p.events.index(ext[0]) < p.events.index(newt[0])
                break
        r.ob("carry:input-is-held-back-then-chunk", ok_a, f.site, "the tokenizer is fed self.last_buffer followed by the new chunk")
        # (b)/(c) every Ok return stores the leftover in input order
        n_ok = 0
        bad = []
        for p in paths:
            if p.end[0] != "ret":
                continue
            ret = p.end[1]
            if not (ret[0] == "agg" and ret[2] == "Ok"):
                continue  # an Err propagated with `?` (decided by C04 R04.1 / R04.2)
            n_ok += 1
            if not any(is_error_token_test(a, v) for a, v in p.conds):
                bad.append("a normal return that did not see the tokenizer run out of input")
                continue
            # sequence of contributions to last_buffer after the ErrorToken test
            seq = []
            lastv = None
            for e in p.events:
                if e[0] == "write" and e[1] == ("field", ("param", 1), "last_buffer", HF):
                    v = e[2]
                    lastv = v
                    if v[0] == "call" and v[1] == TOK + "::raw":
                        seq = ["raw"]
                    elif v[0] == "call" and v[1] == "std::string::String::into_bytes":
                        seq = ["pending-text"]
                    else:
                        seq = ["?%s" % show(v, f)]
                elif e[0] == "call" and e[1].endswith("Extend>::extend") and (e[2][0] == ("field", ("param", 1), "last_buffer", HF) or (lastv is not None and e[2][0] == lastv)):
                    v = e[2][1]
                    seq.append("raw" if (v[0] == "call" and v[1] == TOK + "::raw") else "buffered" if (v[0] == "call" and v[1] == TOK + "::buffered") else "?%s" % show(v, f))
            # a token text read with raw_as_string() and not yet appended anywhere is still pending
            inner = False
            for e in p.events:
                if e[0] == "call" and e[1] == TOK + "::raw_as_string":
                    inner = True
                elif e[0] == "call" and e[1] == "std::string::String::push_str":
                    inner = False
            want = ["pending-text", "raw", "buffered"] if inner else ["raw", "buffered"]
            if seq != want:
                bad.append("leftover stored as %s, expected %s" % (seq, want))
        r.ob("carry:leftover-stored-in-input-order", not bad and n_ok >= 3, f.site,
             "on all %d normal returns last_buffer := [pending text,] unfinished token, unread remainder" % n_ok if not bad else "; ".join(sorted(set(bad))[:3]))
        # the held text of the inner loop is the value tested for `<`
        # last_buffer is written nowhere else
        writers = []
        for g in F.fn_list:
            if g.derived:
                continue
            e = effects(g)
            if (HF, "last_buffer") in e.writes:
                writers.append(g.key)
        r.ob("carry:last_buffer-writers", sorted(writers) == [HF + "::filter", HF + "::new"] or sorted(writers) == [HF + "::filter"], f.site, "last_buffer is written by %s" % sorted(writers))
    ctx.run_rule(rid, "carry-over discipline of held-back bytes", body, floor=3)


def r03_2(ctx):
    F = ctx.facts

    def body(r):
        nx = F.method(TOK, "next")
        cg = F.callgraph()
        reach = [F.fns[p] for p in cg.reachable([nx]) if F.fns[p].adt == TOK]
        written, read = set(), set()
        for g in reach:
            e = effects(g)
            written |= {fl for (a, fl) in e.writes if a == TOK}
            read |= {fl for (a, fl) in e.reads if a == TOK}
        # per-token state is reset at the top of next(); what remains is state surviving between tokens
        reset = set()
        first = nx.blocks[0]
        for st in first["st"]:
            if st["k"] == "A":
                for p in st["p"][1]:
                    if isinstance(p, list) and p[0] == "f" and len(p) > 3 and p[3] == TOK:
                        reset.add(p[2])
        carried = sorted((written & read) - {"raw", "data", "token", "pending_attribute", "attribute", "number_attribute_returned", "reader"})
        r.note("tokenizer fields written by one next() and read by a later one: %s" % carried)
        r.ob("resume:inter-token-state-found", "raw_tag" in carried, nx.site, "inter-token state of the tokenizer: %s" % carried)
        # consumers that tokenise one stream with several Tokenizer values
        f = F.method(HF, "filter")
        r.analysed(f)
        pv = Prov(f, copies=True)
        for bi, t, cal in f.calls():
            if cal and cal.local and cal.adt == TOK and cal.name in ("new", "new_fragment"):
                if cal.name == "new":
                    seeded = False
                    why = "built with Tokenizer::new (empty context) for every chunk"
                else:
                    ctxarg = pv.operand(t["args"][1])
                    seeded = mentions(ctxarg, lambda x: x == ("param", 1))
                    why = "context argument %s" % show(ctxarg, f)
                holds = any(ty.get("adt") == TOK or TOK in ty.get("adts", []) for n, ty in F.adt_fields(HF))
                r.ob("resume-state:HtmlFilterBodyAction::filter:Tokenizer::%s" % cal.name, seeded or holds, f.loc(span_line(t["s"])),
                     "the tokenizer of the next chunk %s" % ("is seeded from state kept in self" if (seeded or holds) else "is %s: %s is lost at a chunk boundary (a boundary inside <script>/<style>/<title>/<textarea> changes the tokenisation)" % (why, carried)))
    ctx.run_rule("R03.2", "resume-state typestate of the tokenizer across chunks", body, floor=2)


def r03_3(ctx):
    F = ctx.facts

    def body(r):
        f = F.method(TEXT, "filter")
        r.analysed(f)
        ex = ("field", ("param", 1), "executed", TEXT)
        content = ("field", ("param", 1), "content", TEXT)
        rows = {}
        for p in Sym(f, copies=True).paths():
            if p.end[0] != "ret":
                continue
            act = [v for a, v in p.conds if a[0] == "disc" and a[1] == ("field", ("param", 1), "action", TEXT)]
            exv = dict(p.conds).get(ex)
            wrote = [e[2] for e in p.events if e[0] == "write" and e[1] == ex]
            if exv == 1 and wrote == [("const", True)]:
                wrote = []  # storing `true` in a flag that is known to be true changes nothing
            ret = p.end[1]
            appended = [e for e in p.events if e[0] == "call" and e[1].endswith("Extend>::extend")]
            inits = {e[1]: e[3] for e in p.events if e[0] == "init"}
            if ret == content and not appended:
                out = "content"
            elif appended and (appended[0][2][0] == content or (appended[0][2][0][0] == "local" and inits.get(appended[0][2][0][1]) == content and ret == appended[0][2][0])) and appended[0][2][1] == ("param", 2):
                out = "content+data"
            elif ret == ("param", 2):
                out = "data"
            elif ret in (("call", "std::vec::Vec::new", ()), ("default",)):
                out = "empty"
            else:
                out = show(ret, f)
            rows.setdefault((act[0] if act else None, exv), set()).add((out, tuple(wrote)))
        ref = {
            ("Replace", 0): ("content", (("const", True),)), ("Replace", 1): ("empty", ()),
            ("Prepend", 0): ("content+data", (("const", True),)), ("Prepend", 1): ("data", ()),
            ("Append", None): ("data", ()),
        }
        for k, want in ref.items():
            got = rows.get(k)
            r.ob("text:filter:%s:executed=%s" % k, got == {want}, f.site, "%s with executed=%s -> %s (reference %s)" % (k[0], k[1], got, want))
        extra = set(rows) - set(ref)
        r.ob("text:filter:no-other-rows", not extra, f.site, "rows %s" % sorted(rows, key=str))
        g = F.method(TEXT, "end")
        r.analysed(g)
        rows = {}
        for p in Sym(g, copies=True).paths():
            if p.end[0] == "ret":
                exv = dict(p.conds).get(ex)
                wrote = tuple(e[2] for e in p.events if e[0] == "write" and e[1] == ex)
                if exv == 1 and wrote == (("const", True),):
                    wrote = ()
                rows[exv] = ("content" if p.end[1] == content else "empty" if p.end[1] in (("call", "std::vec::Vec::new", ()), ("default",)) else show(p.end[1], g), wrote)
        r.ob("text:end", rows == {0: ("content", (("const", True),)), 1: ("empty", ())}, g.site, "end(): content iff not emitted yet, and marks it emitted: %s" % rows)
        # `executed` is written only there and starts false
        writers = sorted(h.key for h in F.fn_list if not h.derived and (TEXT, "executed") in effects(h).writes)
        r.ob("text:executed-writers", writers == [TEXT + "::end", TEXT + "::filter"], "", "executed is written by %s" % writers)
        nw = F.method(TEXT, "new")
        init = [dict(p.end[1][3]).get("executed") for p in Sym(nw).paths() if p.end[0] == "ret" and p.end[1][0] == "agg"]
        r.ob("text:executed-starts-false", init == [("const", False)], nw.site, "executed is initialised to %s" % init)
    ctx.run_rule("R03.3", "text filter executed-flag typestate", body, floor=9)


def r03_4(ctx, rid="R03.4"):
    F = ctx.facts

    def body(r):
        f = F.method(FBA, "do_end")
        r.analysed(f)
        s = Sym(f, copies=True)
        lps = [lp for lp in for_loops(f) if lp.source == ("field", ("param", 1), "chain", FBA)]
        r.ob("end-chain:iterates-chain-forward", len(lps) == 1, f.site, "do_end iterates self.chain in order")
        if len(lps) != 1:
            return
        lp = lps[0]
        rows = {}
        for p in lp.iteration_paths(s):
            if p.end[0] == "ret" or any(v == "Break" for a, v in p.conds):
                continue  # `?` exits are error propagation (C04)
            # is something pending from the previous stages?  (an Option accumulator, or an empty
            # vector standing for "nothing")
            has = [v for a, v in p.conds if a[0] == "disc" and a[1][0] in ("local", "havoc", "phi") and v in ("Some", "None")]
            if not has:
                has = ["None" if v == 1 else "Some" for a, v in p.conds if a[0] == "call" and a[1] == "std::vec::Vec::is_empty" and a[2][0][0] in ("local", "havoc", "phi")][:1]
            calls = [e[1].rsplit("::", 1)[1] for e in p.events if e[0] == "call" and e[1] in (ITEM + "::filter", ITEM + "::end")]
            ext = [e for e in p.events if e[0] == "call" and e[1].endswith("Extend>::extend")]
            if has:
                rows.setdefault(has[0], set()).add((tuple(calls), len(ext)))
        # (the flushed bytes may be appended to the - empty - accumulator: one extend, same bytes)
        r.ob("end-chain:first-stage-only-ends", rows.get("None") in ({(("end",), 0)}, {(("end",), 1)}), f.loc(lp.line), "nothing pending -> stage.end(): %s" % rows.get("None"))
        r.ob("end-chain:pending-is-filtered-then-ended", rows.get("Some") == {(("filter", "end"), 1)}, f.loc(lp.line), "pending bytes -> stage.filter(pending) followed by stage.end(): %s" % rows.get("Some"))
        # do_filter threads the data through the chain in order
        g = F.method(FBA, "do_filter")
        r.analysed(g)
        lg = [lp2 for lp2 in for_loops(g) if lp2.source == ("field", ("param", 1), "chain", FBA)]
        okt = False
        if len(lg) == 1:
            for p in lg[0].iteration_paths(Sym(g, copies=False)):
                for e in p.events:
                    if e[0] == "call" and e[1] == ITEM + "::filter" and e[2][1] in (("param", 2), ("local", 2), ("havoc", 2)):
                        okt = True
        r.ob("end-chain:do_filter-threads-data", len(lg) == 1 and okt, g.site, "do_filter feeds each stage with the output of the previous one, in chain order")
    ctx.run_rule(rid, "end() chaining of the stage list", body, floor=4)


TAG_TOKENS = ("StartTagToken", "EndTagToken", "SelfClosingTagToken")
READERS = ("read_tag", "read_start_tag", "read_tag_name", "read_tag_name_attr_key", "read_tag_name_attr_value", "skip_white_space", "read_byte")


def r03_5(ctx):
    """A pending text that may contain the beginning of an unfinished tag is held back: the
    look-ahead loop is entered whenever the text contains `<` anywhere."""
    F = ctx.facts

    def body(r):
        f = F.method(HF, "filter")
        r.analysed(f)
        s = Sym(f, copies=True, max_paths=400000)
        heads = sorted({h for _, h in f.back_edges()})
        if len(heads) != 2:
            r.ob("hold-back:loops", False, f.site, "%d loops" % len(heads))
            return
        outer = max(heads, key=lambda h: len(f.loop_blocks(h)))
        inner = [h for h in heads if h != outer][0]
        inner_blocks = f.loop_blocks(inner)
        # conditions under which the look-ahead body is entered / skipped, from the inner header
        tests = set()
        for p in s.paths(start=inner, stops={outer}):
            for e in p.events:
                if e[0] == "cond" and e[1][0] == "call" and e[3] in inner_blocks:
                    a = e[1]
                    name = a[1].rsplit("::", 1)[1]
                    if name in ("contains", "find", "ends_with", "starts_with", "rfind") or "memchr" in a[1]:
                        const = [x[1] for x in a[2] if x[0] == "const"]
                        tests.add((name, const[0] if const else None))
        anywhere = {t for t in tests if t[0] in ("contains", "find", "rfind") and t[1] in ("<", "</")}
        weaker = {t for t in tests if t[0] in ("ends_with", "starts_with")}
        r.ob("hold-back:tests-for-<-anywhere", ("contains", "<") in tests or ("find", "<") in tests or ("rfind", "<") in tests, f.site,
             "pending text is held back when it contains `<` anywhere (tests %s)" % sorted(tests, key=str) if anywhere and not weaker else "the hold-back test is %s: a text ending inside an unfinished tag (`abc</ti`) is emitted instead of carried" % sorted(tests, key=str))
        r.ob("hold-back:no-weaker-test", not weaker, f.site, "no positional (ends_with / starts_with) test replaces the containment test: %s" % sorted(weaker, key=str))
    ctx.run_rule("R03.5", "text that may hold an unfinished tag is held back", body, floor=2)


def r03_6(ctx):
    """A tag token is never reported once the tokenizer ran out of input while reading it."""
    F = ctx.facts

    def body(r):
        n = 0
        for name in ("next", "read_start_tag"):
            f = F.method(TOK, name)
            r.analysed(f)
            bad = set()
            for p in Sym(f, copies=True, max_paths=400000).paths():
                if p.end[0] not in ("ret",):
                    continue
                # timeline: last reading call, then a test of self.err, then the tag token
                last_read = -1
                err_ok_after = -1
                for i, e in enumerate(p.events):
                    if e[0] == "call" and e[1].startswith(TOK + "::") and e[1].rsplit("::", 1)[1] in READERS:
                        last_read = i
                    if e[0] == "cond" and e[1][0] == "call" and e[1][1] == "std::option::Option::is_some" and e[1][2][0] == ("field", ("param", 1), "err", TOK) and e[2] == 0:
                        err_ok_after = i
                    tok = None
                    if e[0] == "write" and e[1] == ("field", ("param", 1), "token", TOK) and e[2][0] == "agg" and e[2][2] in TAG_TOKENS:
                        tok = e[2][2]
                    if e[0] == "ret" and name == "read_start_tag":
                        v = e[1]
                        if v[0] == "agg" and v[2] == "Ok":
                            inner = dict(v[3]).get("0")
                            if inner and inner[0] == "agg" and inner[2] in TAG_TOKENS:
                                tok = inner[2]
                    if tok is not None:
                        n += 1
                        if last_read >= 0 and err_ok_after < last_read:
                            bad.add(tok)
            r.ob("eof-token:%s" % name, not bad, f.site,
                 "every tag token is reported only after `err` was found unset following the last read" if not bad else "%s can be reported although the input ended while the tag was being read: a partial tag is then processed as complete instead of being carried to the next chunk" % sorted(bad))
        r.ob("eof-token:sites", n >= 4, "", "%d tag-token reports examined" % n)
    ctx.run_rule("R03.6", "no tag token once the input ended inside the tag", body, floor=3)


UTF8_BOUNDARY_FNS = ("error_len", "valid_up_to", "utf8_error", "is_char_boundary", "utf8_chunks", "floor_char_boundary", "ceil_char_boundary", "from_utf8_lossy")


def r03_7(ctx):
    """A chunk may end in the middle of a multi-byte character.  The token text is decoded as UTF-8 and a
    decoding error abandons filtering; so the bytes of an *incomplete trailing sequence* must be told apart
    from invalid data (and held back), otherwise the output depends on where the chunk was cut."""
    F = ctx.facts

    def body(r):
        f = F.method(HF, "filter")
        r.analysed(f)
        cg = F.callgraph()
        reach = [F.fns[p] for p in cg.reachable([f]) if F.fns[p].file.startswith("src/html/") or F.fns[p].file.startswith("src/filter/html_")]
        decoders = []
        handlers = []
        for g in reach:
            for bi, t_, cal in g.calls():
                if cal is None or cal.local:
                    continue
                if cal.name in ("from_utf8", "from_utf8_unchecked") and (cal.adt in ("std::string::String",) or "str" in cal.path):
                    decoders.append((g, span_line(t_["s"])))
                if cal.name in UTF8_BOUNDARY_FNS:
                    handlers.append((g, cal.name))
        r.ob("utf8:decoders-found", len(decoders) >= 1, f.site, "%d UTF-8 decoding sites behind HtmlFilterBodyAction::filter: %s" % (len(decoders), sorted({g.key.rsplit("::", 1)[1] for g, _ in decoders})))
        r.ob("utf8:HtmlFilterBodyAction::filter:incomplete-trailing-sequence", bool(handlers), f.site,
             "an incomplete trailing sequence is told apart from invalid data (%s)" % sorted({n for _, n in handlers}) if handlers else
             "token bytes are decoded with from_utf8 and any error abandons filtering; nothing inspects error_len()/valid_up_to() or holds back an incomplete trailing sequence: a chunk boundary inside a multi-byte character turns the filter off for the rest of the body")
    ctx.run_rule("R03.7", "a chunk boundary inside a multi-byte character is not a decoding error", body, floor=2)


def run(ctx):
    r03_7(ctx)
    r03_5(ctx)
    r03_6(ctx)
    r03_1(ctx)
    r03_2(ctx)
    r03_3(ctx)
    r03_4(ctx)
