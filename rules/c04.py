"""C04 — body filters never lose, duplicate or reorder response bytes (structural conditions)."""
from riolib.core import Callee, MissingAnchor, span_line, is_expansion, op_place
from riolib.prov import Prov, show, mentions, mentions_field, walk
from riolib.sym import Sym, for_loops
from riolib.effects import effects

THOROUGH_CONFIGS = ['dot']


MANIFEST = {
    "text": "Static decision of the byte-conservation mechanisms: the error fallback tables of FilterBodyAction::filter/end (in_error => chunk returned unchanged; an internal error sets in_error and returns the chunk, and bytes held by the stages must be flushed first); Result discipline (no Result of the filter / tokenizer layer is dropped or turned into an Option); token-byte conservation in the HTML filter loop (every token's raw text reaches the output, the active buffer, a visitor or the held-back buffer on every non-error path); flush order at end of stream (buffers oldest first, held-back tail last); the gating tables (content type, content encoding, empty chain) and the agreement of the encoding name tables; insert-only visitors always return their input; the carry-over discipline of the held-back tail between chunks (shared with C03). Byte-for-byte equality on arbitrary malformed input is not decided. Also (round 5): end() runs no visitor — enter / leave are called by the start-tag / end-tag handlers only.",
    "technique": "static analysis: decision tables, dropped-result analysis and def-to-sink must-use over MIR",
}

HF = "filter::html_filter_body::HtmlFilterBodyAction"
FBA = "filter::filter_body::FilterBodyAction"
ITEM = "filter::filter_body::FilterBodyActionItem"
TOK = "html::Tokenizer"
HELD_FIELDS = {(HF, "last_buffer"), (HF, "current_buffer")}


def r04_1(ctx):
    F = ctx.facts

    def body(r):
        f = F.method(FBA, "filter")
        r.analysed(f)
        inerr = ("field", ("param", 1), "in_error", FBA)
        rows = {}
        for p in Sym(f, copies=False).paths():
            if p.end[0] != "ret":
                continue
            ie = dict(p.conds).get(inerr)
            res = [v for a, v in p.conds if a[0] == "disc" and a[1][0] == "call" and a[1][1] == FBA + "::do_filter"]
            wrote = [e[2] for e in p.events if e[0] == "write" and e[1] == inerr]
            called = [e for e in p.events if e[0] == "call" and e[1] == FBA + "::do_filter"]
            arg_is_copy = bool(called) and called[0][2][1] != ("param", 2) and mentions(called[0][2][1], lambda x: x == ("param", 2))
            drained = any(e[0] == "call" and e[6] is not None and e[6].local and e[6].name in ("end", "do_end", "drain", "flush") for e in p.events)
            rows[(ie, res[0] if res else None)] = (p.end[1], tuple(wrote), arg_is_copy, drained)
        a = rows.get((1, None))
        r.ob("fallback:filter:in_error->chunk-unchanged", a is not None and a[0] == ("param", 2) and not a[1], f.site, "in_error => returns the chunk itself: %s" % (show(a[0], f) if a else None))
        b = rows.get((0, "Ok"))
        r.ob("fallback:filter:ok->filtered", b is not None and mentions(b[0], lambda x: x[0] == "call" and x[1] == FBA + "::do_filter"), f.site, "Ok => returns the filtered bytes")
        c = rows.get((0, "Err"))
        okc = c is not None and c[1] == (("const", True),) and (c[0] == ("param", 2) or mentions(c[0], lambda x: x == ("param", 2))) and c[2]
        r.ob("fallback:filter:err->chunk-returned", okc, f.site, "Err => in_error := true and the original chunk (a copy was filtered) is returned")
        # bytes held by the stages are flushed on the error path
        held = sorted(fl for fl in HELD_FIELDS if any((fl in effects(g).writes) for g in F.fn_list if g.adt == fl[0]))
        r.ob("fallback:filter:held-bytes-flushed", c is not None and c[3], f.site,
             "on the error path the bytes held back by the stages (%s) are %s" % (", ".join("%s.%s" % (a_.rsplit("::", 1)[1], b_) for a_, b_ in held), "flushed before the chunk" if (c is not None and c[3]) else "not emitted: they were consumed from earlier chunks and are lost (the body does not pass through byte-for-byte)"))
        g = F.method(FBA, "end")
        r.analysed(g)
        rows = {}
        for p in Sym(g, copies=False).paths():
            if p.end[0] != "ret":
                continue
            ie = dict(p.conds).get(inerr)
            res = [v for a_, v in p.conds if a_[0] == "disc" and a_[1][0] == "call" and a_[1][1] == FBA + "::do_end"]
            wrote = tuple(e[2] for e in p.events if e[0] == "write" and e[1] == inerr)
            rows[(ie, res[0] if res else None)] = (p.end[1], wrote)
        r.ob("fallback:end:in_error->empty", rows.get((1, None), (None,))[0] == ("call", "std::vec::Vec::new", ()), g.site, "in_error => end() adds nothing")
        r.ob("fallback:end:ok->flushed", rows.get((0, "Ok")) is not None and mentions(rows[(0, "Ok")][0], lambda x: x[0] == "call" and x[1] == FBA + "::do_end"), g.site, "Ok => returns the flushed bytes")
        r.ob("fallback:end:err->in_error", rows.get((0, "Err"), (None, ()))[1] == (("const", True),), g.site, "Err => in_error := true")
    ctx.run_rule("R04.1", "error fallback conserves bytes", body, floor=7)


RESULT_FILES = ("src/filter/", "src/html/")


def r04_2(ctx, rid="R04.2"):
    F = ctx.facts

    def body(r):
        n = 0
        for f in F.fn_list:
            if f.derived or not f.file.startswith(RESULT_FILES):
                continue
            for bi, t, cal in f.calls():
                if cal is None or t.get("t") is None:
                    continue
                dl, dp = t["dest"]
                ty = F.types[f.locals[dl][0]] if not dp else None
                if ty is None or ty.get("adt") != "std::result::Result":
                    continue
                if is_expansion(t["s"]):
                    continue
                n += 1
                r.analysed(f)
                # how is the result used?
                used = False
                ok_ed = False
                for bj in f.normal_blocks():
                    blk = f.blocks[bj]
                    for st in blk["st"]:
                        if st["k"] == "A":
                            rr = st["r"]
                            pls = []
                            if rr["k"] in ("use", "cast"):
                                pl = op_place(rr["o"])
                                if pl:
                                    pls.append(pl)
                            if rr["k"] in ("ref", "disc"):
                                pls.append(rr["p"])
                            if rr["k"] == "agg":
                                for o in rr["fields"]:
                                    pl = op_place(o)
                                    if pl:
                                        pls.append(pl)
                            if any(pl[0] == dl for pl in pls):
                                used = True
                    tm = blk["term"]
                    if tm["k"] == "call" and bj != bi:
                        for a in tm["args"]:
                            pl = op_place(a)
                            if pl and pl[0] == dl:
                                used = True
                                c2 = Callee(tm["f"]) if "f" in tm else None
                                if c2 and c2.adt == "std::result::Result" and c2.name in ("ok", "unwrap_or_default", "unwrap_or", "is_ok", "is_err"):
                                    ok_ed = True
                if dl == 0:
                    used = True
                key = "result:%s:%s" % (f.key, cal.key())
                exc = None
                if f.key == "filter::encoding::decode::DecodeFilterBody::end" and cal.name == "into_inner":
                    exc = "both arms of brotli's into_inner carry the decompressed buffer and both are returned"
                r.ob(key, (used and not ok_ed) or exc is not None, f.loc(span_line(t["s"])),
                     ("exception: " + exc) if exc else ("Result of %s is %s" % (cal.key(), "propagated / matched" if (used and not ok_ed) else "dropped or reduced to a flag: an internal error would go unnoticed")))
        r.ob("result:sites", n >= 30, "", "%d Result-returning calls in the filter and tokenizer layers" % n)
    ctx.run_rule(rid, "Result discipline in the filter layers", body, floor=30)


_APPENDS = {}


def appends_param(F, key, k):
    """True when the local function `key` appends its k-th parameter (a text) to a String with
    push_str on every path that returns normally."""
    if (key, k) in _APPENDS:
        return _APPENDS[(key, k)]
    g = F.fns.get(key)
    ok = False
    if g is not None and not g.derived:
        try:
            paths = [p for p in Sym(g, copies=False, max_paths=2000).paths() if p.end[0] == "ret"]
            ok = bool(paths) and all(any(e[0] == "call" and e[1] == "std::string::String::push_str" and e[2][1] == ("param", k) for e in p.events) for p in paths)
        except Exception:
            ok = False
    _APPENDS[(key, k)] = ok
    return ok


def r04_3(ctx):
    F = ctx.facts

    def body(r):
        f = F.method(HF, "filter")
        r.analysed(f)
        s = Sym(f, copies=False, max_paths=400000)
        # the two loops: outer token loop and inner text look-ahead loop
        heads = sorted({h for _, h in f.back_edges()})
        r.ob("tokens:loops", len(heads) == 2, f.site, "%d loops in HtmlFilterBodyAction::filter" % len(heads))
        # the variable holding the current token's text, by role: the user variable assigned from
        # Tokenizer::raw_as_string()
        sets = []
        for h in heads:
            for p in s.paths(start=h, stops=set(heads)):
                for e in p.events:
                    if e[0] in ("set", "init") and f.local_name(e[1]):
                        sets.append((e[1], e[3]))
        # (the `?` desugaring introduces immutable `val` bindings of the same value: the holder is the
        # mutable String variable)
        td = {l for l, v in sets if mentions(v, lambda x: x[0] == "call" and x[1] == TOK + "::raw_as_string")
              and F.types[f.locals[l][0]]["s"] == "std::string::String" and f.locals[l][3]}
        if len(td) != 1:
            r.missing("the variable holding the current token text (assigned from raw_as_string): %s" % sorted(td))
            return
        td = td.pop()
        n = 0
        bad = []
        # outer loop = the one containing the other
        outer = max(heads, key=lambda h: len(f.loop_blocks(h))) if heads else None
        for h in heads:
            # paths of one (partial) iteration: from a loop header to the next arrival at a header
            for p in s.paths(start=h, stops=set(heads)):
                if p.end[0] != "stop" or len(p.blocks) < 2:
                    continue
                n += 1
                cur = ("local", td)
                # entering the look-ahead loop the current token text is still to be emitted
                pending = h != outer
                for e in p.events:
                    if e[0] == "call" and e[1] == "std::string::String::push_str" and e[2][1] == cur:
                        pending = False
                    elif e[0] == "call" and e[1] in (HF + "::on_start_tag_token", HF + "::on_end_tag_token") and cur in e[2]:
                        pending = False
                    elif e[0] == "call" and cur in e[2] and appends_param(F, e[1], e[2].index(cur) + 1):
                        pending = False  # a local helper that appends the text it is given on every path
                    elif e[0] == "call" and e[1] == "std::string::String::into_bytes" and e[2][0] == cur:
                        pending = False
                    elif e[0] in ("set", "init") and e[1] == td:
                        if e[3] == cur:
                            continue  # `token_data = match .. { _ => token_data }`: the same text moved back
                        if pending:
                            bad.append("token text is overwritten by %s without having been emitted" % show(e[3], f)[:80])
                        pending = True
                if pending and p.end[1] == outer:
                    bad.append("an iteration of the token loop ends with the current token text not emitted")
        r.ob("tokens:every-token-text-reaches-a-sink", not bad and n >= 10, f.site, "on %d loop iterations every token's text is appended to the output / active buffer or handed to a visitor" % n if not bad else sorted(set(bad))[0])
        # on_start_tag_token / on_end_tag_token return the data they were given unless a visitor replaced it
        for name in ("on_start_tag_token", "on_end_tag_token"):
            g = F.method(HF, name)
            r.analysed(g)
            okd = True
            cnt = 0
            for p in Sym(g, copies=False).paths():
                if p.end[0] != "ret":
                    continue
                ret = p.end[1]
                if ret[0] == "agg" and ret[2] == "Ok":
                    ret = dict(ret[3])["0"]
                elif ret[0] == "agg" and ret[2] == "Err":
                    continue
                # the text is returned next to the buffer link, or alone when the link is updated in place
                txt = dict(ret[3]).get("1") if (ret[0] == "agg" and ret[1] == "tuple") else ret if not (ret[0] == "agg" and ret[1] == "std::result::Result") else None
                if txt is not None and not (ret[0] == "call" and "from_residual" in ret[1]):
                    cnt += 1
                    visited = any(e[0] == "call" and e[1].startswith("filter::html_body_action::HtmlBodyVisitor::") for e in p.events)
                    from_data = mentions(txt, lambda x: x == ("param", 3)) or (txt[0] in ("local", "havoc") and any(e[0] in ("set", "init") and e[1] == txt[1] and mentions(e[3], lambda x: x == ("param", 3)) for e in p.events))
                    pushed = any(e[0] == "call" and e[1] == "std::string::String::push_str" and e[2][1] == ("param", 3) for e in p.events)
                    if not (visited or from_data or pushed):
                        okd = False
            r.ob("tokens:%s-returns-its-data" % name, okd and cnt >= 2, g.site, "without a visitor involved the returned text is the data received (%d returns)" % cnt)
    ctx.run_rule("R04.3", "token-byte conservation in the HTML filter", body, floor=4)


def r04_4(ctx):
    F = ctx.facts

    def body(r):
        f = F.method(HF, "end")
        r.analysed(f)
        pv = Prov(f, copies=True)
        # result vector: every append; classify content
        appends = []
        for bi, t, cal in f.calls():
            if cal and cal.name in ("extend_from_slice", "extend", "push", "append") and cal.adt == "std::vec::Vec":
                src = pv.operand(t["args"][1])
                dst = pv.operand(t["args"][0])
                appends.append((bi, dst, src, span_line(t["s"])))
        # what the returned vector starts from
        ret_init = None
        for p in Sym(f, copies=True).paths():
            if p.end[0] != "ret" or p.end[1][0] != "local":
                continue
            for e in p.events:
                if e[0] == "init" and e[1] == p.end[1][1] and ret_init is None:
                    ret_init = e[3]
        held = [a for a in appends if mentions_field(a[2], "last_buffer", HF)]
        chain = [a for a in appends if mentions_field(a[2], "buffer", "filter::html_filter_body::BufferLink") or mentions(a[2], lambda x: x[0] == "call" and "next" in x[1])]
        init_from_held = ret_init is not None and mentions_field(ret_init, "last_buffer", HF)
        r.ob("flush:result-not-seeded-with-held-back-tail", not init_from_held, f.site, "the result %s" % ("starts with the held-back tail (the newest bytes are emitted first)" if init_from_held else "starts empty"))
        lps = for_loops(f)
        exits = [lp.exit for lp in lps]
        ok_last = bool(held) and not init_from_held and all(any(f.dominates(x, h[0]) for x in exits) or not chain for h in held)
        # no append of buffered content can follow the append of the tail
        for h in held:
            for c in chain + [a for a in appends if a not in held]:
                if f.can_reach(h[0], c[0]) and c[0] != h[0]:
                    ok_last = False
        r.ob("flush:held-back-tail-last", ok_last, f.site, "last_buffer is appended after all buffered elements")
        # the chain is walked newest-first (current -> previous); it must be emitted reversed.
        # Read from the body and its closures (a `successors(..).map(..).collect()` chain is the same walk).
        BL = "filter::html_filter_body::BufferLink"
        bodies = f.all_bodies()
        walks_prev = False
        reads_buffer = False
        for b_ in bodies:
            pb = Prov(b_, copies=True)
            for bi, si, st in b_.assigns():
                rv = pb.rvalue(st["r"])
                if mentions_field(rv, "previous", BL):
                    walks_prev = True
                if mentions_field(rv, "buffer", BL):
                    reads_buffer = True
            for bi, t_, cal in b_.calls():
                for a_ in t_["args"]:
                    e_ = pb.operand(a_)
                    if mentions_field(e_, "previous", BL):
                        walks_prev = True
                    if mentions_field(e_, "buffer", BL):
                        reads_buffer = True
        n_rev = sum(1 for bi, t_, cal in f.calls() if cal and cal.name in ("rev", "reverse"))
        collected = any(cal and ((cal.name == "push" and cal.adt == "std::vec::Vec") or cal.name == "collect") for bi, t_, cal in f.calls())
        ok_order = walks_prev and reads_buffer and collected and n_rev % 2 == 1
        r.ob("flush:buffers-oldest-first", ok_order, f.site,
             "the buffer chain is walked current -> previous (newest first) and %s" % ("emitted in reverse (oldest first)" if ok_order else "not emitted in reverse: inner (newer) content precedes outer (older) content (walk=%s collected=%s reversals=%d)" % (walks_prev, collected, n_rev)))
        # end() flushes what was buffered as it is: no visitor is run on an element whose end tag never came
        from .c15 import visitor_callers_ob
        visitor_callers_ob(F, r, "flush:")
    ctx.run_rule("R04.4", "flush order at end of stream", body, floor=3)


def r04_5(ctx, rid="R04.5"):
    F = ctx.facts

    def body(r):
        f = F.method(ITEM, "new")
        r.analysed(f)
        rows = {}
        for p in Sym(f, copies=True).paths():
            if p.end[0] != "ret":
                continue
            kind = [v for a, v in p.conds if a[0] == "disc" and a[1] == ("param", 1)]
            ct = [v for a, v in p.conds if a[0] == "disc" and a[1] == ("param", 2)]
            has = [v for a, v in p.conds if a[0] == "call" and a[1] == "str::contains" and ("const", "text/html") in a[2]]
            none = p.end[1][0] == "agg" and p.end[1][2] == "None"
            built = any(e[0] == "call" and e[1] == "filter::html_body_action::HtmlBodyVisitor::new" for e in p.events)
            rows.setdefault((kind[0] if kind else None, ct[0] if ct else None, has[0] if has else None), set()).add(("built" if built else "None" if none else "some"))  # (the visitor constructor itself may decline: still "built")
        r.ob("gating:html:other-content-type->None", rows.get(("HTML", "Some", 0)) == {"None"}, f.site, "HTML filter with a content type that does not contain text/html is not built: %s" % rows.get(("HTML", "Some", 0)))
        r.ob("gating:html:text/html->built", rows.get(("HTML", "Some", 1)) == {"built"}, f.site, "content type containing text/html -> visitor built")
        r.ob("gating:html:no-content-type->built", rows.get(("HTML", "None", None)) == {"built"}, f.site, "no content type -> HTML assumed")
        text_rows = set()
        for k, v in rows.items():
            if k[0] == "Text":
                text_rows |= v
        r.ob("gating:text->always", text_rows == {"some"}, f.site, "text filters are always built: %s" % text_rows)
        # FilterBodyAction::new: unsupported encoding -> empty chain; supported -> decode first, encode last
        g = F.method(FBA, "new")
        r.analysed(g)
        sg = Sym(g, copies=True, max_paths=200000)
        rows = {}
        for p in sg.paths(start=[lp.exit for lp in for_loops(g)][-1] if for_loops(g) else 0):
            if p.end[0] != "ret" or p.end[1][0] != "agg":
                continue
            enc = [v for a, v in p.conds if a[0] == "disc" and a[1][0] == "call" and a[1][1] == "filter::encoding::get_encoding_filters"]
            has_enc = [v for a, v in p.conds if a[0] == "disc" and v in ("Some", "None") and not (a[1][0] == "call")]
            empty = [v for a, v in p.conds if a[0] == "call" and a[1] == "std::vec::Vec::is_empty"]
            chain = dict(p.end[1][3]).get("chain")
            ins = [e for e in p.events if e[0] == "call" and e[1] == "std::vec::Vec::insert"]
            push = [e for e in p.events if e[0] == "call" and e[1] == "std::vec::Vec::push"]
            rows[(empty[0] if empty else None, has_enc[0] if has_enc else None, enc[0] if enc else None)] = (chain, ins, push)
        unsupported = [v for k, v in rows.items() if k[2] == "None"]
        r.ob("gating:unsupported-encoding->empty-chain", bool(unsupported) and all(v[0] == ("call", "std::vec::Vec::new", ()) for v in unsupported), g.site, "unsupported content-encoding -> an empty chain (pass-through)")
        supported = [v for k, v in rows.items() if k[2] == "Some"]
        oks = bool(supported) and all(len(v[1]) == 1 and v[1][0][2][1] == ("const", 0) and mentions(v[1][0][2][2], lambda x: x[0] == "agg" and x[2] == "Decode") and len(v[2]) == 1 and mentions(v[2][0][2][1], lambda x: x[0] == "agg" and x[2] == "Encode") for v in supported)
        r.ob("gating:supported-encoding->decode-first-encode-last", oks, g.site, "decode stage inserted at index 0, encode stage pushed last")
        # the codec stages wrap filters that exist: they are added only after the chain of built items was found
        # non-empty (an empty chain means pass-through, byte for byte, whatever the encoding)
        guarded = bool(supported) and all(k[0] == 0 for k in rows if k[2] == "Some")
        r.ob("gating:codec-stages-only-around-built-filters", guarded, g.site, "decode / encode stages are added only when at least one filter was built (chain.is_empty() tested false): %s" % sorted((k for k in rows if k[2] == "Some"), key=str))
        r.ob("gating:in_error-starts-false", all(dict(p.end[1][3]).get("in_error") == ("const", False) for p in sg.paths() if p.end[0] == "ret" and p.end[1][0] == "agg"), g.site, "a new filter chain is not in error")
        # Action::create_filter_body: None iff the chain is empty
        h = F.fn("action::Action::create_filter_body")
        rows = {}
        lps = for_loops(h)
        for p in Sym(h, copies=True).paths(start=lps[0].exit if lps else 0):
            if p.end[0] == "ret":
                em = [v for a, v in p.conds if a[0] == "call" and a[1] == FBA + "::is_empty"]
                rows[em[0] if em else None] = p.end[1][2] if p.end[1][0] == "agg" else None
        r.ob("gating:create_filter_body", rows == {1: "None", 0: "Some"}, h.site, "create_filter_body returns None iff the chain is empty: %s" % rows)
        # the encoding tables agree
        gef = F.fn("filter::encoding::get_encoding_filters")
        names = set()
        for p in Sym(gef, copies=True).paths():
            for a, v in p.conds:
                if a[0] == "call" and "PartialEq" in a[1]:
                    for x in a[2]:
                        if x[0] == "const" and isinstance(x[1], str):
                            names.add(x[1])
        hs = F.fn("filter::encoding::SupportedEncoding::new_hash_set")
        names2 = set()
        for p in Sym(hs, copies=True).paths():
            for e in p.events:
                if e[0] == "call" and e[1] == "std::collections::HashSet::insert" and e[2][1][0] == "const":
                    names2.add(e[2][1][1])
        r.ob("gating:encoding-tables-agree", names == names2 == {"br", "gzip", "deflate"}, gef.site, "get_encoding_filters accepts %s; SupportedEncoding::new_hash_set lists %s" % (sorted(names), sorted(names2)))
    ctx.run_rule(rid, "gating tables", body, floor=10)


def r04_6(ctx):
    F = ctx.facts

    def body(r):
        for adt, fns in (("filter::html_body_action::body_append::BodyAppend", ("enter", "leave")), ("filter::html_body_action::body_prepend::BodyPrepend", ("enter", "leave"))):
            for name in fns:
                f = F.method(adt, name)
                r.analysed(f)
                bad = []
                n = 0
                for p in Sym(f, copies=True).paths():
                    if p.end[0] != "ret":
                        continue
                    ret = p.end[1]
                    if ret[0] == "agg" and ret[2] == "Ok":
                        ret = dict(ret[3])["0"]
                    if not (ret[0] == "agg" and ret[1] == "tuple"):
                        continue  # `?` propagation
                    n += 1
                    d = dict(ret[3])
                    txt = d[str(len(d) - 1)]
                    keeps = mentions(txt, lambda x: x == ("param", 2))
                    if not keeps and txt[0] == "local":
                        # `let mut new_data = data;` or a String built from content then push_str(data)
                        keeps = any(e[0] == "init" and e[1] == txt[1] and mentions(e[3], lambda x: x == ("param", 2)) for e in p.events) or any(e[0] == "call" and e[1] == "std::string::String::push_str" and e[2][0] == txt and mentions(e[2][1], lambda x: x == ("param", 2)) for e in p.events)
                    if not keeps:
                        bad.append(show(txt, f))
                r.ob("insert-only:%s::%s" % (adt.rsplit("::", 1)[1], name), not bad and n >= 2, f.site, "every returned text contains the data received (%d returns)" % n if not bad else "returns %s without the received data" % bad[:2])
        for key in ("filter::html_body_action::body_append::append_child", "filter::html_body_action::body_prepend::prepend_child"):
            f = F.fn(key)
            r.analysed(f)
            # every Ok return is the content itself or an output string fed only from tokenizer raw/buffered text plus the child
            ok = True
            why = set()
            n = 0
            for p in Sym(f, copies=True).paths():
                if p.end[0] != "ret":
                    continue
                ret = p.end[1]
                if not (ret[0] == "agg" and ret[2] == "Ok"):
                    continue
                n += 1
                v = dict(ret[3])["0"]
                if v == ("param", 1):
                    continue
                pushes = [e[2][1] for e in p.events if e[0] == "call" and e[1] == "std::string::String::push_str" and e[2][0] == v]
                if not all(x == ("param", 2) or mentions(x, lambda y: y[0] == "call" and y[1] in (TOK + "::raw_as_string", TOK + "::buffered_as_string")) for x in pushes) or not pushes:
                    ok = False
                # a return from inside the token loop leaves input unread: the current token and the
                # unread remainder must both have been appended, the remainder last
                kinds = ["child" if x == ("param", 2) else "raw" if mentions(x, lambda y: y[0] == "call" and y[1] == TOK + "::raw_as_string") else "rest" if mentions(x, lambda y: y[0] == "call" and y[1] == TOK + "::buffered_as_string") else "?" for x in pushes]
                if not kinds or kinds[-1] != "rest" or "raw" not in kinds or "child" not in kinds:
                    ok = False
                    why.add("an early return assembles %s: the unread remainder of the document must be appended last" % kinds)
            r.ob("insert-only:%s" % key.rsplit("::", 1)[1], ok and n >= 2, f.site, "the output is assembled from the raw text of every token, the inserted child and, last, the unread remainder (%d normal returns)" % n if ok else "; ".join(sorted(why)) or "output fed from something else than token text / child / remainder")
    ctx.run_rule("R04.6", "insert-only visitors keep their input", body, floor=6)


def run(ctx):
    r04_1(ctx)
    r04_2(ctx)
    r04_3(ctx)
    r04_4(ctx)
    r04_5(ctx)
    r04_6(ctx)
    from .c03 import r03_1
    r03_1(ctx, rid="R04.7")
