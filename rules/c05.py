"""C05 — the computed action reflects exactly the matched rules, in priority order."""
from itertools import product

THOROUGH_CONFIGS = ['dot', 'router']


from riolib.core import MissingAnchor, span_line
from riolib.prov import Prov, show, mentions, mentions_field, walk, resolve_captures
from riolib.sym import Sym, for_loops, path_assignment, eval_bool, consistent_with
from .c01 import option_bool_presence_tests

MANIFEST = {
    "text": "Static decision of each mechanism the action fold is made of: the five response-code guards as truth tables over (codes empty, exclude flag, contains, code==0) compared with the reference predicate on every consistent assignment; the per-iteration fold table (produced/reset/stop -> assign/merge/return); the two merge blocks against one shared reference incl. field provenance of the merged value; attribution provenance (rule id, code list, exclude flag) of every effect aggregate; the sampling decision table and its constants; option flag read by value. Also: the guarded loops are on every path to a return, and merge only appends to the lists of self.",
    "technique": "static analysis: path-sensitive decision tables and provenance over MIR, compared with reference tables",
}

CODES = "on_response_status_codes"
EXCL = "exclude_response_status_codes"


def closure_is_eq_code(F, agg):
    """closure |v| *v == code : returns True when its body returns (param deref == captured)"""
    if agg[0] != "agg" or not agg[1] or "{closure" not in agg[1]:
        return False
    cl = F.fns.get(agg[1])
    if cl is None:
        return False
    rets = {p.end[1] for p in Sym(cl).paths() if p.end[0] == "ret"}
    if len(rets) != 1:
        return False
    e = rets.pop()
    return e[0] == "bin" and e[1] == "Eq" and ({e[2][0], e[3][0]} <= {"param", "field", "local"})


def guard_canon(F, code_pred):
    """canonical atoms of a response-code guard: E (codes empty), X (exclude flag), C (codes
    contain the response code), Z (response code == 0)"""
    def canon(e):
        if e[0] == "call" and e[1] in ("std::vec::Vec::is_empty", "slice::is_empty") and mentions_field(e[2][0], CODES):
            return ("E", True)
        if e[0] == "field" and e[2] == EXCL:
            return ("X", True)
        if e[0] == "call" and e[1] in ("slice::contains", "std::vec::Vec::contains") and mentions_field(e[2][0], CODES) and code_pred(e[2][1]):
            return ("C", True)
        if e[0] == "call" and e[1].endswith("Iterator>::any") and mentions_field(e[2][0], CODES) and closure_is_eq_code(F, e[2][1]) and any(code_pred(v) for _, v in e[2][1][3]):
            return ("C", True)
        if e[0] == "bin" and e[1] in ("Eq", "Ne") and ((code_pred(e[2]) and e[3] == ("const", 0)) or (code_pred(e[3]) and e[2] == ("const", 0))):
            return ("Z", e[1] == "Eq")
        return None
    return canon


def consistent_assignments(assign, atoms):
    free = [a for a in atoms if a not in assign]
    for vals in product([False, True], repeat=len(free)):
        d = dict(assign)
        d.update(zip(free, vals))
        if d.get("E") and d.get("C"):
            continue  # an empty list contains nothing
        yield d


def admits(a):
    return a["E"] or (a["X"] and not a["C"]) or ((not a["X"]) and a["C"])


def loop_guard(F, r, f, loop_field, effect_pred, tag, code_param):
    code_pred = lambda e: e == ("param", code_param)
    canon = guard_canon(F, code_pred)
    loops = [lp for lp in for_loops(f) if mentions_field(lp.source, loop_field, "action::Action")]
    if len(loops) != 1:
        r.ob("guard:%s:loop" % tag, False, f.site, "%d loops over self.%s" % (len(loops), loop_field))
        return
    lp = loops[0]
    s = Sym(f, copies=True)
    # the loop is not optional: every way from the entry to a return goes through it (an early return before it
    # skips the effects of every element)
    skipping = f.path_avoiding({lp.next_block})
    r.ob("guard:%s:always-reached" % tag, skipping is None, f.loc(lp.line), "every path to a return passes the loop over self.%s" % loop_field if skipping is None else "a path from the entry to a return avoids the loop over self.%s (blocks %s)" % (loop_field, skipping[:8]))
    rows = 0
    bad = []
    for p in lp.iteration_paths(s):
        assign, other = path_assignment(p, canon)
        eff = any(effect_pred(e) for e in p.events)
        for full in consistent_assignments(assign, ["E", "X", "C"]):
            if not consistent_with(other, full, canon):
                continue
            rows += 1
            if eff != admits(full):
                bad.append("E=%d X=%d C=%d -> %s (reference %s)" % (full["E"], full["X"], full["C"], "applied" if eff else "skipped", "applied" if admits(full) else "skipped"))
    r.ob("guard:%s" % tag, not bad and rows >= 5, f.loc(lp.line),
         "effect <=> codes.is_empty() || (exclude && !contains) || (!exclude && contains) on %d rows" % rows if not bad else "; ".join(sorted(set(bad))[:4]),
         data={"deviations": sorted(set(bad))})


INS_APPLIED = lambda e: e[0] == "call" and e[1].endswith("LinkedHashSet::insert") and mentions_field(e[2][0], "rules_applied", "action::Action")
PUSH_HEADER_FILTER = lambda e: e[0] == "call" and e[1] == "std::vec::Vec::push" and mentions_field(e[2][1], "filter", "action::HeaderFilterAction")


def r05_1(ctx):
    F = ctx.facts

    def body(r):
        f = F.fn("action::Action::filter_headers")
        r.analysed(f)
        ins_applied = lambda e: e[0] == "call" and e[1].endswith("LinkedHashSet::insert") and mentions_field(e[2][0], "rules_applied", "action::Action")
        loop_guard(F, r, f, "rule_traces", ins_applied, "filter_headers:applied-rules", 3)
        push_filter = lambda e: e[0] == "call" and e[1] == "std::vec::Vec::push" and mentions_field(e[2][1], "filter", "action::HeaderFilterAction")
        loop_guard(F, r, f, "header_filters", push_filter, "filter_headers:header-filters", 3)
        g = F.fn("action::Action::create_filter_body")
        r.analysed(g)
        push_bfilter = lambda e: e[0] == "call" and e[1] == "std::vec::Vec::push" and mentions_field(e[2][1], "filter", "action::BodyFilterAction")
        loop_guard(F, r, g, "body_filters", push_bfilter, "create_filter_body:body-filters", 2)
        # in the two filter loops the applied-rule insertion is governed by the same row as the filter
        for (fn, fld, pf, tag) in ((f, "header_filters", push_filter, "filter_headers"), (g, "body_filters", push_bfilter, "create_filter_body")):
            lp = [x for x in for_loops(fn) if mentions_field(x.source, fld, "action::Action")]
            if len(lp) != 1:
                continue
            ok = True
            for p in lp[0].iteration_paths(Sym(fn, copies=True)):
                pushed = any(pf(e) for e in p.events)
                ins = any(ins_applied(e) for e in p.events)
                has_id = any(a[0] == "disc" and mentions_field(a[1], "rule_id") and v == "Some" for a, v in p.conds)
                if ins and not pushed:
                    ok = False
                if pushed and has_id and not ins:
                    ok = False
            r.ob("guard:%s:applied-with-filter" % tag, ok, fn.site, "a rule id enters the applied list exactly when its filter is kept")
        # LogOverride::get_log_override
        h = F.fn("action::log_override::LogOverride::get_log_override")
        r.analysed(h)
        canon = guard_canon(F, lambda e: e == ("param", 2))
        rows, bad = 0, []
        tags = {}
        LO = "action::log_override::LogOverride"
        for p in Sym(h, copies=True).paths():
            if p.end[0] != "ret":
                continue
            assign, other = path_assignment(p, canon)
            ret = p.end[1]
            # the decision returned: a tuple, a struct or an enum variant; it is the primary one when it
            # is built from log_override / rule_id, the fallback when built from the fallback_* fields;
            # whatever else it holds (a `handled` flag, a source tag) must tell the two apart
            own = mentions_field(ret, "log_override", LO) and mentions_field(ret, "rule_id", LO)
            fb = mentions_field(ret, "fallback_log_override", LO) and mentions_field(ret, "fallback_rule_id", LO)
            tag = tuple(sorted({repr(x) for x in walk(ret) if x[0] == "const"} | {"variant:%s" % x[2] for x in walk(ret) if x[0] == "agg" and x[2] and x[2] not in ("Some", "None")}))
            primary = own and not (mentions_field(ret, "fallback_log_override", LO) or mentions_field(ret, "fallback_rule_id", LO))
            fallback = fb and not (mentions_field(ret, "log_override", LO) or mentions_field(ret, "rule_id", LO))
            if primary:
                tags.setdefault("primary", set()).add(tag)
            if fallback:
                tags.setdefault("fallback", set()).add(tag)
            for full in consistent_assignments(assign, ["E", "X", "C"]):
                if not consistent_with(other, full, canon):
                    continue
                rows += 1
                want = admits(full)
                if want and not primary:
                    bad.append("E=%d X=%d C=%d -> not the primary override" % (full["E"], full["X"], full["C"]))
                if not want and not fallback:
                    bad.append("E=%d X=%d C=%d -> not the fallback" % (full["E"], full["X"], full["C"]))
        if len(tags.get("primary", ())) != 1 or len(tags.get("fallback", ())) != 1 or tags["primary"] == tags["fallback"]:
            bad.append("the primary and the fallback decision are not told apart by a constant part of the result: %s" % {k: sorted(v) for k, v in tags.items()})
        r.ob("guard:LogOverride::get_log_override", not bad and rows >= 5, h.site, "primary <=> admits, else fallback (%d rows)" % rows if not bad else "; ".join(sorted(set(bad))[:4]))
        # StatusCodeUpdate::get_status_code
        k = F.fn("action::status_code_update::StatusCodeUpdate::get_status_code")
        r.analysed(k)
        canon = guard_canon(F, lambda e: e == ("param", 2))
        rows, bad = 0, []
        for p in Sym(k, copies=True).paths():
            if p.end[0] != "ret":
                continue
            assign, other = path_assignment(p, canon)
            ret = p.end[1]
            d = dict(ret[3]) if ret[0] == "agg" else {}
            primary = mentions_field(d.get("0", ()), "status_code") and not mentions_field(d.get("0", ()), "fallback_status_code") and mentions_field(d.get("1", ()), "rule_id") and not mentions_field(d.get("1", ()), "fallback_rule_id")
            fallback = mentions_field(d.get("0", ()), "fallback_status_code") and mentions_field(d.get("1", ()), "fallback_rule_id")
            none = d.get("0") == ("const", 0) and d.get("1", ("?",))[0] == "agg" and d["1"][2] == "None"
            for full in consistent_assignments(assign, ["E", "X", "C", "Z"]):
                if full["E"] and full["X"]:
                    continue  # the statement is silent for an exclusion of nothing
                if not consistent_with(other, full, canon):
                    continue
                rows += 1
                want = "primary" if ((full["Z"] and full["E"]) or (full["X"] and not full["C"]) or ((not full["X"]) and full["C"])) else ("fallback" if not full["Z"] else "none")
                got = "primary" if primary else "fallback" if fallback else "none" if none else "?"
                if want != got:
                    bad.append("Z=%d E=%d X=%d C=%d -> %s (reference %s)" % (full["Z"], full["E"], full["X"], full["C"], got, want))
        r.ob("guard:StatusCodeUpdate::get_status_code", not bad and rows >= 8, k.site, "primary / fallback / none table (%d rows)" % rows if not bad else "; ".join(sorted(set(bad))[:4]))
    ctx.run_rule("R05.1", "response-code guard truth tables (5 sites)", body, floor=7)


def fold_semantics(f):
    """(table {(produced,reset,stop)->(effect,returns)}, loop) using value tracking of the
    accumulator: 'assign' when the accumulator variable is overwritten by the rule's action."""
    loops = for_loops(f)
    for lp in loops:
        s = Sym(f, copies=False)
        rows = {}
        found = False
        its = list(lp.iteration_paths(s))
        acc_locals = {e[2][0][1] for p in its for e in p.events if e[0] == "call" and e[1] == "action::Action::merge" and e[2][0][0] in ("local", "havoc")}
        acc_places = {e[2][0] for p in its for e in p.events if e[0] == "call" and e[1] == "action::Action::merge" and e[2][0][0] == "field"}
        for p in its:
            calls = [e for e in p.events if e[0] == "call" and e[1] == "action::Action::from_route_rule"]
            if not calls:
                continue
            found = True
            res = calls[0][3]
            opt = ("field", res, "0", None)
            payload = ("field", ("variant", opt, "Some"), "0", "std::option::Option")
            produced = reset = stop = None
            for a, v in p.conds:
                if a[0] == "disc" and a[1] == opt:
                    produced = v == "Some"
                elif a == ("field", res, "1", None):
                    reset = bool(v)
                elif a == ("field", res, "2", None):
                    stop = bool(v)
            eff = "none"
            # which named locals hold the payload (pattern bindings), and which one is the accumulator
            # (the variable `merge` is called on, in this loop)
            holders = {e[1] for e in p.events if e[0] == "set" and e[3] == payload}
            for e in p.events:
                if e[0] == "call" and e[1] == "action::Action::merge" and (e[2][1] == payload or (e[2][1][0] == "local" and e[2][1][1] in holders)):
                    eff = "merge"
                if e[0] == "set" and e[1] in acc_locals and (e[3] == payload or (e[3][0] == "local" and e[3][1] in holders)):
                    eff = "assign"
                # the accumulator may also be a field of a local state structure
                if e[0] in ("write", "lwrite") and e[1] in acc_places and (e[2] == payload or (e[2][0] == "local" and e[2][1] in holders)):
                    eff = "assign"
            returns = p.end[0] == "ret" or (p.end[0] == "stop" and p.end[1] in lp.tail_blocks() and p.end[1] != lp.exit and lp.exit not in p.blocks)
            rows[(produced, reset, stop)] = (eff, returns)
        if found:
            return rows, lp
    return None, None


FOLD_REF = {
    # (produced, reset, stop) -> (effect, stops after contribution)
    (True, True, True): ("assign", True),
    (True, True, False): ("assign", False),
    (True, False, True): ("merge", True),
    (True, False, False): ("merge", False),
}


def check_fold(r, f, tag, stop_needs_produced):
    rows, lp = fold_semantics(f)
    if rows is None:
        r.ob("fold:%s:extract" % tag, False, f.site, "no loop calling Action::from_route_rule")
        return None
    bad = []
    n = 0
    for (produced, reset, stop), (eff, returns) in rows.items():
        # expand don't-cares
        for pr in ([produced] if produced is not None else [True, False]):
            for rs in ([reset] if reset is not None else [True, False]):
                for st in ([stop] if stop is not None else [True, False]):
                    n += 1
                    if not pr:
                        want = ("none", st and not stop_needs_produced)
                        # a rule that produced nothing never carries stop (from_route_rule returns (None,false,false,None))
                        if eff != "none":
                            bad.append("no action produced but effect %s" % eff)
                        continue
                    want = FOLD_REF[(pr, rs, st)]
                    if (eff, returns) != want:
                        bad.append("produced=%s reset=%s stop=%s -> (%s, returns=%s), reference %s" % (pr, rs, st, eff, returns, want))
    r.ob("fold:%s:table" % tag, not bad and n >= 4, f.loc(lp.line), "reset => accumulator := rule action; else merge; stop => return after the contribution (%d rows)" % n if not bad else "; ".join(sorted(set(bad))[:4]))
    return rows


def r05_2(ctx):
    F = ctx.facts

    def body(r):
        f = F.fn("action::Action::from_routes_rule")
        r.analysed(f)
        # sort dominates the loop
        sorts = [(bi, t) for bi, t, cal in f.calls() if cal and cal.name in ("sort", "sort_unstable") and Prov(f).operand(t["args"][0]) == ("param", 1)]
        rows, lp = fold_semantics(f)
        ok = bool(sorts) and lp is not None and all(f.dominates(bi, lp.next_block) for bi, _ in sorts)
        r.ob("fold:sort-dominates-loop", ok, f.site, "routes.sort() precedes the fold on every path")
        if lp is not None:
            r.ob("fold:iterates-sorted-routes", lp.source == ("param", 1), f.loc(lp.line), "the fold iterates %s" % show(lp.source, f))
        check_fold(r, f, "from_routes_rule", True)
    ctx.run_rule("R05.2", "fold structure of from_routes_rule (sort, reset, stop)", body, floor=3)


def r05_3(ctx):
    F = ctx.facts

    def body(r):
        f = F.fn("action::Action::merge")
        r.analysed(f)
        s = Sym(f, copies=True)
        paths = [p for p in s.paths() if p.end[0] in ("ret", "loop")]

        def block_table(adt, self_field, prim_fields_from_new, fallback_map, tag):
            """rows keyed by (new present, old present, old conditional, new unconditional)"""
            seen = {}
            for p in paths:
                val = None
                for e in p.events:
                    if e[0] == "write" and e[1] == ("field", ("param", 1), self_field, "action::Action"):
                        val = e[2]
                key_new = key_old = old_cond = new_unc = None
                for a, v in p.conds:
                    if a[0] == "disc" and a[1] == ("field", ("param", 2), self_field, "action::Action"):
                        key_new = v == "Some"
                    if a[0] == "disc" and a[1] == ("field", ("param", 1), self_field, "action::Action"):
                        key_old = v == "Some"
                    if a[0] == "call" and a[1].endswith("::is_empty") and mentions_field(a[2][0], CODES) and mentions_field(a[2][0], self_field, "action::Action"):
                        if mentions(a[2][0], lambda x: x == ("param", 2)):
                            new_unc = bool(v)
                        elif mentions(a[2][0], lambda x: x == ("param", 1)):
                            old_cond = not bool(v)
                seen.setdefault((key_new, key_old, old_cond, new_unc), set()).add(val)
            bad = []
            n = 0
            expanded = []
            for (kn, ko, oc, nu), vals in seen.items():
                # a path that did not look at one of the two conditions decides for both of its values
                for oc_ in ([oc] if (oc is not None or ko is not True or kn is not True) else [True, False]):
                    for nu_ in ([nu] if (nu is not None or ko is not True or kn is not True) else [True, False]):
                        expanded.append(((kn, ko, oc_, nu_), vals))
            for (kn, ko, oc, nu), vals in expanded:
                for val in vals:
                    n += 1
                    if kn is False:
                        # keep: either not written or rewritten with a clone of itself
                        if val is not None and not (mentions(val, lambda x: x == ("field", ("param", 1), self_field, "action::Action")) and not mentions(val, lambda x: x == ("param", 2))):
                            bad.append("new absent but %s is overwritten with %s" % (self_field, show(val, f)))
                        continue
                    if kn is None:
                        continue
                    newv = ("field", ("variant", ("field", ("param", 2), self_field, "action::Action"), "Some"), "0", "std::option::Option")
                    if ko is False or oc is True or nu is True:
                        ok = val is not None and val[0] == "agg" and val[2] == "Some" and dict(val[3]).get("0") == newv
                        if not ok:
                            bad.append("row(new=Some, old=%s, old conditional=%s, new unconditional=%s): expected Some(new), got %s" % (ko, oc, nu, show(val, f)))
                        continue
                    if ko is True and oc is False and nu is False:
                        inner = dict(val[3]).get("0") if val is not None and val[0] == "agg" else None
                        if inner is None or inner[0] != "agg" or inner[1] != adt:
                            bad.append("old unconditional and new conditional: expected a merged %s, got %s" % (adt.rsplit("::", 1)[1], show(val, f)))
                            continue
                        d = dict(inner[3])
                        for fld, v in d.items():
                            from_new = mentions(v, lambda x: x == ("param", 2))
                            from_old = mentions(v, lambda x: x == ("param", 1))
                            if fld in fallback_map:
                                src = fallback_map[fld]
                                if not (from_old and not from_new and mentions_field(v, src)):
                                    bad.append("merged.%s must be the old rule's %s, is %s" % (fld, src, show(v, f)))
                            else:
                                if not (from_new and not from_old and mentions_field(v, fld)):
                                    bad.append("merged.%s must be the new rule's %s, is %s" % (fld, fld, show(v, f)))
            r.ob("merge:%s" % tag, not bad and n >= 4, f.site, "merge table of %s holds on %d rows (new absent => keep; old absent / old conditional / new unconditional => take new; else new with old as fallback)" % (self_field, n) if not bad else "; ".join(sorted(set(bad))[:4]), data={"deviations": sorted(set(bad))})

        block_table("action::status_code_update::StatusCodeUpdate", "status_code_update", None, {"fallback_status_code": "status_code", "fallback_rule_id": "rule_id"}, "status-code")
        block_table("action::log_override::LogOverride", "log_override", None, {"fallback_log_override": "log_override", "fallback_rule_id": "rule_id"}, "log-override")
        # list-valued parts are appended, in order
        for fld, how in (("header_filters", "push"), ("body_filters", "push"), ("rule_traces", "push"), ("rule_ids", "insert")):
            lps = [lp for lp in for_loops(f) if mentions(lp.source, lambda x: x == ("field", ("param", 2), fld, "action::Action"))]
            ok = False
            if len(lps) == 1:
                for p in lps[0].iteration_paths(s):
                    for e in p.events:
                        if e[0] == "call" and e[1].rsplit("::", 1)[1] == how and e[2][0] == ("field", ("param", 1), fld, "action::Action") and mentions(e[2][1], lambda x: x[0] in ("local", "variant")):
                            ok = True
            if not ok:
                # the same as one call: self.<fld>.extend(other.<fld>) / .append(&mut other.<fld>)
                for p in s.paths():
                    for e in p.events:
                        if e[0] == "call" and e[1].rsplit("::", 1)[1] in ("extend", "append", "extend_from_slice") and len(e[2]) == 2 and e[2][0] == ("field", ("param", 1), fld, "action::Action") \
                                and mentions(e[2][1], lambda x: x == ("field", ("param", 2), fld, "action::Action")) and not mentions(e[2][1], lambda x: x[0] == "call" and x[1].rsplit("::", 1)[1] in ("rev", "filter", "skip", "take", "step_by")):
                            ok = True
            r.ob("merge:append:%s" % fld, ok, f.site, "other.%s is appended to self.%s in order" % (fld, fld))
            # ... and nothing already collected is taken out or rewritten: the lists of `self` only grow
            shrink = set()
            for b in f.all_bodies():
                for bi, t, cal in b.calls():
                    if cal is None or cal.local or cal.name in ("push", "insert", "extend", "append", "extend_from_slice", "len", "is_empty", "iter", "into_iter", "clone", "deref", "as_slice", "contains", "reserve", "get", "last", "first"):
                        continue
                    if not t["args"]:
                        continue
                    pvb = Prov(b, copies=True)
                    recv = pvb.operand(t["args"][0])
                    if b is not f:
                        recv = resolve_captures(recv, b, copies=True)
                    if recv == ("field", ("param", 1), fld, "action::Action") or (recv[0] == "field" and recv[2] == fld and mentions(recv, lambda x: x == ("param", 1))):
                        shrink.add(cal.name)
            r.ob("merge:only-grows:%s" % fld, not shrink, f.site, "self.%s is only appended to (other operations on it: %s)" % (fld, sorted(shrink)))
    ctx.run_rule("R05.3", "merge tables (status code and log override agree; lists appended)", body, floor=10)


def r05_4(ctx):
    F = ctx.facts

    def body(r):
        f = F.fn("action::Action::from_route_rule")
        r.analysed(f)
        s = Sym(f, copies=True, max_paths=200000)
        seen = {}
        adts = ("action::HeaderFilterAction", "action::BodyFilterAction", "action::RuleTrace", "action::status_code_update::StatusCodeUpdate", "action::log_override::LogOverride")
        vals = set()
        for p in s.paths():
            for e in p.events:
                cand = []
                if e[0] == "call":
                    cand.extend(e[2])
                elif e[0] in ("set", "init"):
                    cand.append(e[3])
                elif e[0] in ("write", "lwrite"):
                    cand.append(e[2])
                elif e[0] == "ret":
                    cand.append(e[1])
                for v in cand:
                    for x in walk(v):
                        if x[0] == "agg" and x[1] in adts:
                            vals.add(x)
        # the LogOverride aggregate is built inside the closure passed to Option::map
        for c in f.closures:
            for p in Sym(c, copies=True).paths():
                if p.end[0] == "ret":
                    for x in walk(resolve_captures(p.end[1], c)):
                        if x[0] == "agg" and x[1] in adts:
                            vals.add(x)
        per = {}
        for x in vals:
            d = dict(x[3])
            short = x[1].rsplit("::", 1)[1]
            idf = d.get("rule_id") if "rule_id" in d else d.get("id")
            ok_id = idf is not None and mentions_field(idf, "id", "api::rule::Rule") and not mentions_field(idf, "redirect_unit_id")
            ok_codes = mentions_field(d.get(CODES, ()), "response_status_codes", "api::source::Source") or d.get(CODES) == ("call", "std::vec::Vec::new", ())
            ex = d.get(EXCL)
            ok_ex = ex is not None and mentions_field(ex, EXCL, "api::source::Source")
            cur = per.setdefault(short, [True, True, True, 0])
            cur[0] &= ok_id
            cur[1] &= ok_codes
            cur[2] &= ok_ex
            cur[3] += 1
        for short in ("HeaderFilterAction", "BodyFilterAction", "RuleTrace", "StatusCodeUpdate", "LogOverride"):
            cur = per.get(short)
            if cur is None:
                r.ob("attribution:%s:found" % short, False, f.site, "no %s constructed in from_route_rule" % short)
                continue
            r.ob("attribution:%s:rule-id" % short, cur[0], f.site, "%s carries rule.id (%d distinct constructions)" % (short, cur[3]))
            r.ob("attribution:%s:codes" % short, cur[1], f.site, "%s carries rule.source.response_status_codes" % short)
            r.ob("attribution:%s:exclude-flag" % short, cur[2], f.site, "%s carries rule.source.exclude_response_status_codes" % short)
    ctx.run_rule("R05.4", "attribution provenance of every effect built from a rule", body, floor=15)


def r05_5(ctx):
    F = ctx.facts

    def body(r):
        f = F.fn("action::Action::from_route_rule")
        r.analysed(f)
        s = Sym(f, copies=True, max_paths=200000)
        is_rand = lambda x: x[0] == "call" and "rand::random" in x[1]
        cmp_atoms = []

        def draw_exceeds(a, g):
            """truth of a comparison between the draw and the percentage, given g = (draw > percent);
            None when it is not such a comparison or not one of the two equivalent forms"""
            if a[0] != "bin" or a[1] not in ("Gt", "Lt", "Ge", "Le") or not mentions(a, is_rand):
                return None
            cmp_atoms.append(a)
            left = mentions(a[2], is_rand)
            op = a[1] if left else {"Gt": "Lt", "Lt": "Gt", "Ge": "Le", "Le": "Ge"}[a[1]]
            if op == "Gt":
                return g
            if op == "Le":
                return not g
            return "other"   # `>=` / `<` move the threshold: judged by sampling:constants

        def consistent(p, o, g):
            for a, v in p.conds:
                if a[0] == "disc" and mentions_field(a[1], "sampling_override"):
                    if (v == "None") != (o == "none"):
                        return False
                elif a[0] == "field" and mentions_field(a, "sampling_override"):
                    if o == "none" or (o == "true") != bool(v):
                        return False
                elif a[0] == "call" and a[1] in ("std::option::Option::unwrap_or",) and len(a[2]) == 2 and mentions_field(a[2][0], "sampling_override"):
                    d_ = draw_exceeds(a[2][1], g)
                    if a[2][1][0] == "un" and a[2][1][1] == "Not":
                        d_ = draw_exceeds(a[2][1][2], g)
                        d_ = (not d_) if isinstance(d_, bool) else d_
                    if not isinstance(d_, bool):
                        continue
                    val = True if o == "true" else False if o == "false" else d_
                    if val != bool(v):
                        return False
                else:
                    d_ = draw_exceeds(a, g)
                    if isinstance(d_, bool) and d_ != bool(v):
                        return False
            return True

        bad = []
        n = 0
        for p in s.paths():
            if p.end[0] not in ("ret", "loop"):
                continue
            has = None
            for a, v in p.conds:
                if a[0] == "disc" and mentions_field(a[1], "sampling", "api::source::Source"):
                    has = v == "Some"
            if has is None:
                continue
            ret = p.end[1] if p.end[0] == "ret" else None
            skipped = ret is not None and ret[0] == "agg" and dict(ret[3]).get("0", ("",))[0] == "agg" and dict(ret[3])["0"][2] == "None"
            if not has:
                n += 1
                if skipped and not any(mentions_field(a, "sampling_override") for a, v in p.conds):
                    bad.append("no sampling configured but the rule is skipped")
                continue
            for o in ("none", "false", "true"):
                for g in (True, False):
                    if not consistent(p, o, g):
                        continue
                    n += 1
                    want = True if o == "false" else False if o == "true" else g
                    if skipped != want:
                        bad.append("override=%s draw>percent=%s -> %s (reference %s)" % (o, g, "skipped" if skipped else "applied", "skipped" if want else "applied"))
        gt_atom = cmp_atoms[0] if cmp_atoms else None
        r.ob("sampling:table", not bad and n >= 4, f.site, "skip <=> Some(false) || (None && draw > percent) on %d rows" % n if not bad else "; ".join(sorted(set(bad))[:4]))
        # constants: (random % 100) + 1 > clamp(sampling, 0, 100)
        ok = False
        detail = "no comparison with the random draw"
        if gt_atom is not None:
            l, rgt = gt_atom[2], gt_atom[3]
            rand_side, pct_side = (l, rgt) if mentions(l, lambda x: x[0] == "call" and "rand::random" in x[1]) else (rgt, l)
            op = gt_atom[1] if rand_side is l else {"Gt": "Lt", "Lt": "Gt", "Ge": "Le", "Le": "Ge"}[gt_atom[1]]
            has_rem = mentions(rand_side, lambda x: x[0] == "bin" and x[1] == "Rem" and x[3] == ("const", 100))
            has_add = mentions(rand_side, lambda x: x[0] == "bin" and x[1].startswith("Add") and x[3] == ("const", 1))
            clamp = [x for x in walk(pct_side) if x[0] == "call" and x[1].endswith("::clamp")]
            ok_clamp = bool(clamp) and clamp[0][2][1:] == (("const", 0), ("const", 100)) and mentions_field(clamp[0][2][0], "sampling")
            ok = op in ("Gt", "Le") and has_rem and has_add and ok_clamp   # `draw <= p` is the negation of `draw > p`: same threshold
            detail = "draw = (random %% 100) + 1 [%s,%s], compared with `%s` against clamp(sampling, 0, 100) [%s]" % (has_rem, has_add, op, ok_clamp)
        r.ob("sampling:constants", ok, f.site, detail)
    ctx.run_rule("R05.5", "sampling decision table and constants", body, floor=2)


def r05_6(ctx):
    F = ctx.facts

    def body(r):
        sites = option_bool_presence_tests(F)
        n = 0
        for f, line, how, src in sites:
            if mentions_field(src, EXCL):
                r.ob("flag-by-value:%s:%s" % (f.key, EXCL), False, f.loc(line), "Option<bool> `%s` is tested with %s(): Some(false) is read as true" % (show(src, f), how))
        # positive: every read of Source.exclude_response_status_codes goes through unwrap_or / payload
        for f in F.fn_list:
            if f.derived:
                continue
            pv = None
            for bi, t, cal in f.calls():
                if cal and cal.adt == "std::option::Option" and cal.name in ("unwrap_or", "unwrap_or_default", "unwrap_or_else", "is_some_and") and t["args"]:
                    pv = pv or Prov(f, copies=True)
                    if mentions_field(pv.operand(t["args"][0]), EXCL, "api::source::Source"):
                        n += 1
        r.ob("flag-by-value:reads", n >= 1, "", "%d reads of exclude_response_status_codes by value" % n)
    ctx.run_rule("R05.6", "exclude_response_status_codes is read by value", body, floor=1)


def run(ctx):
    r05_1(ctx)
    r05_2(ctx)
    r05_3(ctx)
    r05_4(ctx)
    r05_5(ctx)
    r05_6(ctx)
