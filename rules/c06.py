"""C06 — an action (and a request) survives JSON serialisation unchanged.

Decided from the *derived* serde code (the resolved program), not from attributes: the keys the
generated `Serialize::serialize` writes and the keys the generated visitor accepts / requires /
defaults are read from the MIR of the derive output."""
from riolib.core import Callee, MissingAnchor, span_line
from riolib.prov import Prov, show, mentions, walk, mentions_field
from riolib import types as T

THOROUGH_CONFIGS = ['dot']


MANIFEST = {
    "text": "Static wire-schema symmetry read off the serde-derived code of every type in the closure of Action and Request (14+ ADTs): both directions derived; keys written by Serialize = keys accepted by the generated field visitor; keys required by the visitor (missing_field on a non-Option field) are always written; conditionally written keys are defaulted on read; enum variant names agree; the untagged BodyFilter variants are distinguishable (no earlier variant's required keys are all written by a later one); no hash-ordered container in the closure (re-serialisation is stable); the four FFI (de)serialise entry points call serde_json on exactly Action / Request. Leaf value round-trips of serde_json / chrono / std are trusted.",
    "technique": "static analysis: writer/reader key tables extracted from derive-generated MIR and compared",
}

ROOTS = ["action::Action", "http::request::Request"]
FOREIGN_LEAVES_OK = {
    "std::string::String", "std::option::Option", "std::vec::Vec", "linked_hash_set::LinkedHashSet", "std::net::IpAddr",
    "chrono::DateTime", "chrono::Utc", "std::alloc::Global", "std::hash::RandomState", "std::collections::hash_map::RandomState",
}


# skip_serializing_if predicates that are true exactly for the Default value of the field type
SKIP_PREDICATES_OK = {
    "std::option::Option::is_none", "std::vec::Vec::is_empty", "std::string::String::is_empty", "std::collections::HashMap::is_empty",
    "std::collections::BTreeMap::is_empty", "std::collections::HashSet::is_empty", "linked_hash_set::LinkedHashSet::is_empty", "slice::is_empty", "str::is_empty",
}


def is_trait(tr, name):
    return tr is not None and (tr.endswith("::_serde::" + name) or tr.endswith("serde::" + name) or tr.endswith("::ser::" + name) or tr.endswith("::de::" + name))


class Model:
    def __init__(self, F, adt):
        self.F = F
        self.adt = adt
        self.ser = None
        self.de = None
        self.written = []  # (key, field expr, conditional?)
        self.skipped = set()
        self.variants_written = []
        self.accepted = []
        self.required = []
        self.defaulted = []
        self.kind = F.adt(adt)["kind"]
        self.untagged_order = []
        self.skip_predicates = {}  # key -> callee key of the predicate guarding skip_field
        self._build()

    def _build(self):
        F = self.F
        for f in F.fn_list:
            if f.adt == self.adt and f.name == "serialize" and is_trait(f.trait, "Serialize"):
                self.ser = f
            if f.adt == self.adt and f.name == "deserialize" and is_trait(f.trait, "Deserialize"):
                self.de = f
        if self.ser is not None:
            pv = Prov(self.ser)
            for bi, t, cal in self.ser.calls():
                if cal is None:
                    continue
                if cal.name in ("serialize_field", "serialize_entry") and len(t["args"]) >= 3:
                    k = pv.operand(t["args"][1])
                    if k[0] == "const" and isinstance(k[1], str):
                        self.written.append((k[1], pv.operand(t["args"][2])))
                elif cal.name == "skip_field" and len(t["args"]) >= 2:
                    k = pv.operand(t["args"][1])
                    if k[0] == "const":
                        self.skipped.add(k[1])
                elif cal.name in ("serialize_unit_variant", "serialize_newtype_variant", "serialize_struct_variant", "serialize_tuple_variant") and len(t["args"]) >= 4:
                    k = pv.operand(t["args"][3])
                    if k[0] == "const":
                        self.variants_written.append(k[1])
                elif self.kind == "enum" and cal.name == "serialize" and is_trait(cal.def_trait, "Serialize") and cal.adt:
                    self.untagged_order.append(cal.adt)
        if self.ser is not None and self.skipped:
            from riolib.sym import Sym
            self.skip_paths = []  # (skipped keys, [(predicate key, outcome, args)])
            try:
                for p in Sym(self.ser, copies=False, max_paths=60000).paths():
                    skipped = [e[2][1][1] for e in p.events if e[0] == "call" and e[1].rsplit("::", 1)[1] == "skip_field" and len(e[2]) >= 2 and e[2][1][0] == "const"]
                    conds = [(a[1], v, a[2]) for a, v in p.conds if a[0] == "call"]
                    self.skip_paths.append((skipped, conds))
            except Exception:
                self.skip_paths = None
        # the visitor bodies hang below `deserialize` in the def path
        if self.de is not None:
            prefix = self.de.path
            for f in F.fn_list:
                if not f.path.startswith("<" + prefix + "::") and not f.path.startswith(prefix + "::"):
                    continue
                pv = Prov(f)
                for bi, t, cal in f.calls():
                    if cal is None:
                        continue
                    if f.name == "visit_str" and "__FieldVisitor" in f.path and cal.name == "eq" and len(t["args"]) == 2:
                        k = pv.operand(t["args"][1])
                        if k[0] == "const" and isinstance(k[1], str):
                            self.accepted.append(k[1])
                    if f.name == "visit_map" and cal.name == "missing_field" and t["args"]:
                        k = pv.operand(t["args"][0])
                        if k[0] == "const":
                            self.required.append(k[1])
                    if f.name == "visit_map" and cal.name in ("default",) or (f.name == "visit_map" and cal.local and cal.name.startswith("default")):
                        self.defaulted.append(cal.key())

    def field_type(self, key_to_field, key):
        fld = key_to_field.get(key)
        if fld is None:
            return None
        for n, ty in self.F.adt_fields(self.adt):
            if n == fld:
                return ty
        return None


def r06(ctx):
    F = ctx.facts
    closure = T.adt_closure(F, ROOTS)
    models = {a: Model(F, a) for a in sorted(closure)}

    def body1(r):
        for a, m in models.items():
            short = a.rsplit("::", 1)[1]
            r.ob("derive:%s:Serialize" % short, m.ser is not None and m.ser.derived, m.ser.site if m.ser else "", "Serialize is %s" % ("derived" if m.ser is not None and m.ser.derived else "missing or hand-written"))
            r.ob("derive:%s:Deserialize" % short, m.de is not None and m.de.derived, m.de.site if m.de else "", "Deserialize is %s" % ("derived" if m.de is not None and m.de.derived else "missing or hand-written"))
        foreign = T.foreign_adts_in(F, closure)
        for fa, where in sorted(foreign.items()):
            ok = fa in FOREIGN_LEAVES_OK
            r.ob("derive:leaf:%s" % fa, ok, "", "foreign leaf type %s used by %s%s" % (fa, ["%s.%s" % (x.rsplit("::", 1)[1], y) for x, y in where[:3]], "" if ok else " is not in the reviewed table of round-tripping leaf types"))
        # a field routed through a hand-written function (`serialize_with`, `deserialize_with`, `with`) is not written and
        # read from one derived definition any more: its two directions have to be reviewed together
        custom = sorted(k for k in F.adts if ("__SerializeWith" in k or "__DeserializeWith" in k) and any((" for %s>" % a) in k for a in closure))
        for k in custom:
            owner = [a for a in closure if (" for %s>" % a) in k][0]
            r.ob("derive:custom-field-codec:%s:%s" % (owner.rsplit("::", 1)[1], "write" if "__SerializeWith" in k else "read"), False, "",
                 "a field of %s is %s through a hand-written function while the other direction is derived: what is written need not be what is read back (precision, format, defaults)" % (owner.rsplit("::", 1)[1], "written" if "__SerializeWith" in k else "read"))
        r.ob("derive:no-custom-field-codec", not custom, "", "no wire field goes through a hand-written (de)serialiser")
        r.ob("derive:closure-size", len(closure) >= 14, "", "%d local ADTs in the wire closure of Action and Request: %s" % (len(closure), sorted(x.rsplit("::", 1)[1] for x in closure)))
    ctx.run_rule("R06.1", "every wire type derives both directions; leaf types reviewed", body1, floor=30)

    def body2(r):
        for a, m in models.items():
            short = a.rsplit("::", 1)[1]
            if m.ser is None or m.de is None:
                continue
            r.analysed(m.ser, m.de)
            if m.kind == "struct":
                wkeys = [k for k, _ in m.written]
                key_to_field = {}
                for k, v in m.written:
                    flds = [x[2] for x in walk(v) if x[0] == "field" and x[3] == a]
                    if flds:
                        key_to_field[k] = flds[0]
                nfields = len(F.adt(a)["variants"][0]["fields"])
                r.ob("keys:%s:all-fields-written" % short, len(set(key_to_field.values())) == nfields, m.ser.site, "%d of %d fields are written: %s" % (len(set(key_to_field.values())), nfields, wkeys))
                missing = [k for k in wkeys if k not in m.accepted]
                r.ob("keys:%s:written-are-accepted" % short, not missing and bool(wkeys), m.de.site, "written keys %s; accepted keys %s%s" % (wkeys, m.accepted, "" if not missing else "; written but not accepted: %s" % missing))
                extra = [k for k in m.accepted if k not in wkeys]
                if extra:
                    r.note("%s accepts additional keys (aliases): %s" % (short, extra))
                # required keys: missing_field on a non-Option field
                for k in m.required:
                    ty = m.field_type(key_to_field, k)
                    if ty is None:
                        r.ob("keys:%s:required:%s" % (short, k), k in wkeys and k not in m.skipped, m.de.site, "required key `%s` is %s" % (k, "always written" if k in wkeys and k not in m.skipped else "not always written"))
                        continue
                    if ty.get("adt") == "std::option::Option":
                        continue  # serde's missing_field yields None for Option fields
                    ok = k in wkeys and k not in m.skipped
                    r.ob("keys:%s:required:%s" % (short, k), ok, m.de.site, "required key `%s` (type %s) is %s" % (k, ty["s"], "always written" if ok else "not always written: a serialised value cannot be read back"))
                for k in sorted(m.skipped):
                    ok = k not in m.required
                    r.ob("keys:%s:conditional:%s" % (short, k), ok, m.ser.site, "conditionally written key `%s` is %s on read" % (k, "defaulted" if ok else "required"))
                    preds = set()
                    fld = key_to_field.get(k)
                    for skipped_keys, conds in (getattr(m, "skip_paths", None) or []):
                        if k not in skipped_keys:
                            continue
                        for pk, outcome, args_ in conds:
                            if fld is not None and any(mentions_field(x, fld, a) for x in args_):
                                name = pk
                                if pk == "std::option::Option::is_some" and outcome == 0:
                                    name = "std::option::Option::is_none"  # the engine normalises is_none to !is_some
                                elif outcome == 0:
                                    name = "!" + pk
                                preds.add(name)
                    okp = bool(preds) and all(pk in SKIP_PREDICATES_OK for pk in preds)
                    r.ob("keys:%s:conditional:%s:predicate" % (short, k), okp, m.ser.site,
                         "key `%s` is skipped under %s: %s" % (k, sorted(str(x) for x in preds), "true only for the value the reader defaults to" if okp else "not one of the reviewed predicates whose truth implies the default value (a value such as Some(false) may be dropped on write and read back as the default)"))
            elif m.kind == "enum" and not m.untagged_order:
                vw = sorted(set(m.variants_written))
                va = sorted(set(m.accepted))
                names = [v["name"] for v in F.adt(a)["variants"]]
                r.ob("variants:%s:all-written" % short, len(vw) == len(names), m.ser.site, "%d variants, %d distinct wire names written: %s" % (len(names), len(vw), vw))
                r.ob("variants:%s:written-are-accepted" % short, set(vw) <= set(va) and bool(vw), m.de.site, "written %s; accepted %s" % (vw, va))
    ctx.run_rule("R06.2", "key agreement between the derived writer and reader", body2, floor=30)

    def body3(r):
        for a, m in models.items():
            if not (m.kind == "enum" and m.untagged_order):
                continue
            short = a.rsplit("::", 1)[1]
            order = [v["fields"][0] for v in F.adt(a)["variants"]]
            var_adts = [F.types[v["fields"][0]["ty"]].get("adt") for v in F.adt(a)["variants"]]
            r.ob("untagged:%s:variants" % short, all(x in models for x in var_adts) and len(var_adts) >= 2, m.ser.site, "untagged variants tried in order: %s" % [x.rsplit("::", 1)[1] for x in var_adts if x])
            for i, e in enumerate(var_adts):
                for l in var_adts[i + 1:]:
                    if e not in models or l not in models:
                        continue
                    me, ml = models[e], models[l]
                    key_to_field = {}
                    for k, v in me.written:
                        flds = [x[2] for x in walk(v) if x[0] == "field" and x[3] == e]
                        if flds:
                            key_to_field[k] = flds[0]
                    req = []
                    for k in me.required:
                        ty = me.field_type(key_to_field, k)
                        if ty is not None and ty.get("adt") == "std::option::Option":
                            continue
                        req.append(k)
                    wl = [k for k, _ in ml.written]
                    captured = bool(req) and set(req) <= set(wl)
                    r.ob("untagged:%s:%s-not-captured-by-%s" % (short, l.rsplit("::", 1)[1], e.rsplit("::", 1)[1]), not captured and bool(req), ml.ser.site,
                         "required(%s) = %s; written(%s) = %s: %s" % (e.rsplit("::", 1)[1], req, l.rsplit("::", 1)[1], wl, "a serialised later variant can never be read back as the earlier one" if not captured else "a serialised later variant is read back as the earlier one"))
    ctx.run_rule("R06.3", "untagged variants are distinguishable", body3, floor=2)

    def body4(r):
        for a in sorted(closure):
            for v in F.adt(a)["variants"]:
                for fl in v["fields"]:
                    ty = F.types[fl["ty"]]
                    bad = [x for x in ty.get("adts", []) if T.is_hash_ordered(x)]
                    r.ob("stable:%s.%s" % (a.rsplit("::", 1)[1], fl["name"]), not bad, "", "field type %s%s" % (ty["s"], "" if not bad else ": hash-ordered container, re-serialisation is not stable"))
    ctx.run_rule("R06.4", "no hash-ordered container in the wire closure", body4, floor=40)

    def body5(r):
        table = {
            "redirectionio_action_json_deserialize": ("serde_json::from_str", "action::Action"),
            "redirectionio_action_json_serialize": ("serde_json::to_string", "action::Action"),
            "redirectionio_request_json_deserialize": ("serde_json::from_str", "http::request::Request"),
            "redirectionio_request_json_serialize": ("serde_json::to_string", "http::request::Request"),
        }
        for name, (callee, adt) in table.items():
            fs = [f for f in F.fn_list if f.name == name and f.abi.startswith("C")]
            if len(fs) != 1:
                r.missing(name)
                continue
            f = fs[0]
            r.analysed(f)
            ok = False
            for bi, t, cal in f.calls():
                if cal and cal.path.split("::<")[0] == callee:
                    tys = [F.types[x] for x in cal.substs]
                    ok = any(adt in ty.get("adts", []) or ty.get("adt") == adt for ty in tys)
            r.ob("ffi:%s" % name, ok, f.site, "%s is %s::<%s>" % (name, callee, adt.rsplit("::", 1)[1]))
            others = [cal.key() for bi, t, cal in f.calls() if cal and cal.local and not cal.key().startswith("ffi_helpers::")]
            r.ob("ffi:%s:nothing-else" % name, not others, f.site, "no other library call touches the value: %s" % others)
    ctx.run_rule("R06.5", "FFI (de)serialise entry points are serde_json on Action / Request", body5, floor=8)


def run(ctx):
    r06(ctx)
