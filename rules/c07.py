"""C07 — no input makes the library panic (panic-site audit with guard discharge, recursion audit,
FFI null guards, bounded-write invariants)."""
from riolib.core import Callee, MissingAnchor, op_place, span_line, is_expansion, macro_of
from riolib.prov import Prov, show, mentions, mentions_field, walk, phi_parts
from riolib.sym import Sym, for_loops
from riolib.guards import Tests, edge_dominates, fields_written_between, blocks_between
from riolib.effects import effects, transitive_writes, place_field_chain

THOROUGH_CONFIGS = ['dot']
RELEASE_PROFILE = True


MANIFEST = {
    "text": "Static panic-site audit over every non-derived body of the library (all are reachable from the public API): every Assert terminator (bounds, overflow, div/rem) and every call to a panicking std API (unwrap/expect, Index, Vec::remove/insert, copy_from_slice, explicit panic!) must be discharged by a dominating guard of a recognised class (presence test of the same place with no intervening write, ensure-present-then-get, induction variable of 0..len, constant index, unread-after-successful-read, comparison guard) or by a reviewed exception keyed by function and operand signature; plus a recursion audit of the call graph (SCC table with depth bounds), null-guard dominance in the extern C functions and the bounded-write invariants the guards rely on. Also: loops whose exit test reads local variables make progress on every iteration (R07.6), the regex nest limit is not lifted (R07.7), chrono's to_rfc2822 precondition.",
    "technique": "static analysis: panic-site inventory with guard dominance over MIR, SCC audit of the resolved call graph",
}

PANIC_CALLS = {
    ("std::option::Option", "unwrap"): "unwrap", ("std::option::Option", "expect"): "unwrap",
    ("std::result::Result", "unwrap"): "unwrap", ("std::result::Result", "expect"): "unwrap",
    ("std::result::Result", "unwrap_err"): "unwrap", ("std::result::Result", "expect_err"): "unwrap",
    ("std::vec::Vec", "remove"): "vec_remove", ("std::vec::Vec", "insert"): "vec_insert", ("std::vec::Vec", "swap_remove"): "vec_remove",
    ("std::vec::Vec", "drain"): "range", ("std::vec::Vec", "split_off"): "range", ("std::string::String", "remove"): "vec_remove",
    ("std::string::String", "insert"): "vec_insert", ("std::string::String", "insert_str"): "vec_insert", ("std::string::String", "drain"): "range",
    ("std::string::String", "split_off"): "range", ("std::string::String", "replace_range"): "range",
    ("slice", "clone_from_slice"): "same_len", ("slice", "copy_from_slice"): "same_len", ("slice", "split_at"): "range", ("slice", "split_at_mut"): "range",
    ("slice", "swap"): "index", ("slice", "chunks"): "nonzero", ("slice", "windows"): "nonzero", ("slice", "copy_within"): "range", ("slice", "rotate_left"): "range",
    ("str", "split_at"): "range", ("std::cell::RefCell", "borrow"): "refcell", ("std::cell::RefCell", "borrow_mut"): "refcell",
    ("std::iter::Iterator", "step_by"): "nonzero",
}
# third-party APIs documented to panic on a precondition of their arguments (by trait / type and method)
PRECONDITION_CALLS = {
    ("rand::Rng", "gen_ratio"): "numerator <= denominator and denominator > 0",
    ("rand::Rng", "gen_range"): "a non-empty range",
    ("rand::Rng", "gen_bool"): "a probability within [0, 1]",
    ("rand::seq::SliceRandom", "choose_multiple"): None,
    ("std::time::Instant", "duration_since"): None,
    ("chrono::DateTime", "to_rfc2822"): "a year within 0..=9999 (RFC 2822 years have four digits)",
}
EXPLICIT_PANIC_MACROS = ("m:panic", "m:unreachable", "m:assert", "m:assert_eq", "m:assert_ne", "m:todo", "m:unimplemented", "m:debug_assert")


class Site:
    __slots__ = ("fn", "block", "kind", "ops", "line", "what", "term", "pv")

    def __init__(self, fn, block, kind, ops, line, what, term, pv):
        self.fn, self.block, self.kind, self.ops, self.line, self.what, self.term, self.pv = fn, block, kind, ops, line, what, term, pv

    @property
    def owner(self):
        """the named function this site belongs to (closures report under the function defining them)"""
        f = self.fn
        n = 0
        while f.is_closure and f.parent in f.facts.fns and n < 8:
            f = f.facts.fns[f.parent]
            n += 1
        return f

    @property
    def sig(self):
        ops = self.ops
        f = self.fn
        n = 0
        # inside a closure, captured variables are what they are in the enclosing function
        while f.is_closure and f.parent in f.facts.fns and n < 4:
            from riolib.prov import resolve_captures
            ops = [resolve_captures(o, f) for o in ops]
            f = f.facts.fns[f.parent]
            n += 1
        return "%s(%s)" % (self.what, ", ".join(show(o, f) for o in ops))

    @property
    def key(self):
        return "%s:%s:%s" % (self.owner.key, self.kind, self.sig)


def panic_sites(F):
    out = []
    for f in F.fn_list:
        if f.derived:
            continue
        pv = Prov(f, copies=True)
        for bi in f.normal_blocks():
            t = f.blocks[bi]["term"]
            if t["k"] == "assert":
                k = t["kind"]
                if k in ("misaligned", "nullptr"):
                    continue
                if is_expansion(t["s"]):
                    continue
                ops = [pv.operand(o) for o in t["ops"]]
                if k == "bounds":
                    out.append(Site(f, bi, "index", ops, span_line(t["s"]), "bounds", t, pv))
                elif k.startswith("overflow:"):
                    op = k.split(":")[1]
                    out.append(Site(f, bi, {"Add": "add", "Sub": "sub", "Mul": "mul", "Shl": "shl", "Shr": "shl"}.get(op, "arith"), ops, span_line(t["s"]), op, t, pv))
                elif k in ("div_zero", "rem_zero"):
                    out.append(Site(f, bi, "divrem", ops, span_line(t["s"]), k, t, pv))
                elif k == "overflow_neg":
                    out.append(Site(f, bi, "arith", ops, span_line(t["s"]), k, t, pv))
            elif t["k"] == "call" and "f" in t:
                cal = Callee(t["f"])
                if cal.local:
                    continue
                if is_expansion(t["s"]):
                    m = macro_of(t["s"])
                    if m in EXPLICIT_PANIC_MACROS and t.get("t") is None:
                        out.append(Site(f, bi, "explicit", [], span_line(t["s"]), m, t, pv))
                    continue
                kind = None
                grp = cal.adt
                if "<impl [T]>" in cal.path:
                    grp = "slice"
                elif "<impl str>" in cal.path:
                    grp = "str"
                kind = PANIC_CALLS.get((grp, cal.name))
                if kind is None and cal.name in ("index", "index_mut") and cal.def_trait in ("std::ops::Index", "std::ops::IndexMut"):
                    kind = "index"
                if kind is None and "panicking" in cal.def_path and t.get("t") is None:
                    kind = "explicit"
                if kind is None and PRECONDITION_CALLS.get((cal.def_trait or cal.adt, cal.name)):
                    kind = "precondition"
                if kind is None:
                    continue
                ops = [pv.operand(a) for a in t["args"]]
                what = cal.key().replace("std::", "")
                if kind == "unwrap":
                    ops = ops[:1]
                out.append(Site(f, bi, kind, ops, span_line(t["s"]), what, t, pv))
    return out


# ---------------------------------------------------------------------------------------
# guard classes
# ---------------------------------------------------------------------------------------
def _same(a, b):
    return a == b


def _written_between(f, target, use, expr):
    """is some field / local the guarded expression depends on possibly written between the guard
    edge and the use?"""
    flds = {(x[3], x[2]) for x in walk(expr) if x[0] == "field" and x[3]}
    if flds:
        w = fields_written_between(f, target, use)
        hit = flds & w
        if hit:
            return "field %s may be written between the test and the use" % sorted(hit)[0][1]
    return None


def g1_presence(site, tests):
    """unwrap(R): a dominating edge on which R is Some/Ok, R unchanged in between."""
    f = site.fn
    R = site.ops[0]
    # x.take().unwrap(): present exactly when x was
    while R[0] == "call" and R[1] in ("std::option::Option::take", "std::option::Option::as_ref", "std::option::Option::as_mut", "std::option::Option::as_deref", "std::option::Option::as_deref_mut") and R[2]:
        R = R[2][0]
    want_some = site.what.rsplit("::", 1)[1] in ("unwrap", "expect")
    cands = []

    def pred(atom, outcome):
        if atom[0] != "call" or not atom[2]:
            return False
        name = atom[1].rsplit("::", 1)[1]
        if atom[2][0] != R:
            return False
        if name in ("is_some", "is_ok"):
            return outcome is True
        if name in ("is_none", "is_err"):
            return outcome is False
        return False
    cands.extend(tests.blocks_where(pred))
    cands.extend(tests.disc_blocks(lambda pe: pe == R, "Some"))
    cands.extend(tests.disc_blocks(lambda pe: pe == R, "Ok"))
    for tb, sb in cands:
        if edge_dominates(f, tb, sb, site.block):
            why = _written_between(f, tb, site.block, R)
            if why is None:
                return "G1: dominated by a presence test of %s" % show(R, f)
    return None


def g7_nonempty(site, tests):
    """pop()/first()/last()/next() .unwrap() after a dominating non-emptiness / length test of the same collection."""
    f = site.fn
    R = site.ops[0]
    if R[0] != "call":
        return None
    name = R[1].rsplit("::", 1)[1]
    if name not in ("pop", "first", "last", "first_mut", "last_mut", "pop_front", "pop_back"):
        return None
    V = R[2][0]

    def pred(atom, outcome):
        if atom[0] == "call" and atom[1].rsplit("::", 1)[1] == "is_empty" and atom[2] and atom[2][0] == V:
            return outcome is False
        if atom[0] == "bin" and atom[1] in ("Eq", "Ge", "Gt", "Ne"):
            l, r_ = atom[2], atom[3]
            if l[0] == "call" and l[1].rsplit("::", 1)[1] == "len" and l[2][0] == V and r_[0] == "const" and isinstance(r_[1], int):
                if atom[1] == "Eq":
                    return outcome is True and r_[1] >= 1
                if atom[1] == "Ge":
                    return outcome is True and r_[1] >= 1
                if atom[1] == "Gt":
                    return outcome is True and r_[1] >= 0
                if atom[1] == "Ne":
                    return outcome is True and r_[1] == 0
        return False
    cands = list(tests.blocks_where(pred))
    # `match v.len() { 1 => v.pop().unwrap(), .. }`
    cands += tests.int_blocks(lambda e: e[0] == "call" and e[1].rsplit("::", 1)[1] == "len" and e[2] and e[2][0] == V, lambda v: v >= 1)
    for tb, sb in cands:
        if edge_dominates(f, tb, sb, site.block):
            # no mutation of V between: V is a local container; look for calls on it
            bad = False
            own = 0
            for x in blocks_between(f, tb, site.block):
                if x == site.block:
                    continue
                t = f.blocks[x]["term"]
                if t["k"] == "call" and "f" in t:
                    c = Callee(t["f"])
                    if c.name in ("pop", "clear", "remove", "truncate", "drain", "retain", "swap_remove", "pop_front", "pop_back") and site.pv.operand(t["args"][0]) == V:
                        if c.name == name and own == 0:
                            own += 1  # the very call whose result is unwrapped
                        else:
                            bad = True
            if not bad:
                return "G7: %s() after a dominating non-emptiness test of %s" % (name, show(V, f))
    return None


def g2_ensure_present(site, tests):
    """map.get(k)/get_mut(k).unwrap() where every path passed contains_key(k)==true or insert(k)."""
    f = site.fn
    R = site.ops[0]
    if R[0] != "call" or R[1].rsplit("::", 1)[1] not in ("get", "get_mut") or len(R[2]) < 2:
        return None
    M, K = R[2][0], R[2][1]
    blocks = set()

    def pred(atom, outcome):
        return atom[0] == "call" and atom[1].rsplit("::", 1)[1] == "contains_key" and len(atom[2]) >= 2 and atom[2][0] == M and atom[2][1] == K and outcome is True
    for tb, sb in tests.blocks_where(pred):
        blocks.add(tb)
    for bi, t, cal in f.calls():
        if cal and cal.name == "insert" and len(t["args"]) >= 2:
            if site.pv.operand(t["args"][0]) == M and site.pv.operand(t["args"][1]) == K and t.get("t") is not None:
                blocks.add(t["t"])
    if blocks and f.must_pass_through(blocks, start=0, ends=[site.block]):
        return "G2: key ensured present (contains_key / insert) on every path"
    return None


def _range_item(e):
    """e is the item of `for i in a..b` : returns (start expr, end expr) or None"""
    if e[0] == "field" and e[1][0] == "variant" and e[1][2] == "Some":
        nx = e[1][1]
        if nx[0] == "call" and nx[1].endswith("Iterator>::next") or (nx[0] == "call" and nx[1].rsplit("::", 1)[1] == "next"):
            src = nx[2][0]
            if src[0] == "agg" and (src[1] or "").endswith("ops::Range"):
                d = dict(src[3])
                return d.get("start"), d.get("end")
    return None


def _len_of(e):
    if e[0] == "call" and e[1].rsplit("::", 1)[1] == "len" and e[2]:
        return e[2][0]
    return None


def g3_induction(site, tests):
    """x[i] with i from `0..x.len()` (same x), or a constant-length literal."""
    f = site.fn
    if site.what == "bounds":
        length, idx = site.ops
        coll = None
    else:
        if len(site.ops) < 2:
            return None
        coll, idx = site.ops[0], site.ops[1]
        length = None
    ri = _range_item(idx)
    if ri is None:
        return None
    start, end = ri
    if start != ("const", 0):
        return None
    lo = _len_of(end)
    if coll is not None and lo is not None and lo == coll:
        return "G3: index is the induction variable of 0..len() of the same collection"
    if length is not None:
        # bounds assert: `len` operand is PtrMetadata / const of the indexed slice
        if length[0] == "const" and end[0] == "const" and isinstance(length[1], int) and isinstance(end[1], int) and end[1] <= length[1]:
            return "G3: constant range within a constant length"
        if length[0] == "const" and isinstance(length[1], int) and lo is not None and lo[0] == "const" and isinstance(lo[1], str) and len(lo[1].encode()) <= length[1]:
            return "G3: 0..literal.len() indexes a fixed-size array of at least that length"
        if lo is not None and mentions(length, lambda x: x == lo):
            return "G3: index is the induction variable of 0..len() of the indexed slice"
        if end[0] == "call" and length[0] == "un" and mentions(length, lambda x: x == lo):
            return "G3: index is the induction variable of 0..len() of the indexed slice"
        # end is the len() of a string literal and the slice is that literal's bytes
        if lo is not None and lo[0] == "const" and isinstance(lo[1], str):
            consts = [x[1] for x in walk(length) if x[0] == "const"]
            lens = [len(c) if isinstance(c, str) else (len(c[1]) if isinstance(c, tuple) and c and c[0] == "bytes" else None) for c in consts]
            if any(n is not None and n >= len(lo[1]) for n in lens):
                return "G3: 0..literal.len() indexes a literal of at least that length"
    return None


def g4_const_index(site, tests):
    if site.what != "bounds":
        return None
    length, idx = site.ops
    if length[0] == "const" and idx[0] == "const" and isinstance(length[1], int) and isinstance(idx[1], int) and 0 <= idx[1] < length[1]:
        return "G4: constant index %d into a fixed-size array of %d" % (idx[1], length[1])
    return None


WIDE = ("usize", "u64", "i64", "u128", "i128", "isize")


def g5_counter(site, tests):
    if site.kind != "add":
        return None
    a, b = site.ops
    ty = None
    # operand types: look at the assert's first operand place
    p = op_place(site.term["ops"][0])
    if p is not None:
        ty = site.fn.facts.types[site.fn.locals[p[0]][0]]["s"]
    else:
        p2 = op_place(site.term["ops"][1])
        if p2 is not None:
            ty = site.fn.facts.types[site.fn.locals[p2[0]][0]]["s"]
    small = (b[0] == "const" and isinstance(b[1], int) and 0 <= b[1] <= 4096) or (a[0] == "const" and isinstance(a[1], int) and 0 <= a[1] <= 4096)
    if ty in WIDE and small:
        return "G5: small constant added to a %s counter (cannot overflow in practice)" % ty
    return None


def g9_compare(site, tests):
    """a - b dominated by a comparison establishing a >= b."""
    if site.kind != "sub":
        return None
    f = site.fn
    a, b = site.ops

    def pred(atom, outcome):
        if atom[0] != "bin":
            return False
        op, l, r_ = atom[1], atom[2], atom[3]
        if (l, r_) == (a, b):
            return (op in ("Ge", "Gt") and outcome is True) or (op in ("Lt", "Le") and outcome is False and op == "Lt")
        if (l, r_) == (b, a):
            return (op in ("Le", "Lt") and outcome is True) or (op in ("Gt",) and outcome is False)
        # a > 0 and b == 1
        if b == ("const", 1) and l == a and r_ == ("const", 0):
            return (op in ("Gt", "Ne") and outcome is True) or (op == "Eq" and outcome is False)
        return False
    for tb, sb in tests.blocks_where(pred):
        if edge_dominates(f, tb, sb, site.block):
            why = _written_between(f, tb, site.block, a) or _written_between(f, tb, site.block, b)
            if why is None:
                return "G9: dominated by a comparison establishing %s >= %s" % (show(a, f), show(b, f))
    return None


GUARDS = {
    "unwrap": (g1_presence, g7_nonempty, g2_ensure_present),
    "index": (g4_const_index, g3_induction),
    "add": (g5_counter,),
    "sub": (g9_compare,),
}


def g19_const_precondition(site, tests):
    """gen_ratio(n, d) / gen_bool(p) with constant arguments that satisfy the documented precondition"""
    if site.kind != "precondition":
        return None
    name = site.what.rsplit("::", 1)[1]
    a = [x for x in site.ops[1:]]
    if name == "gen_ratio" and len(a) == 2 and all(_c is not None for _c in (_const_int(a[0]), _const_int(a[1]))):
        n_, d_ = _const_int(a[0]), _const_int(a[1])
        if d_ > 0 and 0 <= n_ <= d_:
            return "G19: constant ratio %d/%d" % (n_, d_)
    return None


def g20_year_in_range(site, tests):
    """d.to_rfc2822() reached only after `(lo..=hi).contains(&d.year())` with 0 <= lo and hi <= 9999"""
    if site.kind != "precondition" or site.what.rsplit("::", 1)[1] != "to_rfc2822":
        return None
    f = site.fn
    recv = site.ops[0]

    def pred(atom, outcome):
        if outcome is not True or atom[0] != "call" or atom[1].rsplit("::", 1)[1] != "contains" or len(atom[2]) != 2:
            return False
        rng, val = atom[2]
        if not (rng[0] == "call" and rng[1].endswith("RangeInclusive::new") and len(rng[2]) == 2):
            return False
        lo, hi = _const_int(rng[2][0]), _const_int(rng[2][1])
        if lo is None or hi is None or lo < 0 or hi > 9999:
            return False
        return val[0] == "call" and val[1].rsplit("::", 1)[1] == "year" and val[2] and val[2][0] == recv
    for tb, sb in tests.blocks_where(pred):
        if edge_dominates(f, tb, sb, site.block):
            return "G20: reached only when the year is within 0..=9999"
    return None


GUARDS["precondition"] = (g19_const_precondition, g20_year_in_range)


def discharge(site, tests_cache, extra=()):
    f = site.fn
    tests = tests_cache.get(f.path)
    if tests is None:
        tests = tests_cache[f.path] = Tests(f, site.pv)
    for g in GUARDS.get(site.kind, ()) + tuple(extra):
        why = g(site, tests)
        if why:
            return why
    return None


# ---------------------------------------------------------------------------------------
# more guard classes (arithmetic)
# ---------------------------------------------------------------------------------------
def site_int_type(site):
    """integer type of an overflow assert: the checked op yields a `(T, bool)` tuple whose `.1`
    is the asserted condition."""
    p = op_place(site.term["cond"])
    if p is None:
        return None
    s = site.fn.facts.types[site.fn.locals[p[0]][0]]["s"]
    if s.startswith("(") and s.endswith(", bool)"):
        return s[1:-len(", bool)")]
    return None


def _const_int(e):
    if e[0] == "const" and isinstance(e[1], int) and not isinstance(e[1], bool):
        return e[1]
    if e[0] == "call" and e[1].rsplit("::", 1)[1] == "len" and e[2] and e[2][0][0] == "const" and isinstance(e[2][0][1], str):
        return len(e[2][0][1].encode())
    if e[0] == "field" and e[2] == "0" and e[1][0] == "bin" and e[1][1].endswith("WithOverflow"):
        a, b = _const_int(e[1][2]), _const_int(e[1][3])
        if a is not None and b is not None:
            return {"Add": a + b, "Sub": a - b, "Mul": a * b}.get(e[1][1][:3])
    return None


def g13_const_eval(site, tests):
    if site.kind not in ("add", "sub", "mul"):
        return None
    a, b = _const_int(site.ops[0]), _const_int(site.ops[1])
    if a is None or b is None:
        return None
    ty = site_int_type(site) or "usize"
    lo, hi = {"u8": (0, 255), "u16": (0, 65535), "u32": (0, 2 ** 32 - 1), "i32": (-2 ** 31, 2 ** 31 - 1), "i64": (-2 ** 63, 2 ** 63 - 1)}.get(ty, (0, 2 ** 64 - 1))
    v = {"add": a + b, "sub": a - b, "mul": a * b}[site.kind]
    if lo <= v <= hi:
        return "G13: constant operands (%d %s %d) within %s" % (a, site.what, b, ty)
    return None


def g5b_counter(site, tests):
    """+= 1 / -= 1 on a signed or 32-bit counter that steps at most once per input element."""
    if site.kind not in ("add", "sub"):
        return None
    ty = site_int_type(site)
    a, b = site.ops
    if b != ("const", 1):
        return None
    if ty in ("i32", "i64", "isize"):
        # a signed counter stepping by one: 2^31 steps are out of reach for in-memory input
        if mentions(a, lambda x: x[0] == "phi") or a[0] in ("local", "phi"):
            return "G5: unit step on a signed %s counter" % ty
    if ty in ("u32", "usize", "u64", "u8") and site.kind == "add":
        if ty == "u8":
            return None
        return "G5: unit increment of a %s counter" % ty
    return None


def _is_raw_end(e):
    return e == ("field", ("field", ("param", 1), "raw", "html::Tokenizer"), "end", "html::Span")


NET_NON_DECREASING = {"html::Tokenizer::read_byte", "html::Tokenizer::skip_white_space"}


def successful_reads(f, tests):
    """[(call block, first block reached only if the read succeeded)] for Tokenizer::read_byte"""
    out = []
    for bi, t, cal in f.calls():
        if cal is None or cal.key() != "html::Tokenizer::read_byte" or t.get("t") is None:
            continue
        # the next test of `self.err.is_some()` after the call, before any other call
        b = t["t"]
        steps = 0
        while steps < 6:
            steps += 1
            tm = f.blocks[b]["term"]
            if tm["k"] == "call" and "f" in tm and Callee(tm["f"]).name in ("is_some", "is_none"):
                for atom, tb, fb, sb in tests.bool_edges:
                    if atom[0] == "call" and atom[1] == "std::option::Option::is_some" and atom[2][0] == ("field", ("param", 1), "err", "html::Tokenizer"):
                        # the switch consuming this is_some call
                        if f.dominates(b, sb) and f.can_reach(b, sb) and _first_switch_after(f, b) == sb:
                            out.append((bi, fb))
                break
            if tm["k"] == "goto":
                b = tm["t"]
                continue
            break
    return out


def _first_switch_after(f, b):
    steps = 0
    while steps < 6:
        steps += 1
        tm = f.blocks[b]["term"]
        if tm["k"] == "switch":
            return b
        if tm["k"] in ("goto", "call") and tm.get("t") is not None:
            b = tm["t"]
            continue
        return None
    return None


def g8_unread(site, tests):
    """`raw.end - c` after c successful read_byte() calls of the same function with nothing that
    could decrease raw.end in between."""
    if site.kind != "sub":
        return None
    f = site.fn
    a, b = site.ops
    if not _is_raw_end(a):
        return None
    c = _const_int(b)
    if c is None or c < 1 or c > 4:
        return None
    reads = [(cb, nb) for cb, nb in successful_reads(f, tests) if f.dominates(nb, site.block)]
    # order by dominance: the c innermost ones
    reads.sort(key=lambda x: len(f.dominators()[x[1]]))
    if len(reads) < c:
        return None
    chosen = reads[-c:]
    first_call = chosen[0][0]
    read_blocks = {cb for cb, _ in chosen}
    # no other change of raw.end between the first chosen read and the site
    for x in blocks_between(f, first_call, site.block):
        blk = f.blocks[x]
        if x != site.block:
            for st in blk["st"]:
                if st["k"] == "A" and ("html::Tokenizer", "raw") in place_field_chain(st["p"]):
                    return None
            t = blk["term"]
            if t["k"] == "call" and "f" in t and x not in read_blocks:
                cal = Callee(t["f"])
                if cal.local and cal.key() not in NET_NON_DECREASING:
                    tgt = f.facts.fns.get(cal.path)
                    if tgt is None or ("html::Tokenizer", "raw") in transitive_writes(f.facts, [tgt]):
                        return None
                for fld in place_field_chain(t["dest"]):
                    if fld == ("html::Tokenizer", "raw"):
                        return None
        else:
            for st in blk["st"]:
                pass
    return "G8: un-reads %d byte(s) just read successfully by read_byte() in the same function" % c


def g12_ascii_upper(site, tests):
    """u8 + 32 dominated by is_ascii_uppercase() of the same value"""
    if site.kind != "add" or site_int_type(site) != "u8":
        return None
    f = site.fn

    def pred(atom, outcome):
        return atom[0] == "call" and atom[1].rsplit("::", 1)[1] == "is_ascii_uppercase" and outcome is True
    for tb, sb in tests.blocks_where(pred):
        if edge_dominates(f, tb, sb, site.block):
            return "G12: to-lower of a byte tested with is_ascii_uppercase()"
    return None


def g11_const_divisor(site, tests):
    if site.kind != "divrem":
        return None
    f = site.fn
    p = op_place(site.term["cond"])
    if p is None:
        return None
    for db, si in f.defs().get(p[0], []):
        if si == "term":
            continue
        r = f.blocks[db]["st"][si]["r"]
        if r["k"] == "bin" and r["op"] == "Eq":
            d = site.pv.operand(r["a"])
            z = site.pv.operand(r["b"])
            if z == ("const", 0) and d[0] == "const" and isinstance(d[1], int) and d[1] != 0:
                return "G11: constant non-zero divisor %d" % d[1]
    return None


def g9b_cast_compare(site, tests):
    """`x - 1` guarded by `x as iN > 0`"""
    if site.kind != "sub" or site.ops[1] != ("const", 1):
        return None
    f = site.fn
    a = site.ops[0]

    def pred(atom, outcome):
        return atom[0] == "bin" and atom[1] == "Gt" and atom[2] == ("cast", a) and atom[3] == ("const", 0) and outcome is True
    for tb, sb in tests.blocks_where(pred):
        if edge_dominates(f, tb, sb, site.block) and _written_between(f, tb, site.block, a) is None:
            return "G9: dominated by `%s > 0`" % show(a, f)
    return None


GUARDS["add"] = (g13_const_eval, g5_counter, g5b_counter, g12_ascii_upper)
GUARDS["sub"] = (g13_const_eval, g9_compare, g9b_cast_compare, g8_unread, g5b_counter)
GUARDS["divrem"] = (g11_const_divisor,)


def g8b_unread_in_callers(site, tests, depth=0, cache=None):
    """`raw.end - c` at the entry of a private helper: every caller has just read c bytes."""
    if site.kind != "sub" or not _is_raw_end(site.ops[0]):
        return None
    c = _const_int(site.ops[1])
    if c is None or not (1 <= c <= 4):
        return None
    ok, n = _callers_have_read(site.fn, site.block, c, 0)
    if ok and n:
        return "G8: un-reads %d byte(s) that every caller (%d call sites, transitively) has just read successfully" % (c, n)
    return None


def _no_raw_change_before(f, block):
    """nothing on the paths entry -> block changes raw.end"""
    for x in blocks_between(f, 0, block):
        blk = f.blocks[x]
        if x == block:
            continue
        for st in blk["st"]:
            if st["k"] == "A" and ("html::Tokenizer", "raw") in place_field_chain(st["p"]):
                return False
        t = blk["term"]
        if t["k"] == "call" and "f" in t:
            cal = Callee(t["f"])
            if cal.local:
                tgt = f.facts.fns.get(cal.path)
                if tgt is None or ("html::Tokenizer", "raw") in transitive_writes(f.facts, [tgt]):
                    return False
    return True


def _state_dispatch_reads(g, bi, c, tests):
    """The call in block `bi` of g is the arm `V` of a state dispatch (`match state { E::V => handler() }`
    on a private enum E): the handler runs only after some function produced `E::V`.  Returns the number
    of construction sites of `E::V` when each of them has just read c bytes successfully (and g itself
    never moves raw.end), else 0."""
    hit = None
    for pe, names, other, sb in tests.disc_edges:
        adt = tests.disc_adt.get(sb)
        a = g.facts.adts.get(adt) if adt else None
        if a is None:
            continue
        for v, tb in names.items():
            if isinstance(v, str) and edge_dominates(g, tb, sb, bi):
                hit = (adt, v)
    if hit is None:
        return 0
    adt, variant = hit
    # g's own statements never change raw.end (its callees - the handlers - do, before they name the next state)
    for x in g.normal_blocks():
        for st in g.blocks[x]["st"]:
            if st["k"] == "A" and ("html::Tokenizer", "raw") in place_field_chain(st["p"]):
                return 0
    n = 0
    for h in g.facts.fn_list:
        if h.derived:
            continue
        sites = [(b2, si, st) for b2, si, st in h.assigns() if st["r"].get("k") == "agg" and st["r"].get("adt") == adt and st["r"].get("variant") == variant]
        if not sites:
            continue
        pvh = Prov(h, copies=True)
        th = Tests(h, pvh)
        for b2, si, st in sites:
            fake = Site(h, b2, "sub", [("field", ("field", ("param", 1), "raw", "html::Tokenizer"), "end", "html::Span"), ("const", c)], span_line(st["s"]), "Sub", h.blocks[b2]["term"], pvh)
            if not g8_unread(fake, th):
                return 0
            n += 1
    return n


def _callers_have_read(f, block, c, depth):
    if depth > 3 or not _no_raw_change_before(f, block):
        return False, 0
    if f.j.get("pub"):
        return False, 0
    cg = f.facts.callgraph()
    callers = [f.facts.fns[p] for p in cg.redges.get(f.path, ())]
    if not callers:
        return False, 0
    total = 0
    for g in callers:
        pv = Prov(g, copies=True)
        tests = Tests(g, pv)
        for bi, t, cal in g.calls():
            if cal is None or not cal.local or g.facts.fns.get(cal.path) is not f:
                continue
            total += 1
            fake = Site(g, bi, "sub", [("field", ("field", ("param", 1), "raw", "html::Tokenizer"), "end", "html::Span"), ("const", c)], span_line(t["s"]), "Sub", t, pv)
            if g8_unread(fake, tests):
                continue
            sd = _state_dispatch_reads(g, bi, c, tests)
            if sd:
                total += sd
                continue
            ok, n = _callers_have_read(g, bi, c, depth + 1)
            if not ok:
                return False, total
            total += n
    return True, total


def _is_enumerate_index(fn, e):
    """e is the index component of an item of `.enumerate()`: either directly in a loop, or the `.0`
    of the argument of a closure that is passed to an iterator method of an `Enumerate<..>`."""
    if _enumerate_index_of(e) is not None:
        return True
    if fn.is_closure and e[0] == "field" and e[2] == "0" and e[1] == ("param", 2):
        parent = fn.facts.fns.get(fn.parent)
        if parent is not None:
            for bi, t, cal in parent.calls():
                if cal and not cal.local and cal.def_trait == "std::iter::Iterator" and (cal.adt or "") == "std::iter::Enumerate":
                    for tix in cal.substs:
                        ty = fn.facts.types[tix]
                        if ty.get("k") == "closure" and ty.get("def") == fn.path:
                            return True
    return False


def g5c_index_sum(site, tests):
    """usize + induction variable of 0..len (sum of two in-memory sizes cannot overflow)"""
    if site.kind != "add" or site_int_type(site) != "usize":
        return None
    a, b = site.ops
    if _range_item(b) is not None or _range_item(a) is not None:
        return "G5: usize base plus an induction variable bounded by a length"
    if _is_enumerate_index(site.fn, a) or _is_enumerate_index(site.fn, b):
        return "G5: usize base plus an enumerate() index bounded by a length"
    if _const_int(b) is not None and 0 <= _const_int(b) <= 4096:
        return "G5: small constant added to a usize"
    return None


def g13b_literal_byte(site, tests):
    if site.kind != "add" or site_int_type(site) != "u8":
        return None
    a, b = site.ops
    k = _const_int(b)
    if k is None:
        return None
    if a[0] == "index" and a[1][0] == "const" and isinstance(a[1][1], str):
        if max(a[1][1].encode()) + k <= 255:
            return "G13: byte of the literal %r plus %d stays within u8" % (a[1][1], k)
    return None


GUARDS["add"] = GUARDS["add"] + (g5c_index_sum, g13b_literal_byte)
GUARDS["sub"] = GUARDS["sub"] + (g8b_unread_in_callers,)


# ---------------------------------------------------------------------------------------
# third batch of guard classes
# ---------------------------------------------------------------------------------------
def g1b_err_after_is_err(site, tests):
    """x.err().unwrap() after x.is_err() / x.ok().unwrap() after x.is_ok()"""
    f = site.fn
    R = site.ops[0]
    if R[0] != "call" or R[1] not in ("std::result::Result::err", "std::result::Result::ok"):
        return None
    X = R[2][0]
    want = "is_err" if R[1].endswith("::err") else "is_ok"
    other = "is_ok" if want == "is_err" else "is_err"

    def pred(atom, outcome):
        if atom[0] != "call" or not atom[2] or atom[2][0] != X:
            return False
        n = atom[1].rsplit("::", 1)[1]
        return (n == want and outcome is True) or (n == other and outcome is False)
    for tb, sb in tests.blocks_where(pred):
        if edge_dominates(f, tb, sb, site.block):
            return "G1: %s() of a result tested with %s()" % (R[1].rsplit("::", 1)[1], want)
    return None


def g14_insert_front(site, tests):
    if site.kind == "vec_insert" and len(site.ops) >= 2 and site.ops[1] == ("const", 0):
        return "G14: insertion at index 0 is valid for every length"
    return None


def _range_parts(e):
    if e[0] == "agg" and e[1] and e[1].startswith("std::ops::Range"):
        return e[1].rsplit("::", 1)[1], dict(e[3])
    return None, None


def g14b_trivial_range(site, tests):
    if site.kind != "index" or len(site.ops) < 2:
        return None
    kind, d = _range_parts(site.ops[1])
    if kind == "RangeTo" and d.get("end") == ("const", 0):
        return "G14: the range ..0 is valid for every length"
    if kind == "RangeFull":
        return "G14: full range"
    return None


def g15_index_lt_len(site, tests):
    """x[i] dominated by `i < x.len()`"""
    if site.kind != "index" or len(site.ops) < 2 or site.what == "bounds":
        return None
    f = site.fn
    X, I = site.ops[0], site.ops[1]

    def pred(atom, outcome):
        if atom[0] != "bin":
            return False
        op, l, r_ = atom[1], atom[2], atom[3]
        if l == I and _len_of(r_) == X:
            return (op == "Lt" and outcome is True) or (op == "Ge" and outcome is False)
        if r_ == I and _len_of(l) == X:
            return (op == "Gt" and outcome is True) or (op == "Le" and outcome is False)
        return False
    for tb, sb in tests.blocks_where(pred):
        if edge_dominates(f, tb, sb, site.block):
            why = _written_between(f, tb, site.block, I) or _written_between(f, tb, site.block, X)
            if why is None:
                return "G15: dominated by `index < len()` of the same collection"
    return None


def g16_tail_after_first(site, tests):
    """x[1..] after x.first() was Some"""
    if site.kind != "index" or len(site.ops) < 2:
        return None
    f = site.fn
    kind, d = _range_parts(site.ops[1])
    if kind != "RangeFrom" or d.get("start") != ("const", 1):
        return None
    X = site.ops[0]
    for tb, sb in tests.disc_blocks(lambda pe: pe[0] == "call" and pe[1].rsplit("::", 1)[1] == "first" and pe[2][0] == X, "Some"):
        if edge_dominates(f, tb, sb, site.block):
            return "G16: [1..] of a slice whose first() is Some"
    return None


def _enumerate_index_of(e):
    """X when e is the index component of an item of `X.iter().enumerate()` (so e < X.len())."""
    if e[0] == "field" and e[2] == "0" and e[1][0] == "field" and e[1][2] == "0" and e[1][1][0] == "variant" and e[1][1][2] == "Some":
        nx = e[1][1][1]
        if nx[0] == "call" and nx[1] == "<std::iter::Enumerate as std::iter::Iterator>::next":
            en = nx[2][0]
            if en[0] == "call" and en[1].endswith("Iterator>::enumerate"):
                src = en[2][0]
                while src[0] == "call" and src[1].rsplit("::", 1)[1] in ("iter", "iter_mut", "deref", "as_slice", "as_ref") and src[2]:
                    src = src[2][0]
                return src
    return None


def g3b_remove_found_index(site, tests):
    """v.remove(k) where k is Some(i) recorded from `for i in 0..v.len()` and v is untouched since"""
    if site.kind != "vec_remove" or len(site.ops) < 2:
        return None
    f = site.fn
    V, I = site.ops
    if not (I[0] == "field" and I[1][0] == "variant" and I[1][2] == "Some"):
        return None
    parts = phi_parts(I[1][1])
    ok = False
    for p in parts:
        if p[0] == "agg" and p[2] == "None":
            continue
        if p[0] == "agg" and p[2] == "Some":
            ri = _range_item(dict(p[3]).get("0", ()))
            if ri and ri[0] == ("const", 0) and _len_of(ri[1]) == V:
                ok = True
                continue
            if _enumerate_index_of(dict(p[3]).get("0", ())) == V:
                ok = True
                continue
        return None
    if not ok:
        return None
    # no mutation of V anywhere before the removal
    for bi, t, cal in f.calls():
        if cal and bi != site.block and cal.name in ("push", "remove", "insert", "clear", "pop", "truncate", "retain", "swap_remove", "drain", "extend") and site.pv.operand(t["args"][0]) == V and f.can_reach(bi, site.block):
            return None
    return "G3: removes at an index recorded from 0..len() of the same, unmodified vector"


def g5d_size_sum(site, tests):
    if site.kind != "add" or site_int_type(site) != "usize":
        return None

    def sizey(e):
        return all(p[0] == "const" or (p[0] == "call" and p[1].rsplit("::", 1)[1] in ("len", "cached_len", "count")) or (p[0] == "field" and p[2] == "0" and p[1][0] == "bin") for p in phi_parts(e))
    if sizey(site.ops[0]) and sizey(site.ops[1]):
        return "G5: sum of collection sizes"
    return None


def g17_straight_line_counter(site, tests):
    """u8/u16 `+= 1` in a loop-free function: bounded by the number of increment sites"""
    if site.kind != "add" or site.ops[1] != ("const", 1) or site_int_type(site) not in ("u8", "u16", "u32"):
        return None
    f = site.fn
    if f.back_edges():
        return None
    parts = phi_parts(site.ops[0])
    if all(p == ("const", 0) or (p[0] == "field" and p[1][0] == "bin" and p[1][1].startswith("Add")) for p in parts):
        return "G17: counter from 0 incremented in a loop-free function"
    return None


def g13c_wide_signed(site, tests):
    """i64 arithmetic on a small constant and a value cast from a <= 32-bit field"""
    if site.kind not in ("add", "sub") or site_int_type(site) != "i64":
        return None
    F = site.fn.facts

    def small(e):
        if _const_int(e) is not None and abs(_const_int(e)) <= 2 ** 32:
            return True
        if e[0] == "cast" and e[1][0] == "field" and e[1][3]:
            for n, ty in F.adt_fields(e[1][3]):
                if n == e[1][2] and ty["s"] in ("u8", "u16", "u32", "i8", "i16", "i32"):
                    return True
        return False
    if small(site.ops[0]) and small(site.ops[1]):
        return "G13: i64 arithmetic on values of at most 32 bits"
    return None


GUARDS["unwrap"] = GUARDS["unwrap"] + (g1b_err_after_is_err,)
GUARDS["vec_insert"] = (g14_insert_front,)
GUARDS["vec_remove"] = (g3b_remove_found_index,)
GUARDS["index"] = GUARDS["index"] + (g14b_trivial_range, g15_index_lt_len, g16_tail_after_first)
GUARDS["add"] = GUARDS["add"] + (g5d_size_sum, g17_straight_line_counter, g13c_wide_signed)
GUARDS["sub"] = GUARDS["sub"] + (g13c_wide_signed,)


# ---------------------------------------------------------------------------------------
# G6: invariants decided by their own rules
# ---------------------------------------------------------------------------------------
VISITORS = ("filter::html_body_action::body_append::BodyAppend", "filter::html_body_action::body_prepend::BodyPrepend", "filter::html_body_action::body_replace::BodyReplace")


def position_invariant(F, adt):
    """R07.5: 0 <= position < element_tree.len() is an invariant of the visitor `adt`.
    Returns (ok, [problems])."""
    problems = []
    new = F.method(adt, "new")
    # initialised to 0
    init_ok = False
    for p in Sym(new).paths():
        if p.end[0] == "ret" and p.end[1][0] == "agg":
            init_ok = dict(p.end[1][3]).get("position") == ("const", 0)
    if not init_ok:
        problems.append("position is not initialised to 0")
    # the only caller of `new` inside the crate is HtmlBodyVisitor::new, after rejecting an empty tree
    cg = F.callgraph()
    callers = {F.fns[p].key for p in cg.redges.get(new.path, ())}
    if callers != {"filter::html_body_action::HtmlBodyVisitor::new"}:
        problems.append("constructor called from %s" % sorted(callers))
    hv = F.fn("filter::html_body_action::HtmlBodyVisitor::new")
    pv = Prov(hv, copies=True)
    tests = Tests(hv, pv)
    nonempty = tests.blocks_where(lambda atom, out: atom[0] == "call" and atom[1] == "std::vec::Vec::is_empty" and mentions_field(atom[2][0], "element_tree") and out is False)
    for bi, t, cal in hv.calls():
        if cal and cal.local and cal.name == "new" and cal.adt == adt:
            if not any(edge_dominates(hv, tb, sb, bi) for tb, sb in nonempty):
                problems.append("HtmlBodyVisitor::new builds the visitor without rejecting an empty element_tree")
            if not mentions_field(pv.operand(t["args"][0]), "element_tree"):
                problems.append("constructor does not receive filter.element_tree")
    # writers of position / element_tree
    for f in F.methods_of(adt):
        if f.name == "new":
            continue
        e = effects(f)
        if (adt, "element_tree") in e.writes or (adt, "element_tree") in e.mut_escapes_local:
            problems.append("%s writes element_tree" % f.name)
        if (adt, "position") not in e.writes:
            continue
        pvf = Prov(f, copies=True)
        tf = Tests(f, pvf)
        pos = ("field", ("param", 1), "position", adt)
        for bi, si, st in f.assigns():
            if (adt, "position") not in place_field_chain(st["p"]):
                continue
            val = pvf.rvalue(st["r"])
            if mentions(val, lambda x: x[0] == "bin" and x[1].startswith("Add") and x[2] == pos and x[3] == ("const", 1)):
                # needs: position + 1 < element_tree.len()
                def pred(atom, out):
                    return atom[0] == "bin" and atom[1] == "Lt" and mentions(atom[2], lambda x: x[0] == "bin" and x[1].startswith("Add") and x[2] == pos and x[3] == ("const", 1)) and _len_of(atom[3]) == ("field", ("param", 1), "element_tree", adt) and out is True
                if not any(edge_dominates(f, tb, sb, bi) for tb, sb in tf.blocks_where(pred)):
                    problems.append("%s increments position without `position + 1 < element_tree.len()`" % f.name)
            elif mentions(val, lambda x: x[0] == "bin" and x[1].startswith("Sub") and x[2] == pos and x[3] == ("const", 1)):
                def pred2(atom, out):
                    return atom[0] == "bin" and atom[1] == "Gt" and atom[2] in (pos, ("cast", pos)) and atom[3] == ("const", 0) and out is True
                if not any(edge_dominates(f, tb, sb, bi) for tb, sb in tf.blocks_where(pred2)):
                    problems.append("%s decrements position without `position > 0`" % f.name)
            else:
                problems.append("%s assigns position := %s" % (f.name, show(val, f)))
    return not problems, problems


def budget_invariant(F):
    """R12.4: Leaf::cache / Node::cache are entered only from Item::cache after `left == 0` returned."""
    problems = []
    item = F.method("regex_radix_tree::item::Item", "cache")
    pv = Prov(item, copies=True)
    tests = Tests(item, pv)
    nz = tests.blocks_where(lambda atom, out: atom[0] == "bin" and atom[1] == "Eq" and atom[2] == ("param", 2) and atom[3] == ("const", 0) and out is False)
    cg = F.callgraph()
    for adt in ("regex_radix_tree::leaf::Leaf", "regex_radix_tree::node::Node"):
        m = F.method(adt, "cache")
        callers = {F.fns[p].key for p in cg.redges.get(m.path, ())}
        if callers != {"regex_radix_tree::item::Item::cache"}:
            problems.append("%s::cache is called from %s" % (adt.rsplit("::", 1)[1], sorted(callers)))
        for bi, t, cal in item.calls():
            if cal and cal.local and cal.adt == adt and cal.name == "cache":
                if not any(edge_dominates(item, tb, sb, bi) for tb, sb in nz):
                    problems.append("Item::cache calls %s::cache without the `left == 0` early return" % adt.rsplit("::", 1)[1])
                if pv.operand(t["args"][1]) != ("param", 2):
                    problems.append("Item::cache passes %s as budget" % show(pv.operand(t["args"][1]), item))
    # in Node::cache the decrement precedes the loop that reassigns `left`
    node = F.method("regex_radix_tree::node::Node", "cache")
    loops = for_loops(node)
    subs = [bi for bi in node.normal_blocks() if node.blocks[bi]["term"]["k"] == "assert" and node.blocks[bi]["term"]["kind"] == "overflow:Sub"]
    for sb in subs:
        if not all(node.dominates(sb, lp.next_block) or not node.can_reach(lp.next_block, sb) for lp in loops):
            problems.append("Node::cache decrements the budget after it was reassigned by a child")
        if any(node.can_reach(lp.next_block, sb) for lp in loops):
            problems.append("Node::cache decrements the budget inside / after the child loop")
    return not problems, problems


# reviewed exceptions: (function key, kind, substring of the operand signature) -> reason
EXCEPTIONS = [
    ("html::Tokenizer::read_raw_end_tag", "sub", "Sub(self.raw_tag[", "raw_tag holds one of the lowercase ASCII element names of the raw-text table (set only from literals / to_lowercase of a matched literal), so `b - 32` stays within u8"),
    ("html::Tokenizer::read_raw_end_tag", "sub", "Sub(self.raw.end, (3 AddWithOverflow String::len(self.raw_tag))", "every caller has read `</` and this function has read raw_tag.len() + 1 bytes of the current token before un-reading them"),
    ("html::Tokenizer::read_comment", "sub", "Sub(self.raw.end, phi(0 | 2 |", "entered after `<!--` was read (4 bytes of this token); dash_count is clamped to 2"),
    ("html::Tokenizer::read_comment", "sub", "Sub(self.raw.end, str::len('-->'))", "entered after `<!--` was read: at least 5 bytes of this token precede the `>`"),
    ("html::Tokenizer::read_comment", "sub", "Sub(self.raw.end, str::len('--!>'))", "entered after `<!--` was read: at least 6 bytes of this token precede the `>`"),
    ("html::Tokenizer::read_cdata", "sub", "Sub(self.raw.end, str::len(']]>'))", "the `[CDATA[` loop of the same function has read 7 bytes of this token"),
    # struct invariants of the tokenizer spans (data.start <= data.end <= raw.end <= reader.len(), R16.1 / R16.2): any method may rely on them
    ("html::Tokenizer::*", "sub", "Sub(self.data.end, self.data.start)", "span invariant data.start <= data.end (read_tag_name sets start then only moves end forward)"),
    ("html::Tokenizer::*", "index", "index(self.reader, Range::Range{start: self.data.start, end: self.data.end})", "span invariant data.start <= data.end <= reader.len() (R16.2)"),
    ("html::Tokenizer::*", "index", "index(self.reader, Range::Range{start: self.raw.start, end: self.raw.end})", "span invariant raw.start <= raw.end <= reader.len() (R16.1 / R16.2)"),
    ("html::Tokenizer::start_tag_in", "sub", "Sub(self.data.end, self.data.start)", "span invariant data.start <= data.end (read_tag_name sets start then only moves end forward)"),
    ("html::Tokenizer::start_tag_in", "index", "index(self.reader, (self.data.start AddWithOverflow", "i < s.len() == data.end - data.start (tested just before) and data.end <= reader.len() (span invariant, R16.2)"),
    ("html::Tokenizer::read_start_tag", "index", "index(self.reader, self.data.start)", "no error after read_tag: the tag name span is non-empty and inside the buffer (R16.2)"),
    ("html::Tokenizer::read_start_tag", "index", "index(self.reader, Range::Range{start: self.data.start, end: self.data.end})", "span invariant data.start <= data.end <= reader.len() (R16.2)"),
    ("html::Tokenizer::read_start_tag", "sub", "Sub(self.raw.end, 2)", "a start tag token spans at least `<a` : raw.end >= 2"),
    ("html::Tokenizer::read_start_tag", "index", "index(self.reader, (self.raw.end SubWithOverflow 2).0)", "raw.end <= reader.len() (R16.2) and raw.end >= 2"),
    ("html::Tokenizer::buffered", "index", "RangeFrom{start: self.raw.end}", "raw.end <= reader.len() (R16.2 bounded writes)"),
    ("html::Tokenizer::raw", "index", "Range{start: self.raw.start, end: self.raw.end}", "raw.start <= raw.end <= reader.len() (R16.1 / R16.2)"),
    ("html::Tokenizer::text", "index", "Range{start: self.data.start, end: self.data.end}", "span invariant data.start <= data.end <= raw.end (R16.2)"),
    ("html::Tokenizer::tag_name", "index", "Range{start: self.data.start, end: self.data.end}", "guarded by data.start < data.end; data.end <= reader.len() (R16.2)"),
    ("html::Tokenizer::tag_attr", "index", "index(self.reader, Range::Range{start: Index>::index(self.attribute", "attribute spans are recorded from raw.end values of the same buffer with start <= end (R16.2)"),
    ("html::Token::tag_string", "unwrap", "", "Token values are produced by Tokenizer::token(), which fills key/value of every attribute (API misuse, not input)"),
    ("<html::Token as std::fmt::Display>::fmt", "unwrap", "", "Token values are produced by Tokenizer::token(), which fills data for text/comment/doctype tokens (API misuse, not input)"),
    ("filter::html_filter_body::HtmlFilterBodyAction::filter", "unwrap", "Tokenizer::tag_name", "tokenizer invariant: a tag token carries a non-empty name span and tag_name() is consumed once per token"),
    ("filter::html_body_action::body_append::append_child", "unwrap", "Tokenizer::tag_name", "tokenizer invariant: a start tag token carries a non-empty name span"),
    ("filter::html_body_action::body_prepend::prepend_child", "unwrap", "Tokenizer::tag_name", "tokenizer invariant: a start tag token carries a non-empty name span"),
    ("api::explain_request::ExplainRequestOutput::create_result", "unwrap", "str::from_utf8", "the probe body is an ASCII literal and every inserted value is a Rust String: the filtered bytes are valid UTF-8"),
    ("api::impact::ImpactOutput::compute_impacts", "unwrap", "str::from_utf8", "the probe body is an ASCII literal and every inserted value is a Rust String: the filtered bytes are valid UTF-8"),
    ("callback_log::redirectionio_log_init_stderr", "unwrap", "", "depends on logger-initialisation history (documented: call once), not on input"),
    ("callback_log::redirectionio_log_init_with_callback", "unwrap", "", "runs once under Once; depends on logger-initialisation history, not on input"),
    ("router::Router::cache", "sub", "cast(Route::compile(", "i64 budget: executed only while prev_cache_limit > 0, subtrahend is a u8 cast"),
]


def find_exception(site):
    for fk, kind, sub, reason in EXCEPTIONS:
        if (site.owner.key == fk or (fk.endswith("*") and site.owner.key.startswith(fk[:-1]))) and site.kind == kind and sub in site.sig:
            return reason
    return None


# ---------------------------------------------------------------------------------------
# R07.2 recursion audit
# ---------------------------------------------------------------------------------------
SCC_TABLE = [
    # (member that identifies the SCC, max size, depth bound / reason)
    ("DOT", 16, "graphviz dump of the optional `dot` debugging feature: recursion over the 7 matcher layers and the regex tree depth (dyn/generic DotBuilder::graph expanded to every impl)"),
    ("regex_radix_tree::item::Item::", 2, "recursion over the radix tree: depth <= tree depth <= length of the longest stored pattern"),
    ("<regex_radix_tree::item::Item as std::clone::Clone>::clone", 2, "recursion over the radix tree depth"),
    ("<regex_radix_tree::iter::ItemIter as std::iter::Iterator>::next", 1, "skips to the next stored value: depth <= tree depth (empty children are pruned by remove/retain)"),
    ("<regex_radix_tree::iter::ItemIterMut as std::iter::Iterator>::next", 1, "skips to the next stored value: depth <= tree depth"),
    ("router::request_matcher::path_and_query::tree_trace_to_trace", 1, "recursion over the regex-tree trace: depth <= tree depth"),
    ("router::request_matcher::host::tree_trace_to_trace", 1, "recursion over the regex-tree trace: depth <= tree depth"),
    ("router::trace::Trace::get_routes_from_traces", 1, "recursion over the trace tree: 7 matcher layers plus the regex-tree depth"),
    ("<router::route::Route as std::cmp::Ord>::cmp", 1, "call-graph artefact: T::cmp of the generic handler is expanded to every local Ord impl; the handler type is Rule, never Route"),
    ("<router::route::Route as std::cmp::PartialEq>::eq", 1, "call-graph artefact of the generic handler comparison (handler type is Rule)"),
    ("<router::route::Route as std::cmp::PartialOrd>::partial_cmp", 1, "call-graph artefact of the generic handler comparison (handler type is Rule)"),
    ("<api::marker::Marker as marker::transformer::Transform>::transform", 1, "call-graph artefact: dyn Transform is expanded to every local impl; Transformer::to_transform never yields an api::Marker"),
]


def owner_fn(F, f):
    """The named function a closure (transitively) belongs to; f itself otherwise."""
    seen = 0
    while f.is_closure and f.parent in F.fns and seen < 8:
        f = F.fns[f.parent]
        seen += 1
    return f


def structural_recursion(F, scc):
    """True (with a description) when every call between members of the SCC passes, in some argument
    position, a strict sub-structure (a field, element or child reached through a field) of a
    parameter of the calling function in the same position: the recursion descends an owned, acyclic
    in-memory structure and its depth is bounded by the depth of that structure.  Closures in the SCC
    make the argument flow invisible to this test (it then answers False)."""
    members = set(scc)
    if any(F.fns[p].is_closure for p in scc):
        return False, ""
    n_edges = 0
    for p in scc:
        f = F.fns[p]
        pv = Prov(f, copies=True)
        for bi, t, cal in f.calls():
            if cal is None or not cal.local:
                continue
            tgt = [q for q in members if F.fns[q].path == cal.path or F.fns[q].key == cal.key()]
            if not tgt:
                continue
            n_edges += 1
            ok = False
            for i, a in enumerate(t["args"]):
                e = pv.operand(a)
                par = ("param", i + 1)
                # the argument is reached from the caller's parameter at the same position through at
                # least one field projection (a strictly smaller part of it)
                if mentions(e, lambda x: x[0] == "field" and x[3] is not None and mentions(x[1], lambda y: y == par)):
                    ok = True
                    break
            if not ok:
                return False, ""
    return n_edges > 0, "%d recursive call(s), each descending into a field of the caller's own parameter" % n_edges


def r07_2(ctx):
    F = ctx.facts

    def body(r):
        cg = F.callgraph()
        nodes = [p for p, f in F.fns.items() if not f.derived]
        sccs = cg.sccs(nodes)
        for scc in sccs:
            # closures are part of the recursion of the function that defines them
            keys = sorted({owner_fn(F, F.fns[p]).key for p in scc})
            f0 = owner_fn(F, F.fns[sorted(scc)[0]])
            ident = keys[0]
            entry = None
            for pat, maxn, why in SCC_TABLE:
                if pat == "DOT":
                    if all("dot::DotBuilder" in k for k in keys) and len(keys) <= maxn:
                        entry = why
                        break
                    continue
                if any(k.startswith(pat) if pat.endswith("::") else k == pat for k in keys) and len(keys) <= maxn:
                    entry = why
                    break
            key = "recursion:%s%s" % (ident, "(+%d)" % (len(keys) - 1) if len(keys) > 1 else "")
            if entry:
                r.exception(key, entry)
                r.ob(key, True, f0.site, "reviewed recursion: " + entry)
                continue
            try:
                structural, how = structural_recursion(F, scc)
            except Exception:
                structural, how = False, ""
            if structural:
                r.ob(key, True, f0.site, "structural recursion over an owned in-memory structure: " + how)
            else:
                per_byte = all(k.startswith("html::Tokenizer::read_script_data") for k in keys)
                r.ob(key, False, f0.site,
                     "%d mutually recursive functions %s: %s" % (len(keys), keys[:3] + (["..."] if len(keys) > 3 else []),
                                                                  "one stack frame per input byte of a <script> body (stack overflow on large scripts)" if per_byte else "recursion without a reviewed depth bound"),
                     data={"members": keys})
        r.ob("recursion:sccs-found", len(sccs) >= 10, "", "%d recursive components in the call graph of %d bodies" % (len(sccs), len(nodes)))
    ctx.run_rule("R07.2", "recursion audit (every SCC has a reviewed depth bound)", body, floor=10)


# ---------------------------------------------------------------------------------------
# R07.1 / R07.5
# ---------------------------------------------------------------------------------------
def r07_5(ctx):
    F = ctx.facts
    verdicts = {}

    def body(r):
        for adt in VISITORS:
            ok, problems = position_invariant(F, adt)
            verdicts[adt] = ok
            r.ob("invariant:position:%s" % adt.rsplit("::", 1)[1], ok, F.method(adt, "new").site,
                 "0 <= position < element_tree.len(): initialised to 0, +1 only under `position + 1 < len`, -1 only under `position > 0`, tree non-empty and immutable" if ok else "; ".join(problems))
        ok, problems = budget_invariant(F)
        verdicts["budget"] = ok
        r.ob("invariant:cache-budget", ok, F.method("regex_radix_tree::item::Item", "cache").site,
             "Leaf::cache / Node::cache run only with a non-zero budget (who-may-call + dominance)" if ok else "; ".join(problems))
        from . import layers as LY
        from .c02 import count_verdicts
        try:
            layers = LY.discover(F)
            for L, f, extra, missing, n in count_verdicts(layers):
                verdicts[("count", L.adt)] = not extra
                r.ob("invariant:layer-count:%s" % L.short, not extra, f.site,
                     "count is decremented only after a successful removal (count >= live routes >= 1 there)" if not extra else "; ".join(extra))
        except MissingAnchor as e:
            r.missing(str(e))
    ctx.run_rule("R07.5", "bounded-write invariants used by the panic audit", body, floor=11)
    return verdicts


def r07_1(ctx, verdicts, rid="R07.1", only=None, floor=150):
    F = ctx.facts

    def g6(site):
        f = site.fn
        if site.kind == "index" and f.adt in VISITORS and len(site.ops) >= 2 and site.ops[0] == ("field", ("param", 1), "element_tree", f.adt):
            if site.ops[1] in (("field", ("param", 1), "position", f.adt), ("const", 0)) and verdicts.get(f.adt):
                return "G6: 0 <= position < element_tree.len() (R07.5)"
        if site.kind == "sub" and f.key in ("regex_radix_tree::leaf::Leaf::cache", "regex_radix_tree::node::Node::cache") and site.ops[1] == ("const", 1) and verdicts.get("budget"):
            return "G6: the cache budget is non-zero on entry (R07.5 / R12.4)"
        if site.kind == "sub" and site.ops == [("field", ("param", 1), "count", f.adt), ("const", 1)] and verdicts.get(("count", f.adt)) and f.name == "remove":
            return "G6: layer count decremented only after a successful removal (R07.5 / R02.5)"
        return None

    def body(r):
        sites = panic_sites(F)
        if only is not None:
            sites = [s for s in sites if only(s)]
        cache = {}
        seen = {}
        classes = {}
        for s in sites:
            r.analysed(s.fn)
            k = s.key
            seen[k] = seen.get(k, 0) + 1
            if seen[k] > 1:
                k = "%s#%d" % (k, seen[k])
            try:
                why = discharge(s, cache) or g6(s)
            except Exception as e:  # a guard that cannot be evaluated does not discharge
                why = None
            if why is None:
                exc = find_exception(s)
                if exc:
                    r.exception(k, exc)
                    why = "exception: " + exc
            if why:
                classes[why.split(":")[0]] = classes.get(why.split(":")[0], 0) + 1
                r.ob(k, True, s.fn.loc(s.line), why)
            else:
                r.ob(k, False, s.fn.loc(s.line), "%s site `%s` is not dominated by a guard of a recognised class and is not a reviewed exception: it can panic" % (s.kind, s.sig[:160]))
        r.note("discharge classes: %s" % dict(sorted(classes.items())))
    ctx.run_rule(rid, "panic-site audit with guard discharge", body, floor=floor)


# ---------------------------------------------------------------------------------------
# R07.6 loops whose exit test reads local variables make progress on every iteration
# ---------------------------------------------------------------------------------------
PURE_TESTS = {"is_null", "is_empty", "len", "is_some", "is_none", "as_ref", "deref", "as_str", "clone", "lt", "le", "gt", "ge", "eq", "ne", "cmp", "partial_cmp",
              "is_ascii_alphabetic", "is_ascii_uppercase", "is_ascii_whitespace", "contains", "starts_with", "ends_with"}


def r07_6(ctx, rid="R07.6", only=None, floor=3):
    """A `while` / `loop` whose exit test is a pure expression over local variables (`while !cur.is_null()`,
    `while left > 0`, `while let Some(link) = buffer`) can only terminate if every way round the loop
    assigns one of those variables (or hands it to a call that may).  Loops driven by a call
    (`while let Some(x) = it.next()`, the tokenizer's `read_byte`) are not this rule's business."""
    F = ctx.facts
    from riolib.sym import TooManyPaths

    def body(r):
        n = 0
        for f in F.fn_list:
            if f.derived or (only is not None and not only(f)) or not f.file.startswith("src/"):
                continue
            heads = sorted({h for a, h in f.back_edges()})
            if not heads:
                continue
            skip = set()
            for lp in for_loops(f):
                skip |= {lp.next_block, lp.head()}
            for h in heads:
                if h in skip:
                    continue
                region = f.loop_blocks(h)
                try:
                    ps = Sym(f, copies=True, max_paths=20000).paths(start=h, stops={h}, region=region)
                except TooManyPaths:
                    continue
                back = [p for p in ps if p.end == ("stop", h)]
                firsts = {p.conds[0][0] for p in ps if p.conds}
                if not back or len(firsts) != 1:
                    continue
                c = next(iter(firsts))
                if any(x[0] == "call" and x[1].rsplit("::", 1)[1] not in PURE_TESTS for x in walk(c)):
                    continue
                locs = {x for x in walk(c) if x[0] == "local"}
                if not locs:
                    continue
                n += 1
                r.analysed(f)
                stuck = 0
                for p in back:
                    touched = False
                    for e in p.events:
                        if e[0] in ("set", "init") and ("local", e[1]) in locs:
                            touched = True
                        elif e[0] in ("write", "lwrite") and any(x in locs for x in walk(e[1])):
                            touched = True
                        elif e[0] == "call" and any(a in locs for a in e[2]) and e[1].rsplit("::", 1)[1] not in PURE_TESTS:
                            touched = True
                    if not touched:
                        stuck += 1
                r.ob("progress:%s:loop-on-%s" % (f.key, "+".join(sorted(str(f.local_name(l[1]) or l[1]) for l in locs))), stuck == 0, f.site,
                     "exit test %s: %d of %d ways round the loop leave its variables untouched" % (show(c, f)[:80], stuck, len(back)))
        r.ob("progress:loops-found", n >= floor, "", "%d loops with a pure exit test over local variables" % n)
    ctx.run_rule(rid, "loops with a pure exit test over locals make progress on every iteration", body, floor=floor)


def r07_7(ctx):
    """Patterns come from rules: the regex crate's nest limit (default 250) is what turns a pathologically nested
    marker expression into a logged compile error instead of a stack overflow in the recursive compiler.  No
    builder may lift it."""
    F = ctx.facts

    def body(r):
        builders = 0
        for f in F.fn_list:
            if f.derived or not f.file.startswith("src/"):
                continue
            pv = None
            for bi, t, cal in f.calls():
                if cal is None or cal.local:
                    continue
                if cal.name == "new" and (cal.adt or "").endswith("RegexBuilder"):
                    builders += 1
                if cal.name == "nest_limit" and "Builder" in (cal.adt or ""):
                    pv = pv or Prov(f, copies=True)
                    lim = _const_int(pv.operand(t["args"][1])) if len(t["args"]) > 1 else None
                    r.ob("regex-limits:%s:nest_limit" % f.key, lim is not None and lim <= 250, f.loc(span_line(t["s"])),
                         "nest_limit(%s): nesting deeper than the default 250 reaches the recursive compiler with unbounded depth" % (lim if lim is not None else "non-constant"))
        r.ob("regex-limits:builders", builders >= 1, "", "%d RegexBuilder::new sites inspected" % builders)
    ctx.run_rule("R07.7", "the regex nest limit is not lifted", body, floor=1)


def run(ctx):
    verdicts = r07_5(ctx)
    r07_1(ctx, verdicts)
    r07_2(ctx)
    from .c18 import r18_2
    r18_2(ctx, rid="R07.3")
    r07_6(ctx)
    r07_7(ctx)
