"""C08 — the regex prefix tree answers like a linear scan (structural conditions; the
soundness of prefix splitting itself is NOT decided here, see DESIGN §3 C08)."""
from riolib.core import Callee, MissingAnchor, span_line
from riolib.prov import Prov, show, mentions, mentions_field, walk
from riolib.sym import Sym, for_loops
from riolib.effects import effects
from .c12 import r12_1

THOROUGH_CONFIGS = ['dot', 'router']


MANIFEST = {
    "text": "Static decision of the tree mechanisms other than prefix splitting: traversal completeness of find/len/get (node regex tested, then every child visited, results unioned, no early exit), content conservation of insert/remove/retain as a def-to-drop must-use analysis (a stored value or subtree can be dropped only when proven empty / replaced by id / removed), anchoring constants of leaf and node regexes, provenance of the case flag of every regex built inside the tree, agreement of the lazy and compiled match, and replace-by-(pattern,id). Prefix-splitting soundness (a character-level loop over regex syntax) and equality with a linear scan for all histories are not decided. Also: traversal functions found by role with both result forms (returned vector / accumulator), emptied items keep the case flag, each item kind holds its own kind of regex, Node::insert routes an equal pattern to the child holding it, prefix sizes compared in characters. Also (round 5): the scanner's character-class state — parentheses inside [...] are not group delimiters and the cut never lands inside a class (D24).",
    "technique": "static analysis: path-sensitive must-use (def-to-drop) analysis, decision tables and provenance over MIR",
}

ITEM = "regex_radix_tree::item::Item"
NODE = "regex_radix_tree::node::Node"
LEAF = "regex_radix_tree::leaf::Leaf"
TREE = "regex_radix_tree::tree::RegexTreeMap"
LAZY = "regex::LazyRegex"


def traversal_roles(F, op):
    """The functions that carry out tree operation `op`, found from the public entry point through the
    call graph (names below the entry point are free to change): the RegexTreeMap method, the Item
    dispatchers, the Node function looping over `self.children`, the Leaf function reading `self.values`."""
    tree = F.method(TREE, op)
    cg = F.callgraph()
    seen = {tree.path}
    todo = [tree]
    found = {ITEM: [], NODE: [], LEAF: []}
    while todo:
        f = todo.pop()
        for path in sorted(cg.edges.get(f.path, ())):
            g = F.fns.get(path)
            if g is None or path in seen or g.is_closure or g.adt not in found or g.trait:
                continue
            seen.add(path)
            found[g.adt].append(g)
            todo.append(g)
    nodes = [g for g in found[NODE] if any(lp.source == ("field", ("param", 1), "children", NODE) for lp in for_loops(g))]
    if not nodes:  # no plain loop: the function reading `self.children` some other way (reported by the rule)
        nodes = [g for g in found[NODE] if any(mentions_field(a, "children", NODE) for p in Sym(g, copies=True).paths() for e in p.events if e[0] == "call" for a in e[2])]
    leaves = [g for g in found[LEAF] if any(mentions_field(a, "values", LEAF) for p in Sym(g, copies=True).paths() for e in p.events if e[0] == "call" for a in e[2])]
    if len(nodes) != 1 or len(leaves) != 1 or not found[ITEM]:
        raise MissingAnchor("traversal functions of RegexTreeMap::%s: %d Node loops, %d Leaf readers, %d Item dispatchers" % (op, len(nodes), len(leaves), len(found[ITEM])))
    return tree, found[ITEM], nodes[0], leaves[0]


def _args_mention(e, what):
    return any(mentions(a, lambda x: x == what) for a in e[2])


def _acc_param(f):
    """Index of a `&mut Vec<..>` parameter (results appended to a caller-owned accumulator), or None."""
    for i in range(2, f.argc + 1):
        t = f.local_ty(i)
        if t.get("k") == "ref" and t.get("mut") and "std::vec::Vec" in t.get("adts", ()):
            return i
    return None


def r08_1(ctx, rid="R08.1"):
    F = ctx.facts

    def body(r):
        # Node::find / get / get_mut: own test, then all children, union, no early exit.  The result is
        # either returned (a vector built from the children's vectors) or appended to an accumulator
        # the caller passes down; the functions are found by role from RegexTreeMap::<op>.
        for name, test in (("find", LAZY + "::is_match"), ("get", "str::starts_with"), ("get_mut", "str::starts_with")):
            tree, items, f, leaf = traversal_roles(F, name)
            item_keys = {g.key for g in items}
            r.analysed(f)
            accp = _acc_param(f)
            s = Sym(f, copies=True)
            loops = [lp for lp in for_loops(f) if lp.source == ("field", ("param", 1), "children", NODE)]
            r.ob("traversal:Node::%s:loop-over-children" % name, len(loops) == 1, f.site, "%d loops over self.children" % len(loops))
            if len(loops) != 1:
                continue
            lp = loops[0]
            # reached exactly when the node's own test is true
            gate = set()
            for p in s.paths(start=0, stops={lp.next_block}):
                if p.end[0] == "stop":
                    gate.add(tuple((a[1], v) for a, v in p.conds if a[0] == "call"))
            r.ob("traversal:Node::%s:gated-by-own-regex" % name, gate == {((test, 1),)}, f.site, "children are visited iff %s is true: %s" % (test.rsplit("::", 1)[1], sorted(gate)))
            # every iteration calls the child and adds its whole result to the accumulator; no path leaves
            # the loop early.  The result is added with `extend(acc, result)`, by a nested loop over the
            # result that pushes every element (what `flat_map(..).collect()` is), or by the child itself
            # when the accumulator is handed down.
            ok = True
            n = 0
            acc = None
            inner = [lp2 for lp2 in for_loops(f) if lp2 is not lp and lp2.next_block in lp.blocks() and mentions(lp2.source, lambda x: x[0] == "call" and x[1] in item_keys)]
            inner_ok = False
            if len(inner) == 1:
                its = [p for p in inner[0].iteration_paths(s)]
                pushes = [e for p in its for e in p.events if e[0] == "call" and e[1] == "std::vec::Vec::push" and mentions(e[2][1], lambda x: x[0] == "call" and x[1].endswith("Iterator>::next"))]
                inner_ok = len(its) == 1 and len(pushes) == 1 and its[0].end[0] == "stop" and its[0].end[1] in (inner[0].next_block, inner[0].head())
                if inner_ok:
                    acc = pushes[0][2][0]
            inner_heads = {inner[0].next_block, inner[0].head()} if inner else set()
            for p in lp.iteration_paths(s):
                called = [e for e in p.events if e[0] == "call" and e[1] in item_keys]
                ext = [e for e in p.events if e[0] == "call" and e[1].endswith("Extend>::extend") and called and e[2][1] == called[0][3]]
                if ext:
                    acc = ext[0][2][0]
                handed = accp is not None and len(called) == 1 and ("param", accp) in called[0][2]
                if handed:
                    acc = ("param", accp)
                back = p.end[0] == "stop" and p.end[1] in (lp.next_block, lp.head())
                if inner_ok and (p.end[0] == "loop" or (p.end[0] == "stop" and p.end[1] in inner_heads)):
                    continue  # the part of the iteration inside the nested loop is judged above
                n += 1
                if not (called and (ext or inner_ok or handed) and back):
                    ok = False
            r.ob("traversal:Node::%s:every-child-unioned" % name, ok and n == 1, f.site, "each iteration calls the Item dispatcher on the child, adds the whole result and continues (%d iteration paths)" % n)
            if accp is None:
                # the result returned is the accumulated vector
                rets = {p.end[1] for p in s.paths(start=lp.exit) if p.end[0] == "ret"}
                r.ob("traversal:Node::%s:returns-union" % name, acc is not None and rets == {acc}, f.site, "returns %s" % [show(x, f) for x in rets])
            else:
                # the accumulator handed in is only handed on to the children
                others = sorted({e[1] for p in s.paths() for e in p.events if e[0] == "call" and e[1] not in item_keys and _args_mention(e, ("param", accp))} | {"write" for p in s.paths() for e in p.events if e[0] == "write" and mentions(e[1], lambda x: x == ("param", accp))})
                r.ob("traversal:Node::%s:returns-union" % name, acc == ("param", accp) and not others, f.site, "the accumulator parameter is only handed to the children: other uses %s" % others)
                # ... and above the dispatchers the vector handed down is created empty and returned: by the
                # public entry point or by a dispatcher wrapper it calls
                okt = True
                makers = 0
                for g in [tree] + [i for i in items if _acc_param(i) is None]:
                    for p in Sym(g, copies=True).paths():
                        if p.end[0] != "ret":
                            continue
                        calls = [e for e in p.events if e[0] == "call" and e[1] in item_keys]
                        loc = p.end[1]
                        if len(calls) == 1 and loc == calls[0][3]:
                            continue  # returns what the dispatcher returns
                        inits = [e for e in p.events if e[0] in ("init", "set") and ("local", e[1]) == loc]
                        used = [e[1] for e in p.events if e[0] == "call" and e[1] not in item_keys and _args_mention(e, loc)]
                        makers += 1
                        okt = okt and len(calls) == 1 and loc in calls[0][2] and len(inits) == 1 and inits[0][3] == ("call", "std::vec::Vec::new", ()) and not used
                r.ob("traversal:RegexTreeMap::%s:returns-the-accumulator" % name, okt and makers >= 1, tree.site, "an empty vector is created, handed to the root and returned (%d such paths)" % makers)
        # Leaf::find returns (or appends) all values iff its regex matches
        tree, items, node, f = traversal_roles(F, "find")
        r.analysed(f)
        accp = _acc_param(f)
        rows = {}
        for p in Sym(f, copies=True).paths():
            if p.end[0] == "ret":
                m = [v for a, v in p.conds if a[0] == "call" and a[1] == LAZY + "::is_match"]
                rows[m[0] if m else None] = _leaf_result(p, accp)
        ok = set(rows) == {0, 1} and rows[0] == "nothing" and rows[1] == ("all", ("field", ("param", 1), "values", LEAF))
        r.ob("traversal:Leaf::find", ok, f.site, "match -> all values; no match -> nothing: %s" % rows)
        # Leaf::get / get_mut compare the whole pattern
        for name in ("get", "get_mut"):
            tree, items, node, g = traversal_roles(F, name)
            accp = _acc_param(g)
            rows = {}
            for p in Sym(g, copies=True).paths():
                if p.end[0] == "ret":
                    for a, v in p.conds:
                        if a[0] == "call" and "PartialEq" in a[1]:
                            rows[v] = (a, _leaf_result(p, accp))
            okg = 1 in rows and {rows[1][0][2][0], rows[1][0][2][1]} == {("param", 2), ("field", ("field", ("param", 1), "regex", LEAF), "original", LAZY)} and rows.get(0, (None, None))[1] == "nothing" and rows[1][1] == ("all", ("field", ("param", 1), "values", LEAF))
            r.ob("traversal:Leaf::%s" % name, okg, g.site, "%s(pattern) compares the whole original pattern and yields every value: %s" % (name, {k: v[1] for k, v in rows.items()}))
        # len: Node sums all children, Leaf counts its values, tree delegates
        n = F.method(NODE, "len")
        s = Sym(n, copies=True)
        lps = [lp for lp in for_loops(n) if lp.source == ("field", ("param", 1), "children", NODE)]
        okl = False
        if len(lps) == 1:
            its = list(lps[0].iteration_paths(s))
            okl = len(its) == 1 and any(e[0] == "call" and e[1] == ITEM + "::len" for e in its[0].events) and any(e[0] == "set" and mentions(e[3], lambda x: x[0] == "bin" and x[1].startswith("Add")) for e in its[0].events)
        r.ob("traversal:Node::len", okl, n.site, "len sums Item::len over every child")
        lf = F.method(LEAF, "len")
        rets = {p.end[1] for p in Sym(lf, copies=True).paths() if p.end[0] == "ret"}
        r.ob("traversal:Leaf::len", rets == {("call", "std::collections::HashMap::len", (("field", ("param", 1), "values", LEAF),))}, lf.site, "Leaf::len is values.len()")
        # Item dispatch: every operation forwards each variant to the same operation
        for name in ("find", "get", "get_mut", "len", "is_empty", "insert", "remove", "retain", "trace", "cache", "cached_len"):
            if name in ("find", "get", "get_mut"):
                tree, items, node, leaf = traversal_roles(F, name)
                targets = [(g, node.key, leaf.key) for g in items]
            else:
                g = F.method(ITEM, name, required=False)
                targets = [(g, NODE + "::" + name, LEAF + "::" + name)] if g is not None else []
            for f, nk, lk in targets:
                rows = {}
                for p in Sym(f, copies=True).paths():
                    var = [v for a, v in p.conds if a[0] == "disc" and a[1] == ("param", 1)]
                    calls = [e[1] for e in p.events if e[0] == "call" and e[1] in (nk, lk)]
                    if var:
                        rows.setdefault(var[0], set()).update(calls)
                if not rows and len(targets) > 1:
                    continue  # a wrapper around the dispatcher
                ok = (rows.get("Node") == {nk} or (name == "cache" and nk in rows.get("Node", ()))) and (rows.get("Leaf") == {lk} or (name == "cache" and rows.get("Leaf") <= {LEAF + "::cache"})) and not rows.get("Empty")
                r.ob("traversal:Item::%s:dispatch" % name, ok, f.site, "Item::%s forwards Node->%s, Leaf->%s, Empty->nothing: %s" % (f.name, nk.rsplit("::", 2)[-2] + "::" + nk.rsplit("::", 1)[1], lk.rsplit("::", 2)[-2] + "::" + lk.rsplit("::", 1)[1], {k: sorted(v) for k, v in rows.items()}))
    ctx.run_rule(rid, "traversal completeness of find / get / len", body, floor=21)


def _leaf_result(p, accp):
    """What a Leaf path yields: "nothing", ("all", <map>) for every value of a map, or a description."""
    def all_values(x):
        return [y[2][0] for y in walk(x) if y[0] == "call" and y[1] in ("std::collections::HashMap::values", "std::collections::HashMap::values_mut")]
    if accp is None:
        v = p.end[1]
        if v == ("call", "std::vec::Vec::new", ()):
            return "nothing"
        src = all_values(v)
        if v[0] == "call" and len(src) == 1:
            return ("all", src[0])
        return show(v)
    touched = [e for e in p.events if (e[0] == "call" and _args_mention(e, ("param", accp))) or (e[0] == "write" and mentions(e[1], lambda x: x == ("param", accp)))]
    if not touched:
        return "nothing"
    if len(touched) == 1 and touched[0][0] == "call" and touched[0][1].endswith("Extend>::extend") and touched[0][2][0] == ("param", accp):
        src = all_values(touched[0][2][1])
        if len(src) == 1 and touched[0][2][1][0] == "call" and touched[0][2][1][1].startswith("std::collections::HashMap::values"):
            return ("all", src[0])
    return "other: %s" % [e[1] for e in touched]


def _ty(f, place):
    l, projs = place
    s = f.local_ty(l)["s"]
    return s if not projs else "proj:" + s


def r08_2(ctx, rid="R08.2"):
    F = ctx.facts

    def body(r):
        n_drops = 0
        for adt in (NODE, LEAF, ITEM, TREE):
            for name in ("insert", "remove", "retain"):
                f = F.method(adt, name)
                r.analysed(f)
                s = Sym(f, copies=False)
                regions = [s.paths()] + [lp.iteration_paths(s) for lp in for_loops(f)]
                bad = set()
                for paths in regions:
                    for p in paths:
                        cm = {}
                        for a, v in p.conds:
                            cm[a] = v
                        for i, e in enumerate(p.events):
                            if e[0] != "drop":
                                continue
                            pl = f.blocks[e[2]]["term"]["p"]
                            ty = _ty(f, pl)
                            x = e[1]
                            if "Item<V>" not in ty and "Leaf<V>" not in ty and "Node<V>" not in ty and "<V>" not in ty and not ty.endswith(" V") and ty not in ("V",) and "RegexTreeMap<V>" not in ty:
                                continue
                            n_drops += 1
                            ok = False
                            why = ""
                            before = p.events[:i]
                            if ty.startswith("std::vec::IntoIter<"):
                                ok = any(a[0] == "disc" and a[1][0] == "call" and a[1][1].endswith("Iterator>::next") and v == "None" for a, v in p.conds)
                                why = "iterator over the children dropped before it was exhausted: the remaining subtrees are lost"
                            elif ty.startswith("std::vec::Vec<"):
                                len_x = ("call", "std::vec::Vec::len", (x,))
                                len_is = lambda k_: cm.get(len_x) == k_ or any(a[0] == "bin" and a[1] == "Eq" and a[2] == len_x and a[3] == ("const", k_) and v == 1 for a, v in p.conds)
                                ok = cm.get(("call", "std::vec::Vec::is_empty", (x,))) == 1 or len_is(0) or (len_is(1) and any(b[0] == "call" and b[1] == "std::vec::Vec::pop" and b[2][0] == x for b in before))
                                why = "vector of subtrees dropped while it may be non-empty"
                            elif ty.startswith("std::option::Option<"):
                                ok = (x[0] == "agg" and x[2] == "None") or cm.get(("call", "std::option::Option::is_some", (x,))) == 0 or (x[0] == "call" and x[1] == "std::collections::HashMap::insert") or cm.get(("disc", x, "std::option::Option")) == "None"
                                why = "a stored value (Option<V>) is dropped while it may be Some"
                            elif ty.startswith(ITEM) or ty == ITEM + "<V>":
                                ok = cm.get(("call", ITEM + "::is_empty", (x,))) == 1
                                why = "a subtree is dropped without having been found empty"
                            elif ty.startswith(LEAF):
                                ok = cm.get(("call", "std::collections::HashMap::is_empty", (("field", x, "values", LEAF),))) == 1 or cm.get(("call", "std::collections::HashMap::is_empty", (("field", ("param", 1), "values", LEAF),))) == 1
                                why = "a leaf is dropped while it may still hold values"
                            elif ty.startswith("proj:") and "RegexTreeMap" in ty:
                                # the root being overwritten must be the placeholder swapped in just before
                                ok = (any(b[0] == "call" and b[1] == "std::mem::swap" for b in before) and any(b[0] == "set" and b[3][0] == "agg" and b[3][1] == ITEM and b[3][2] == "Empty" for b in before)) \
                                    or any(b[0] == "call" and b[1] == "std::mem::replace" and len(b[2]) == 2 and b[2][1][0] == "agg" and b[2][1][1] == ITEM and b[2][1][2] == "Empty" for b in before) \
                                    or any(b[0] == "call" and b[1] == "std::mem::take" for b in before)
                                why = "the root is overwritten without having been swapped out"
                            elif ty.startswith("proj:") and ("Node<V>" in ty or "Leaf<V>" in ty):
                                # a field of self: only the regex handle may be dropped
                                # (or a container field whose content was taken out with mem::take / replace before)
                                taken = lambda fld: any(b[0] == "call" and b[1] in ("std::mem::take", "std::mem::replace") and b[2] and b[2][0][0] == "field" and b[2][0][2] == fld for b in before)
                                ok = x[0] == "field" and (x[2] == "regex" or taken(x[2]))
                                why = "a field of the node other than its regex is dropped"
                            elif ty.startswith(NODE) and any(b[0] == "call" and b[1] in ("std::mem::take", "std::mem::replace") and b[2] and b[2][0][0] == "field" and b[2][0][2] == "children" for b in before):
                                ok = True  # the node is dropped after its children were taken out of it: only the regex handle goes
                                why = ""
                            else:
                                why = "a value of type %s is dropped" % ty
                            if not ok:
                                bad.add("%s (dropped: %s : %s)" % (why, show(x, f), ty))
                r.ob("conservation:%s::%s" % (adt.rsplit("::", 1)[1], name), not bad, f.site,
                     "no stored value or subtree can be dropped except when proven empty / replaced by id / removed" if not bad else "; ".join(sorted(bad)[:3]))
        r.ob("conservation:drops-classified", n_drops >= 15, "", "%d drops of tree content classified on all paths" % n_drops)
        # the placeholder Empty(false) of RegexTreeMap::{insert,remove,retain} is always overwritten
        for name in ("insert", "remove", "retain"):
            f = F.method(TREE, name)
            r.analysed(f)
            ok = True
            for p in Sym(f, copies=False).paths():
                if p.end[0] != "ret":
                    continue
                sw = [i for i, e in enumerate(p.events) if e[0] == "call" and e[1] in ("std::mem::swap", "std::mem::replace", "std::mem::take")]
                # (the write of the placeholder itself - `mem::replace(&mut self.root, Empty(false))` - does not count)
                is_placeholder = lambda v: v == ("default",) or (v[0] == "agg" and v[1] == ITEM and v[2] == "Empty" and all(x[1][0] == "const" for x in v[3]))
                wr = [i for i, e in enumerate(p.events) if e[0] == "write" and e[1] == ("field", ("param", 1), "root", TREE) and not is_placeholder(e[2])]
                if sw and not (wr and wr[-1] > sw[-1]):
                    ok = False
            r.ob("conservation:placeholder-overwritten:%s" % name, ok, f.site, "self.root is reassigned after the root was swapped out, on every path (the placeholder `Empty(false)` would lose the tree's case flag)")
    ctx.run_rule(rid, "content conservation in insert / remove / retain (def-to-drop must-use)", body, floor=13)


def r08_3(ctx, rid="R08.3"):
    F = ctx.facts

    def join_parts(e):
        if e[0] == "call" and e[1] == "slice::join" and e[2][0][0] == "agg":
            return [v for _, v in e[2][0][3]], e[2][1]
        return None, None

    def body(r):
        f = F.method(LAZY, "new_leaf")
        r.analysed(f)
        rets = [p.end[1] for p in Sym(f, copies=True).paths() if p.end[0] == "ret"]
        d = dict(rets[0][3]) if len(rets) == 1 and rets[0][0] == "agg" else {}
        parts, sep = join_parts(d.get("regex", ("",)))
        r.ob("anchoring:leaf", parts == [("const", "^"), ("param", 1), ("const", "$")] and sep == ("const", ""), f.site, "leaf regex = ^ + pattern + $ : %s" % show(d.get("regex"), f))
        r.ob("anchoring:leaf:original", d.get("original") == ("param", 1), f.site, "leaf original = pattern")
        r.ob("anchoring:leaf:uncompiled", d.get("compiled") == ("agg", "std::option::Option", "None", ()), f.site, "a new leaf regex is not compiled")
        g = F.method(LAZY, "new_node")
        r.analysed(g)
        rows = {}
        for p in Sym(g, copies=True).paths():
            if p.end[0] == "ret" and p.end[1][0] == "agg":
                em = [v for a, v in p.conds if a[0] == "call" and a[1] == "std::string::String::is_empty"]
                rows[em[0] if em else None] = dict(p.end[1][3])
        parts, sep = join_parts(rows.get(0, {}).get("regex", ("",)))
        r.ob("anchoring:node:non-empty-prefix", parts == [("const", "^"), ("param", 1)] and sep == ("const", ""), g.site, "node regex = ^ + prefix")
        r.ob("anchoring:node:empty-prefix", rows.get(1, {}).get("regex") == ("const", ".*"), g.site, "empty prefix -> `.*`")
        for k in (0, 1):
            r.ob("anchoring:node:original:%d" % k, rows.get(k, {}).get("original") == ("param", 1), g.site, "node original = prefix")
        # ... and each kind of item holds its own kind of regex: a Leaf built anywhere in the tree gets a regex
        # made by new_leaf (or the regex of the leaf it is rebuilt from), a Node one made by new_node — a leaf
        # sharing a node's regex is anchored at the start only
        k = 0
        for f2 in F.fn_list:
            if f2.derived or not f2.file.startswith("src/regex_radix_tree/") or f2.trait == "std::clone::Clone":
                continue
            seen = set()
            for p in Sym(f2, copies=True).paths():
                vals = [p.end[1]] if p.end[0] == "ret" else []
                vals += [e[3] for e in p.events if e[0] in ("set", "init")] + [a for e in p.events if e[0] == "call" for a in e[2]]
                for v in vals:
                    for x in walk(v):
                        if x[0] != "agg" or x[1] not in (LEAF, NODE) or x in seen:
                            continue
                        seen.add(x)
                        rx = dict(x[3]).get("regex")
                        if rx is None:
                            continue
                        k += 1
                        want, other = ("new_leaf", "new_node") if x[1] == LEAF else ("new_node", "new_leaf")
                        made = mentions(rx, lambda y: y[0] == "call" and y[1] == LAZY + "::" + want)
                        wrong = mentions(rx, lambda y: y[0] == "call" and y[1] == LAZY + "::" + other)
                        kept = mentions(rx, lambda y: y[0] == "field" and y[2] == "regex" and len(y) > 3 and y[3] == x[1])
                        r.ob("anchoring:%s:%s-gets-its-own-kind" % (f2.key.rsplit("::", 2)[-2] + "::" + f2.name, x[1].rsplit("::", 1)[1]), (made or kept) and not wrong, f2.site,
                             "a %s is built with %s" % (x[1].rsplit("::", 1)[1], show(rx, f2)[:100]))
        r.ob("anchoring:constructions", k >= 2, "", "%d Leaf / Node constructions inspected" % k)
    ctx.run_rule(rid, "anchoring constants of leaf and node regexes", body, floor=9)


def r08_4(ctx):
    F = ctx.facts

    def body(r):
        n = 0
        for f in F.fn_list:
            if f.derived or not f.file.startswith("src/regex_radix_tree/"):
                continue
            pv = Prov(f, copies=True)
            for bi, t, cal in f.calls():
                if cal is None:
                    continue
                flag = None
                if cal.key() in (LAZY + "::new_leaf", LAZY + "::new_node"):
                    flag = pv.operand(t["args"][1])
                elif cal.key() == LEAF + "::new":
                    flag = pv.operand(t["args"][3])
                if flag is None:
                    continue
                n += 1
                r.analysed(f)
                ok = mentions(flag, lambda x: x[0] == "field" and x[2] == "ignore_case") or (flag[0] == "param") or (flag[0] == "field" and flag[1][0] == "variant" and flag[1][2] == "Empty")
                r.ob("case-flag:%s->%s" % (f.key, cal.name), ok and flag[0] != "const", f.loc(span_line(t["s"])), "case flag of the new regex is %s" % show(flag, f))
        r.ob("case-flag:sites", n >= 6, "", "%d regex constructions inside the tree" % n)
        # an item that empties itself (last value removed, nothing retained) hands back an Empty item that
        # remembers the tree's case flag: the next insertion builds its regex from it
        m = 0
        for adt in (NODE, LEAF):
            for f in F.methods_of(adt, inherent_only=True):
                if f.is_closure:
                    continue
                for p in Sym(f, copies=True).paths():
                    if p.end[0] != "ret":
                        continue
                    for x in walk(p.end[1]):
                        if x[0] == "agg" and x[1] == ITEM and x[2] == "Empty":
                            m += 1
                            flag = x[3][0][1]
                            r.ob("case-flag:%s:emptied-item" % f.key, flag[0] != "const" and mentions(flag, lambda y: y[0] == "field" and y[2] == "ignore_case"), f.site, "the Empty item returned carries %s" % show(flag, f))
        r.ob("case-flag:emptied-sites", m >= 3, "", "%d Empty items returned by Node / Leaf" % m)
        # RegexTreeMap::new / UniqueRegexTreeMap::new keep the flag
        f = F.method(TREE, "new")
        rets = [p.end[1] for p in Sym(f).paths() if p.end[0] == "ret"]
        okn = len(rets) == 1 and mentions(rets[0], lambda x: x[0] == "agg" and x[2] == "Empty" and x[3][0][1] == ("param", 1))
        r.ob("case-flag:tree-new", okn, f.site, "an empty tree remembers the case flag it was created with")
    ctx.run_rule("R08.4", "case-flag provenance of every regex built inside the tree", body, floor=11)


def r08_6(ctx):
    F = ctx.facts

    def body(r):
        f = F.method(LEAF, "insert")
        r.analysed(f)
        rows = {}
        for p in Sym(f, copies=True).paths():
            if p.end[0] != "ret":
                continue
            eq = [v for a, v in p.conds if a[0] == "call" and "PartialEq" in a[1]]
            ins = [e for e in p.events if e[0] == "call" and e[1] == "std::collections::HashMap::insert"]
            rows[eq[0] if eq else None] = (ins, p.end[1])
        same = rows.get(1)
        ok = same is not None and len(same[0]) == 1 and same[0][0][2][0] == ("field", ("param", 1), "values", LEAF) and same[0][0][2][1] == ("param", 3) and same[1][0] == "agg" and same[1][2] == "Leaf"
        r.ob("replace:same-pattern", ok, f.site, "same pattern -> self.values.insert(id, item) (replaces the value stored under that id) and the leaf is kept")
        diff = rows.get(0)
        okd = diff is not None and diff[1][0] == "agg" and diff[1][2] == "Node"
        r.ob("replace:other-pattern-splits", okd, f.site, "different pattern -> a node holding both leaves")
        # the comparison is on the whole pattern
        cmp_ok = False
        for p in Sym(f, copies=True).paths():
            for a, v in p.conds:
                if a[0] == "call" and "PartialEq" in a[1] and {a[2][0], a[2][1]} == {("param", 2), ("field", ("field", ("param", 1), "regex", LEAF), "original", LAZY)}:
                    cmp_ok = True
        r.ob("replace:whole-pattern-compared", cmp_ok, f.site, "the new pattern is compared with the leaf's original pattern")
        # below a node too: Node::insert hands the value to a child holding exactly this pattern, whatever the
        # length of the prefix they share (a pattern equal to the node's prefix is not "longer than it")
        nf = F.method(NODE, "insert")
        r.analysed(nf)
        sn = Sym(nf, copies=True)
        routed = False
        for lp in for_loops(nf):
            for p in lp.iteration_paths(sn):
                eqs = [(a, v) for a, v in p.conds if a[0] == "call" and "PartialEq" in a[1] and len(a[2]) == 2 and ("param", 2) in a[2]
                       and any(mentions(x, lambda y: y[0] == "call" and y[1] == ITEM + "::regex") and mentions_field(x, "children", NODE) for x in a[2])]
                selects = any(e[0] == "set" and e[3][0] == "agg" and e[3][2] == "Some" and mentions(e[3], lambda y: y[0] == "call" and y[1].endswith("Iterator>::next")) for e in p.events)
                leaves = p.end[0] == "ret" or (p.end[0] in ("stop", "exit") and p.end[1] not in (lp.next_block, lp.head()))  # (`return Some(i)` of a search helper)
                if eqs and eqs[0][1] == 1 and (selects or leaves):
                    routed = True
        r.ob("replace:node-routes-equal-pattern", routed, nf.site, "Node::insert selects the child whose whole pattern equals the inserted one (the value stored under the same id is replaced there)")
        # UniqueRegexTreeMap::insert uses the pattern as id
        u = F.method("regex_radix_tree::tree::UniqueRegexTreeMap", "insert")
        pv = Prov(u)
        oku = False
        for bi, t, cal in u.calls():
            if cal and cal.key() == TREE + "::insert":
                oku = pv.operand(t["args"][1]) == ("param", 2) and pv.operand(t["args"][2]) == ("param", 2)
        r.ob("replace:unique-tree-id-is-pattern", oku, u.site, "UniqueRegexTreeMap::insert stores under id == pattern")
    ctx.run_rule("R08.6", "(pattern, id) replacement", body, floor=5)


def r08_7(ctx):
    """The stated mechanism of prefix splitting, as a per-character decision table of
    common_prefix_char_size: group depth changes only on unescaped parentheses, a backslash escapes
    exactly the next character, and the cut position advances only at depth 0 outside an escape.
    (Regex-syntax soundness of the split itself - e.g. `(` inside a character class - is NOT decided.)"""
    from itertools import product
    F = ctx.facts

    def body(r):
        f = F.fn("regex_radix_tree::prefix::common_prefix_char_size")
        r.analysed(f)
        be = f.back_edges()
        if len(be) != 1:
            r.ob("prefix-scan:loop", False, f.site, "%d loops" % len(be))
            return
        h = be[0][1]
        # state variables by role, not by name: the escape flag is the bool user variable assigned in
        # the loop, the group depth the integer that is both incremented and decremented, the cut
        # position the variable returned when scanning stops
        s0 = Sym(f, copies=True)
        kinds = {}
        returned = set()
        for p in s0.paths(start=h, stops={h}):
            if p.end[0] == "ret" and p.end[1][0] == "local":
                returned.add(p.end[1][1])
            for e in p.events:
                if e[0] == "set" and f.local_name(e[1]):
                    k = kinds.setdefault(e[1], set())
                    if mentions(e[3], lambda x: x[0] == "bin" and x[1].startswith("Add")):
                        k.add("add")
                    elif mentions(e[3], lambda x: x[0] == "bin" and x[1].startswith("Sub")):
                        k.add("sub")
                    elif e[3][0] == "const" and isinstance(e[3][1], bool):
                        k.add("bool")
                    else:
                        k.add("copy")
        # the character-class state, by role: the user variable whose every assignment happens under a successful
        # test of the character against `[` or `]`
        CH = {"(": "A", ")": "B", "\\": "S", "[": "L", "]": "R"}
        CODE = {40: "A", 41: "B", 92: "S", 91: "L", 93: "R"}

        def char_tests(p):
            """{atom letter: bool} for the comparisons of the current character on this path"""
            out = {}
            for a, v in p.conds:
                if a[0] == "bin" and a[1] == "Eq" and a[3][0] == "const" and isinstance(a[3][1], str) and len(a[3][1]) == 1 and a[2][0] != "const":
                    if a[3][1] in CH:
                        out[CH[a[3][1]]] = bool(v)
                elif isinstance(v, int) and not isinstance(v, bool) and v in CODE and a[0] not in ("bin", "call"):
                    out[CODE[v]] = True  # `match c { '(' => .., _ => .. }`: the arm taken
                elif isinstance(v, tuple) and v and v[0] == "other" and a[0] not in ("bin", "call") and set(v[1]) & set(CODE):
                    for code in v[1]:
                        if code in CODE:
                            out.setdefault(CODE[code], False)
            return out
        under = {}
        for p in s0.paths(start=h, stops={h}):
            ct = char_tests(p)
            for e in p.events:
                if e[0] == "set" and f.local_name(e[1]) and e[1] in kinds:
                    under.setdefault(e[1], []).append(bool(ct.get("L") or ct.get("R")))
        cls = [l for l, u in under.items() if u and all(u) and F.types[f.locals[l][0]]["s"] == "bool"]
        cls_other = [l for l, u in under.items() if u and all(u) and l not in cls]
        bools = [l for l, k in kinds.items() if F.types[f.locals[l][0]]["s"] == "bool" and l not in cls]
        depth = [l for l, k in kinds.items() if k == {"add", "sub"} and l not in cls_other]
        if len(bools) != 1 or len(depth) != 1 or len(returned) != 1 or len(cls) > 1 or cls_other:
            r.ob("prefix-scan:state", False, f.site, "cannot identify the scanner state by role (escape flags %s, depth counters %s, class state %s, returned %s)" % ([f.local_name(x) for x in bools], [f.local_name(x) for x in depth], [f.local_name(x) for x in cls + cls_other], [f.local_name(x) for x in returned]))
            return
        we, gl, pl = bools[0], depth[0], returned.pop()
        cl = cls[0] if cls else None
        # an unescaped parenthesis inside a character class (`[)]`, `[^)]+`) is a literal: counting it moves the cut
        # inside a group, the node regex does not compile and every pattern below the node stops answering (D24)
        r.ob("prefix-scan:character-classes", cl is not None, f.site, "the scanner keeps a character-class state (%s)" % f.local_name(cl) if cl is not None else "the scanner has no character-class state: parentheses inside `[...]` are counted as group delimiters")
        s = Sym(f, copies=True)
        bad = set()
        rows = 0

        def flag_update(v_, l):
            return v_[1] if v_[0] == "const" else ("not" if v_ == ("un", "Not", ("local", l)) else "same" if v_ == ("local", l) else "?")

        def apply(upd_, old):
            return old if upd_ in (None, "same") else (not old) if upd_ == "not" else upd_
        for p in s.paths(start=h, stops={h}):
            if p.end[0] != "stop":
                continue
            assign = char_tests(p)
            z = None
            for a, v in p.conds:
                if a == ("local", we):
                    assign["E"] = bool(v)
                elif cl is not None and a == ("local", cl):
                    assign["C"] = bool(v)
                elif a[0] == "bin" and a[1] == "Eq" and a[3] == ("const", 0) and mentions(a[2], lambda x: x == ("local", gl)):
                    z = bool(v)
            lvl = 0
            esc_new = None
            cls_new = None
            upd = False
            for e in p.events:
                if e[0] == "set" and e[1] == gl:
                    lvl = 1 if mentions(e[3], lambda x: x[0] == "bin" and x[1].startswith("Add")) else -1 if mentions(e[3], lambda x: x[0] == "bin" and x[1].startswith("Sub")) else 99
                if e[0] == "set" and e[1] == we:
                    esc_new = flag_update(e[3], we)
                if cl is not None and e[0] == "set" and e[1] == cl:
                    cls_new = flag_update(e[3], cl)
                if e[0] == "set" and e[1] == pl:
                    upd = True
            atoms = ("A", "B", "S", "E") + (("L", "R", "C") if cl is not None else ())
            free = [k for k in atoms if k not in assign]
            for vals in product([False, True], repeat=len(free)):
                full = dict(assign)
                full.update(zip(free, vals))
                if sum(1 for k in ("A", "B", "S", "L", "R") if full.get(k)) > 1:
                    continue  # one character
                rows += 1
                inc = full.get("C", False)
                lvl_ref = 0 if inc else 1 if (full["A"] and not full["E"]) else -1 if (full["B"] and not full["E"]) else 0
                esc_ref = full["S"] and not full["E"]
                esc_got = apply(esc_new, full["E"])
                cls_ref = True if (full.get("L") and not full["E"] and not inc) else False if (full.get("R") and not full["E"] and inc) else inc
                cls_got = apply(cls_new, inc)
                ch = "(" if full["A"] else ")" if full["B"] else "\\" if full["S"] else "[" if full.get("L") else "]" if full.get("R") else "other"
                if lvl != lvl_ref:
                    bad.add("char=%s escaped=%s in-class=%s: depth change %+d (reference %+d)" % (ch, full["E"], inc, lvl, lvl_ref))
                if esc_got != esc_ref:
                    bad.add("char=%s escaped=%s: next character escaped=%s (reference %s)" % (ch, full["E"], esc_got, esc_ref))
                if cl is not None and cls_got != cls_ref:
                    bad.add("char=%s escaped=%s in-class=%s: class state becomes %s (reference %s)" % (ch, full["E"], inc, cls_got, cls_ref))
                if z is not None:
                    upd_ref = z and not esc_ref and not cls_ref
                    if upd != upd_ref and esc_got == esc_ref and cls_got == cls_ref:
                        bad.add("depth==0:%s next-escaped=%s in-class=%s: cut position %s (reference %s)" % (z, esc_ref, cls_ref, "advanced" if upd else "kept", "advanced" if upd_ref else "kept"))
                elif upd:
                    bad.add("cut position advanced without testing the group depth")
        r.ob("prefix-scan:table", not bad and rows >= 16, f.site,
             "depth +1/-1 only on unescaped ( / ); a backslash escapes exactly the next character; the cut advances only at depth 0 outside an escape (%d rows)" % rows if not bad else "; ".join(sorted(bad)[:4]))
        # the two strings are compared character by character and scanning stops at the first difference
        ok_stop = False
        for p in s.paths(start=h, stops={h}):
            if p.end[0] == "ret":
                for a, v in p.conds:
                    if a[0] == "bin" and a[1] == "Eq" and a[2][0] != "const" and a[3][0] != "const" and v == 0:
                        ok_stop = p.end[1] == ("local", pl)
        r.ob("prefix-scan:stops-at-first-difference", ok_stop, f.site, "returns the last recorded cut position at the first differing character")
    ctx.run_rule("R08.7", "per-character decision table of the common-prefix scanner", body, floor=2)


def r08_8(ctx, rid="R08.8"):
    """The tree iterators visit every sibling: when the first child is taken, the rest of the slice is
    stored back in `self.children`; when the iterator descends into a node, the position it saves as
    `parent` is taken *after* that store (otherwise the remaining siblings are lost)."""
    F = ctx.facts

    def body(r):
        its = [f for f in F.fn_list if f.name == "next" and f.trait == "std::iter::Iterator" and (f.adt or "").startswith("regex_radix_tree::iter::ItemIter")]
        for f in its:
            r.analysed(f)
            short = f.adt.rsplit("::", 1)[1]
            bad = set()
            n_desc = n_adv = 0
            is_tail = lambda v: (v[0] == "call" and v[1].endswith("Index::index") and mentions(v, lambda x: x[0] == "agg" and (x[1] or "").endswith("RangeFrom") and dict(x[3]).get("start") == ("const", 1))) \
                or (v[0] == "field" and v[2] == "1" and mentions(v, lambda x: x[0] == "call" and x[1].rsplit("::", 1)[1] in ("split_first", "split_first_mut")))
            for p in Sym(f, copies=True).paths():
                took_first = any(a[0] == "disc" and a[1][0] == "call" and a[1][1].rsplit("::", 1)[1] in ("first", "split_first", "split_first_mut", "first_mut") and v == "Some" for a, v in p.conds)
                if not took_first:
                    continue
                ev = p.events
                store = [i for i, e in enumerate(ev) if e[0] == "write" and e[1] == ("field", ("param", 1), "children", f.adt) and is_tail(e[2])]
                over = [i for i, e in enumerate(ev) if e[0] == "write" and e[1] == ("param", 1) and e[2][0] == "agg" and e[2][1] == f.adt]
                if not store:
                    bad.add("a first child is taken without storing the rest of the slice back")
                    continue
                n_adv += 1
                if over:
                    n_desc += 1
                    takes = [i for i, e in enumerate(ev) if e[0] == "call" and e[1] in ("std::mem::take", "std::mem::replace") and e[2] and e[2][0] == ("param", 1)]
                    parent = dict(ev[over[0]][2][3]).get("parent")
                    ok = bool(takes) and store[0] < takes[0] < over[0] and parent is not None and mentions(parent, lambda x: x[0] == "call" and x[1] in ("std::mem::take", "std::mem::replace") and x[2] and x[2][0] == ("param", 1))
                    if not ok:
                        bad.add("descending into a node: the saved parent position is not the iterator after the remaining siblings were stored (they are never visited)")
            r.ob("iter:%s:no-sibling-lost" % short, not bad and n_desc >= 1 and n_adv >= 3, f.site,
                 "every arm stores the rest of the slice; the parent saved on descent holds it (%d advancing paths, %d descents)" % (n_adv, n_desc) if not bad else "; ".join(sorted(bad)))
        r.ob("iter:iterators-found", len(its) == 2, "", "%d tree iterators" % len(its))
    ctx.run_rule(rid, "tree iterators lose no sibling", body, floor=3)


def r08_9(ctx):
    """common_prefix_char_size counts characters: its result is applied with the character-based helper, never
    used as a byte offset (a byte slice cuts a multi-byte character, or too early)."""
    F = ctx.facts

    def body(r):
        n = 0
        is_cut = lambda x: x[0] == "call" and x[1] == "regex_radix_tree::prefix::common_prefix_char_size"
        for f in F.fn_list:
            if f.derived or not f.file.startswith("src/regex_radix_tree/"):
                continue
            pv = None
            for bi, t_, cal in f.calls():
                if cal is None:
                    continue
                pv = pv or Prov(f, copies=True)
                args = [pv.operand(a) for a in t_["args"]]
                if not any(mentions(a, is_cut) for a in args):
                    continue
                n += 1
                byte_use = (cal.name in ("index", "index_mut", "get", "get_mut", "split_at", "truncate", "split_off", "drain", "is_char_boundary") and not cal.local) or \
                    any(a[0] == "agg" and (a[1] or "").startswith("std::ops::Range") for a in args)
                r.ob("cut-in-characters:%s:%s" % (f.key.rsplit("::", 2)[-2] + "::" + f.name, cal.name), not byte_use, f.loc(span_line(t_["s"])),
                     "the character count is handed to %s" % cal.name if not byte_use else "the character count returned by common_prefix_char_size is used as a byte offset (%s): wrong for patterns with multi-byte characters" % cal.name)
        r.ob("cut-in-characters:uses", n >= 2, "", "%d uses of the cut length" % n)
        # ... and it is compared with character counts only (a byte length is larger for multi-byte text)
        m = 0
        byte_len = lambda x: x[0] == "call" and x[1] in ("str::len", "std::string::String::len")
        for f in F.fn_list:
            if f.derived or not f.file.startswith("src/regex_radix_tree/") or not any(cal is not None and cal.key() == "regex_radix_tree::prefix::common_prefix_char_size" for _, _, cal in f.calls()):
                continue
            seen = set()
            regions = [Sym(f, copies=True).paths()] + [lp.iteration_paths(Sym(f, copies=True)) for lp in for_loops(f)]
            for paths in regions:
                for p in paths:
                    for a, v in p.conds:
                        if a[0] == "bin" and a[1] in ("Lt", "Le", "Gt", "Ge", "Eq", "Ne") and (mentions(a[2], is_cut) or mentions(a[3], is_cut)) and a not in seen:
                            seen.add(a)
                            m += 1
                            mixed = mentions(a[2], byte_len) or mentions(a[3], byte_len)
                            r.ob("cut-in-characters:%s:compared-with-characters" % (f.key.rsplit("::", 2)[-2] + "::" + f.name), not mixed, f.site,
                                 "a prefix size is compared with %s" % ("a character count" if not mixed else "a byte length (`len()`): for a prefix with multi-byte characters the comparison is wrong"))
        r.ob("cut-in-characters:comparisons", m >= 2, "", "%d comparisons of prefix sizes" % m)
    ctx.run_rule("R08.9", "the prefix cut is applied in characters", body, floor=5)


def run(ctx):
    r08_9(ctx)
    r08_8(ctx)
    r08_7(ctx)
    r08_1(ctx)
    r08_2(ctx)
    r08_3(ctx)
    r08_4(ctx)
    r12_1(ctx, rid="R08.5")
    r08_6(ctx)
