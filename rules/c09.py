"""C09 — URL normalisation is canonical: rules and requests agree on equivalent URLs."""
from riolib.core import Callee, MissingAnchor, span_line
from riolib.prov import Prov, show, mentions, mentions_field, walk
from riolib.sym import Sym, for_loops

THOROUGH_CONFIGS = ['dot', 'router']


MANIFEST = {
    "text": "Static decision of the agreement between the rule-side and the request-side normalisers: the percent-encode sets are const-evaluated and compared as sets (URL sets equal; the request's one-step query set equals the union of the rule's two steps; `%` in no set, so re-encoding is idempotent) and each call site uses the set of its side; both sides pass the query through a key-sorted BTreeMap on every path that has a query; the matching form is the lower-cased stored form exactly under the case flag at every construction site; marketing parameters are diverted exactly when configured and forwarded only under the pass flag; rebuilds start from the original URL. Semantics of form_urlencoded / http::uri / percent_encoding are trusted. Also: the string tested for `?` is the one appended to, no percent-decoding anywhere, the sorted maps are keyed by decoded names. Also (round 5): no percent-encoding call is fed a case-folded text (escape, then fold, on both sides), and the keys the sorted map is ordered by must be case-folded before the ordering step under the case flag (today they are not: known finding D25).",
    "technique": "static analysis: const-evaluated set algebra, must-pass-through and decision tables over MIR",
}

PQ = "http::query::PathAndQueryWithSkipped"
CFG = "router_config::RouterConfig"


def mask_to_set(mask):
    out = set()
    for i, b in enumerate(mask[:16]):
        for bit in range(8):
            if b & (1 << bit):
                out.add(i * 8 + bit)
    return out


def r09_1(ctx):
    F = ctx.facts

    def body(r):
        sets = {}
        for name in ("api::rule::SIMPLE_ENCODE_SET", "api::rule::URL_ENCODE_SET", "api::rule::QUERY_ENCODE_SET", "http::query::URL_ENCODE_SET", "http::query::QUERY_ENCODE_SET", "http::request::QUERY_ENCODE_SET"):
            c = F.consts.get(name)
            if c is None or "bytes" not in c:
                r.missing("const " + name)
                return
            sets[name] = mask_to_set(c["bytes"])
        Ur, Qr, Uq, Qq, B = sets["api::rule::URL_ENCODE_SET"], sets["api::rule::QUERY_ENCODE_SET"], sets["http::query::URL_ENCODE_SET"], sets["http::query::QUERY_ENCODE_SET"], sets["http::request::QUERY_ENCODE_SET"]

        def fmt(s):
            return "".join(chr(c) if 0x21 <= c < 0x7f else "" for c in sorted(s)) + (" +controls" if 0 in s else "") + (" +space" if 0x20 in s else "")
        r.ob("sets:url-sets-equal", Ur == Uq, "", "rule URL set {%s} %s request URL set {%s}" % (fmt(Ur), "==" if Ur == Uq else "!=", fmt(Uq)))
        r.ob("sets:two-step-equals-one-step", (B | Qr) == Qq, "", "build_sorted_query set {%s} U rule query set {%s} %s request query set {%s}" % (fmt(B), fmt(Qr), "==" if (B | Qr) == Qq else "!=", fmt(Qq)))
        r.ob("sets:first-step-within-second", B <= Qr, "", "the first rule-side step never encodes what the second would not")
        for name, s_ in sets.items():
            r.ob("sets:percent-not-encoded:%s" % name, ord("%") not in s_, "", "`%%` is %s %s (re-encoding an encoded string is the identity)" % ("not in" if ord("%") not in s_ else "IN", name))
        for name in ("api::rule::QUERY_ENCODE_SET", "http::query::QUERY_ENCODE_SET", "http::request::QUERY_ENCODE_SET"):
            s_ = sets[name]
            r.ob("sets:separators-kept:%s" % name, ord("&") not in s_ and ord("=") not in s_ and ord("?") not in s_, "", "`&`, `=`, `?` are not encoded by %s" % name)
        r.ob("sets:controls-and-space", all(all(c in s_ for c in list(range(0x20)) + [0x7f]) for s_ in sets.values()) and all(0x20 in sets[n] for n in sets if n != "api::rule::SIMPLE_ENCODE_SET"), "", "every set encodes C0 controls and DEL; every URL/query set encodes space")
        def owner_key(f):
            while f.is_closure and f.parent in F.fns:
                f = F.fns[f.parent]
            return f.key
        # which set is used where
        usage = {}
        for f in F.fn_list:
            pv = None
            for bi, t, cal in f.calls():
                if cal and cal.name == "utf8_percent_encode":
                    pv = pv or Prov(f)
                    k = pv.operand(t["args"][1])
                    nm = k[1][1] if k[0] == "const" and isinstance(k[1], tuple) and k[1][0] == "named" else None
                    owner = f
                    while owner.is_closure and owner.parent in F.fns:
                        owner = F.fns[owner.parent]
                    usage.setdefault(owner.key, []).append(nm)
        want = {
            "api::rule::Rule::path_and_query": ["api::rule::URL_ENCODE_SET", "api::rule::QUERY_ENCODE_SET"],
            "http::query::sanitize_url": ["http::query::URL_ENCODE_SET"],
            "http::query::PathAndQueryWithSkipped::from_config": ["http::query::QUERY_ENCODE_SET", "http::query::QUERY_ENCODE_SET"],
            "http::request::Request::build_sorted_query": ["http::request::QUERY_ENCODE_SET", "http::request::QUERY_ENCODE_SET"],
            "api::rule::Rule::markers": ["api::rule::SIMPLE_ENCODE_SET"],
        }
        for k, w in want.items():
            r.ob("sets:usage:%s" % k, sorted(usage.get(k, []), key=str) == sorted(w), F.fn(k).site, "%s encodes with %s" % (k.rsplit("::", 1)[1], usage.get(k)))
        extra = sorted(set(usage) - set(want))
        r.ob("sets:no-other-encoder", not extra, "", "no other percent-encoding call site: %s" % extra)
        # neither side decodes: the request path is matched as it was sent (only re-encoded, which keeps every
        # existing escape), so a rule path must be taken as written too
        dec = sorted({owner_key(f) for f in F.fn_list if not f.derived and f.file.startswith("src/") for bi, t, cal in f.calls() if cal is not None and not cal.local and cal.name.startswith("percent_decode")})
        r.ob("sets:no-decoder", not dec, "", "percent-decoding call sites: %s" % dec)
    ctx.run_rule("R09.1", "encode-set algebra (const-evaluated)", body, floor=16)


def is_btree_collect(e):
    return e[0] == "call" and e[1].endswith("Iterator>::collect") or (e[0] == "call" and e[1].rsplit("::", 1)[1] == "collect")


def r09_2(ctx):
    F = ctx.facts

    def body(r):
        # request side
        f = F.fn("http::query::PathAndQueryWithSkipped::from_config")
        r.analysed(f)
        n = 0
        bad = []
        for p in Sym(f, copies=True, max_paths=100000).paths():
            if p.end[0] != "ret":
                continue
            n += 1
            cm = p.conds
            parse_err = any(a[0] == "disc" and a[1][0] == "call" and a[1][1] == "str::parse" and v == "Err" for a, v in cm)
            no_query = any(a[0] == "disc" and a[1][0] == "call" and a[1][1].endswith("PathAndQuery::query") and v == "None" for a, v in cm)
            sorted_ = any(e[0] == "call" and e[1].rsplit("::", 1)[1] == "collect" and e[6] is not None and any("BTreeMap" in F.types[x]["s"] for x in e[6].substs) for e in p.events)
            if parse_err or no_query:
                continue
            if not sorted_:
                conds = [(show(a, f)[:60], v) for a, v in cm[:3]]
                bad.append("a return with a query present does not pass through the key-sorted map (path conditions %s)" % conds)
        r.ob("sort:request-side", not bad and n > 0, f.site, "every return of from_config with a parsable URL and a query passes through a BTreeMap of the parsed parameters (%d returns)" % n if not bad else sorted(set(bad))[0])
        # the loop that rebuilds the query iterates that map
        loops = for_loops(f)
        okl = any(mentions(lp.source, lambda x: x[0] == "call" and x[1].rsplit("::", 1)[1] == "collect") for lp in loops)
        r.ob("sort:request-side:iterates-the-map", okl, f.site, "the query is rebuilt by iterating the sorted map")
        # rule side
        g = F.fn("api::rule::Rule::path_and_query")
        r.analysed(g)
        rows = {}
        for p in Sym(g, copies=True).paths():
            has = [v for a, v in p.conds if a[0] == "disc" and mentions_field(a[1], "query", "api::source::Source")]
            bs = any(e[0] == "call" and e[1] == "http::request::Request::build_sorted_query" for e in p.events)
            # query.and_then(Request::build_sorted_query) is the call on the Some side
            for e in p.events:
                if e[0] == "call" and e[1] in ("std::option::Option::and_then", "std::option::Option::map") and len(e[2]) == 2 and mentions_field(e[2][0], "query", "api::source::Source") \
                        and e[2][1] == ("const", ("fn", "http::request::Request::build_sorted_query")):
                    bs = True
                    rows.setdefault("Some", set()).add(True)
            if has:
                rows.setdefault(has[0], set()).add(bs)
        r.ob("sort:rule-side", rows.get("Some") == {True}, g.site, "a rule with a query always goes through Request::build_sorted_query: %s" % rows)
        h = F.fn("http::request::Request::build_sorted_query")
        r.analysed(h)
        okb = any(cal and cal.name == "collect" and any("BTreeMap" in F.types[x]["s"] for x in cal.substs) for bi, t, cal in h.calls())
        r.ob("sort:build_sorted_query", okb, h.site, "build_sorted_query collects the parsed parameters into a BTreeMap")
        lps = for_loops(F.loop_form(h))
        oki = any(mentions(lp.source, lambda x: x[0] == "call" and x[1].rsplit("::", 1)[1] == "collect") for lp in lps)
        if not oki:
            # `while let Some(..) = it.next()` over an iterator (peekable, ..) made from the map
            hl = F.loop_form(h)
            pvh = Prov(hl, copies=True)
            for bi, t, cal in hl.calls():
                if cal is not None and cal.name == "next" and hl.in_loop(bi) and mentions(pvh.operand(t["args"][0]), lambda x: x[0] == "call" and x[1].rsplit("::", 1)[1] == "collect"):
                    oki = True
        r.ob("sort:build_sorted_query:iterates-the-map", oki, h.site, "and rebuilds the query by iterating it")
        # both sides key the sorted map by the *decoded* names: what is collected is the parser's output as it is
        for fn in (f, h):
            keyed = []
            for b in fn.all_bodies():
                pvb = Prov(b, copies=True)
                for bi, t, cal in b.calls():
                    if cal is not None and cal.name == "collect" and any("BTreeMap" in F.types[x]["s"] for x in cal.substs):
                        src = pvb.operand(t["args"][0])
                        keyed.append(src[0] == "call" and src[1].rsplit("::", 1)[1] == "into_owned" and src[2] and src[2][0][0] == "call" and src[2][0][1].rsplit("::", 1)[1] == "parse")
            r.ob("sort:keyed-by-decoded-names:%s" % fn.name, bool(keyed) and all(keyed), fn.site, "the sorted map is collected straight from form_urlencoded::parse(..).into_owned()")
        # under `ignore_path_and_query_case` the order must not depend on letter case: the keys the map is ordered by
        # have to be case-folded somewhere before (or in) the ordering step.  Both sides order the keys as written and
        # fold the finished string afterwards: `?a=1&B=2` becomes `b=2&a=1`, its case swap `?A=1&b=2` becomes `a=1&b=2` (D25)
        FOLD = ("to_lowercase", "to_ascii_lowercase", "to_uppercase", "to_ascii_uppercase", "make_ascii_lowercase", "eq_ignore_ascii_case")
        for fn, side in ((f, "request-side"), (h, "rule-side")):
            folded = False
            for b in fn.all_bodies():
                pvb = Prov(b, copies=True)
                for bi, t, cal in b.calls():
                    if cal is None:
                        continue
                    if cal.name == "collect" and any("BTreeMap" in F.types[x]["s"] for x in cal.substs):
                        if mentions(pvb.operand(t["args"][0]), lambda y: y[0] == "call" and y[1].rsplit("::", 1)[-1] in FOLD):
                            folded = True
                    if cal.name in ("sort_by", "sort_by_key", "sort_unstable_by", "sort_by_cached_key", "sort_unstable_by_key"):
                        for c in b.closures:
                            if any(cc is not None and cc.name in FOLD for _b, _t, cc in c.calls()):
                                folded = True
                # a closure of the chain feeding the map (`.map(|(k, v)| (k.to_lowercase(), ..))`) folds inside the chain
                if b.is_closure and b is not fn and any(cc is not None and cc.name in FOLD for _b, _t, cc in b.calls()):
                    pf = Prov(fn, copies=True)
                    for bi, t, cal in fn.calls():
                        if cal is not None and cal.name == "collect" and any("BTreeMap" in F.types[x]["s"] for x in cal.substs) and mentions(pf.operand(t["args"][0]), lambda y: y[0] == "closure" or (y[0] == "agg" and "closure" in str(y[1]))):
                            folded = True
            r.ob("sort:case-independent-order:%s" % side, folded, fn.site, "the keys the parameters are ordered by are case-folded before the ordering step" if folded else "the parameters are ordered by their keys as written and the text is case-folded afterwards: under the case flag the order depends on letter case")
        # both sides parse with the same function
        for fn in (f, h):
            okp = any(cal and cal.path.startswith("url::form_urlencoded::parse") or (cal and cal.key().endswith("form_urlencoded::parse")) for bi, t, cal in fn.calls())
            r.ob("sort:same-parser:%s" % fn.name, okp, fn.site, "parameters are parsed with url::form_urlencoded::parse")
    ctx.run_rule("R09.2", "both sides sort the query", body, floor=9)


def r09_3(ctx):
    F = ctx.facts

    def lower_of(e):
        return e[2][0] if e[0] == "call" and e[1] == "str::to_lowercase" else None

    def body(r):
        f = F.fn("http::query::PathAndQueryWithSkipped::from_config")
        r.analysed(f)
        bad = []
        n = 0
        flag = ("field", ("param", 1), "ignore_path_and_query_case", CFG)
        for p in Sym(f, copies=True, max_paths=100000).paths():
            if p.end[0] != "ret" or p.end[1][0] != "agg":
                continue
            n += 1
            d = dict(p.end[1][3])
            stored = d.get("path_and_query")
            m = d.get("path_and_query_matching")
            mv = dict(m[3]).get("0") if m and m[0] == "agg" and m[2] == "Some" else None
            fv = dict(p.conds).get(flag)
            if fv is None or mv is None:
                bad.append("matching form not governed by ignore_path_and_query_case")
            elif fv == 1 and lower_of(mv) != stored:
                bad.append("flag on: matching form is %s, not lowercase of the stored form %s" % (show(mv, f), show(stored, f)))
            elif fv == 0 and mv != stored:
                bad.append("flag off: matching form %s differs from the stored form %s" % (show(mv, f), show(stored, f)))
            if d.get("original") != ("param", 2):
                bad.append("original is %s" % show(d.get("original"), f))
        r.ob("case:from_config", not bad and n >= 6, f.site, "path_and_query_matching == (flag ? lowercase(path_and_query) : path_and_query) at every construction (%d returns)" % n if not bad else sorted(set(bad))[0])
        # both sides fold the case of the *escaped* text (escape, then lower-case): folding before escaping gives other
        # bytes for non-ASCII letters (`É` -> `%c3%89`, `é` -> `%c3%a9`), so the side that does it no longer meets the other
        folded = []
        n_enc = 0
        for g_ in F.fn_list:
            if g_.derived:
                continue
            pv_ = None
            for bi, t, cal in g_.calls():
                if cal is None or cal.name not in ("utf8_percent_encode", "percent_encode"):
                    continue
                n_enc += 1
                pv_ = pv_ or Prov(g_, copies=True)
                a = pv_.operand(t["args"][0])
                if mentions(a, lambda y: y[0] == "call" and y[1].rsplit("::", 1)[-1] in ("to_lowercase", "to_ascii_lowercase", "to_uppercase", "to_ascii_uppercase", "make_ascii_lowercase")):
                    folded.append("%s (%s)" % (g_.key, g_.loc(span_line(t["s"]))))
        r.ob("case:fold-after-escape", not folded and n_enc >= 4, f.site, "none of the %d percent-encoding calls is fed a case-folded text" % n_enc if not folded else "percent-encoding of a case-folded text in %s" % ", ".join(folded[:3]))
        # Request::path_and_query() prefers the matching form
        g = F.fn("http::request::Request::path_and_query")
        rows = {}
        for p in Sym(g, copies=True).paths():
            if p.end[0] == "ret":
                v = [x for a, x in p.conds if a[0] == "disc"]
                rows[v[0] if v else None] = p.end[1]
        okm = mentions_field(rows.get("Some", ()), "path_and_query_matching") and mentions_field(rows.get("None", ()), "path_and_query")
        if not okm and set(rows) == {None}:
            # the same as one expression: matching.as_ref().unwrap_or(&stored)
            e = rows[None]
            while e[0] == "call" and e[1].rsplit("::", 1)[1] in ("clone", "to_string", "to_owned") and e[2]:
                e = e[2][0]
            okm = e[0] == "call" and e[1].rsplit("::", 1)[1] == "unwrap_or" and len(e[2]) == 2 and mentions_field(e[2][0], "path_and_query_matching") \
                and mentions_field(e[2][1], "path_and_query") and not mentions_field(e[2][1], "path_and_query_matching")
        r.ob("case:request-uses-matching-form", okm, g.site, "Request::path_and_query() returns the matching form when present")
        # rule side: new_with_markers lower-cases the static form iff the flag and passes the flag on
        h = F.fn("marker::StaticOrDynamic::new_with_markers")
        r.analysed(h)
        bad = []
        n = 0
        for p in Sym(h, copies=True).paths():
            if p.end[0] != "ret" or p.end[1][0] != "agg":
                continue
            if p.end[1][2] == "Static":
                n += 1
                v = dict(p.end[1][3]).get("0")
                fv = dict(p.conds).get(("param", 3))
                if fv == 1 and lower_of(v) != ("param", 1):
                    bad.append("flag on: static form %s" % show(v, h))
                if fv == 0 and v != ("param", 1):
                    bad.append("flag off: static form %s" % show(v, h))
                if fv is None:
                    bad.append("static form not governed by the case flag")
        pv = Prov(h, copies=True)
        okf = any(cal and cal.key() == "marker::MarkerString::new" and pv.operand(t["args"][2]) == ("param", 3) for bi, t, cal in h.calls())
        r.ob("case:rule-static-form", not bad and n >= 2, h.site, "static rule form is lower-cased exactly under ignore_case (%d constructions)" % n if not bad else sorted(set(bad))[0])
        r.ob("case:rule-dynamic-form", okf, h.site, "the case flag is handed to MarkerString::new")
        # IntoRoute passes the matching config flag to each builder
        ir = F.fn("<api::rule::Rule as router::route::IntoRoute>::into_route")
        r.analysed(ir)
        pvi = Prov(ir, copies=True)
        want = {"api::rule::Rule::host": "ignore_host_case", "api::rule::Rule::path_and_query": "ignore_path_and_query_case", "api::rule::Rule::headers": "ignore_header_case"}
        for bi, t, cal in ir.calls():
            if cal and cal.key() in want:
                a = pvi.operand(t["args"][1])
                r.ob("case:into_route:%s" % cal.name, a == ("field", ("param", 2), want[cal.key()], CFG), ir.loc(span_line(t["s"])), "%s receives %s" % (cal.name, show(a, ir)))
        # trees are built with the matching flag
        for adt, fld in (("router::request_matcher::path_and_query::PathAndQueryMatcher", "ignore_path_and_query_case"), ("router::request_matcher::host::HostMatcher", "ignore_host_case")):
            nw = F.method(adt, "new")
            pvn = Prov(nw, copies=True)
            ok = False
            for bi, t, cal in nw.calls():
                if cal and cal.name == "new" and (cal.adt or "").startswith("regex_radix_tree::tree::"):
                    ok = mentions_field(pvn.operand(t["args"][0]), fld, CFG)
            r.ob("case:tree-flag:%s" % adt.rsplit("::", 1)[1], ok, nw.site, "the regex tree is created with config.%s" % fld)
        # request side host / header values
        ah = F.fn("http::request::Request::add_header", required=False)
        add_header_ok = False
        if ah is not None:
            rows_ah = {}
            for p in Sym(ah, copies=True).paths():
                fv = dict(p.conds).get(("param", 4))
                for e in p.events:
                    if e[0] == "call" and e[1] == "std::vec::Vec::push" and e[2][1][0] == "agg":
                        rows_ah[fv] = dict(e[2][1][3]).get("value")
            add_header_ok = rows_ah.get(1) == ("call", "str::to_lowercase", (("param", 3),)) and rows_ah.get(0) == ("param", 3)
        for key in ("http::request::Request::from_config", "http::request::Request::rebuild_with_config"):
            q = F.fn(key)
            r.analysed(q)
            bodies = q.all_bodies()
            flags = set()
            for b in bodies:
                for p in Sym(b, copies=True).paths():
                    for a, v in p.conds:
                        for x in walk(a):
                            if x[0] == "field" and x[3] == CFG and "case" in x[2]:
                                flags.add(x[2])
                        if a[0] == "field" and a[3] == "{closure}":
                            flags.add(a[2])
                    # a flag handed to Request::add_header governs the lower-casing done there
                    for e in p.events:
                        if e[0] == "call" and e[1] == "http::request::Request::add_header" and len(e[2]) == 4 and add_header_ok:
                            for x in walk(e[2][3]):
                                if x[0] == "field" and x[3] == CFG and "case" in x[2]:
                                    flags.add(x[2])
            want_flags = {"ignore_host_case"} if key.endswith("from_config") else {"ignore_host_case", "ignore_header_case"}
            got = {x.split(".")[-1].replace("config__", "") for x in flags}
            r.ob("case:%s" % key.rsplit("::", 1)[1], want_flags <= {g_ for g_ in got} or all(any(w in g_ for g_ in got) for w in want_flags), q.site, "lower-casing in %s is governed by %s" % (key.rsplit("::", 1)[1], sorted(got)))
    ctx.run_rule("R09.3", "case tables at every construction site", body, floor=11)


def r09_4(ctx):
    F = ctx.facts

    def body(r):
        f = F.fn("http::query::PathAndQueryWithSkipped::from_config")
        r.analysed(f)
        s = Sym(f, copies=True, max_paths=100000)
        loops = [lp for lp in for_loops(f) if mentions(lp.source, lambda x: x[0] == "call" and x[1].rsplit("::", 1)[1] == "collect")]
        if len(loops) != 1:
            r.ob("marketing:loop", False, f.site, "%d loops over the sorted parameters" % len(loops))
            return
        lp = loops[0]
        # the two accumulators by role: the one returned in `skipped_query_params`, and the other one.  An
        # accumulator is a local String, or a String field of a local state structure (identified by the field)
        def acc_key(x):
            if x[0] in ("local", "havoc"):
                return ("local", x[1])
            if x[0] == "field" and len(x) > 3 and x[1][0] in ("local", "havoc", "call") and x[3] and not x[3].startswith("std::"):
                return ("field", x[2], x[3])
            return None
        skipped_l = set()
        for p in s.paths():
            if p.end[0] == "ret" and p.end[1][0] == "agg":
                sk = dict(p.end[1][3]).get("skipped_query_params")
                if sk is not None:
                    for x in walk(sk):
                        k = acc_key(x)
                        if k is not None and not (x[0] in ("local", "havoc") and any(y[0] == "field" and y[1] == x for y in walk(sk))):
                            skipped_l.add(k)
        pushed_l = set()
        fresh = set()  # strings created anew for each parameter are not accumulators
        for p in lp.iteration_paths(s):
            for e in p.events:
                if e[0] == "call" and e[1] == "std::string::String::push_str" and acc_key(e[2][0]) is not None:
                    pushed_l.add(acc_key(e[2][0]))
                if e[0] == "init":
                    fresh.add(("local", e[1]))
        pushed_l -= fresh
        skipped_l &= pushed_l
        query_l = pushed_l - skipped_l
        if len(skipped_l) != 1 or len(query_l) != 1:
            r.ob("marketing:accumulators", False, f.site, "cannot identify the kept / set-aside accumulators (%s / %s)" % (sorted(query_l), sorted(skipped_l)))
            return
        rows = {}
        for p in lp.iteration_paths(s):
            ign = mk = None
            for a, v in p.conds:
                if a == ("field", ("param", 1), "ignore_marketing_query_params", CFG):
                    ign = bool(v)
                if a[0] == "call" and a[1].rsplit("::", 1)[1] == "contains" and mentions_field(a[2][0], "marketing_query_params", CFG):
                    mk = bool(v)
                    key_arg = a[2][1]
            to_skipped = any(e[0] == "call" and e[1] == "std::string::String::push_str" and acc_key(e[2][0]) in skipped_l for e in p.events)
            to_query = any(e[0] == "call" and e[1] == "std::string::String::push_str" and acc_key(e[2][0]) in query_l for e in p.events)
            rows.setdefault((ign, mk), set()).add((to_skipped, to_query))
        bad = []
        for (ign, mk), effs in rows.items():
            for ts, tq in effs:
                for i in ([ign] if ign is not None else [True, False]):
                    for m in ([mk] if mk is not None else [True, False]):
                        want_skip = i and m
                        if (ts, tq) != (want_skip, not want_skip):
                            bad.append("ignore=%s marketing-key=%s -> skipped=%s kept=%s" % (i, m, ts, tq))
        r.ob("marketing:diversion-table", not bad and len(rows) >= 2, f.loc(lp.line), "a parameter is set aside <=> ignore_marketing_query_params && key in marketing_query_params (rows %s)" % sorted(rows, key=str) if not bad else "; ".join(sorted(set(bad))[:3]))
        # the key tested is the decoded map key (the loop item), not its encoded form
        okk = False
        for p in lp.iteration_paths(s):
            for a, v in p.conds:
                if a[0] == "call" and a[1].rsplit("::", 1)[1] == "contains" and mentions_field(a[2][0], "marketing_query_params", CFG):
                    okk = not mentions(a[2][1], lambda x: x[0] == "call" and "percent_encode" in x[1])
        r.ob("marketing:decoded-key", okk, f.loc(lp.line), "membership is tested on the decoded key")
        # skipped Some <=> pass flag && non-empty
        bad = []
        n = 0
        for p in s.paths():
            if p.end[0] != "ret" or p.end[1][0] != "agg":
                continue
            d = dict(p.end[1][3])
            sk = d.get("skipped_query_params")
            cm = dict(p.conds)
            pf = cm.get(("field", ("param", 1), "pass_marketing_query_params_to_target", CFG))
            if any(a[0] == "disc" and a[1][0] == "call" and a[1][1] == "str::parse" and v == "Err" for a, v in p.conds):
                continue
            n += 1
            empties = [v for a, v in p.conds if a[0] == "call" and a[1] == "std::string::String::is_empty" and acc_key(a[2][0]) in skipped_l]
            is_some = sk is not None and sk[0] == "agg" and sk[2] == "Some"
            want = (pf == 1) and bool(empties) and empties[-1] == 0
            if is_some != want:
                bad.append("pass=%s empty=%s -> %s" % (pf, empties[-1:] or None, "Some" if is_some else "None"))
        r.ob("marketing:forwarding-table", not bad and n >= 6, f.site, "skipped_query_params is Some <=> pass_marketing_query_params_to_target && non-empty (%d returns)" % n if not bad else "; ".join(sorted(set(bad))[:3]))
        # appended to the target with & / ?
        for key in ("action::Action::from_route_rule", "action::Action::get_target"):
            g = F.fn(key)
            bodies = g.all_bodies()
            ok = False
            for b in bodies:
                rows = {}
                same = True
                for p in Sym(b, copies=True, max_paths=300000).paths():
                    qm = [(v, a[2][0]) for a, v in p.conds if a[0] == "call" and a[1].rsplit("::", 1)[1] == "contains" and a[2][1] == ("const", "?")]
                    if not qm:
                        continue
                    pushed = [e[2][1] for e in p.events if e[0] == "call" and e[1] == "std::string::String::push" and e[2][1][0] == "const"]
                    rows.setdefault(qm[0][0], set()).update(pushed)
                    # the string tested for `?` is the one the parameters are appended to: the target after
                    # the markers were replaced (a `?` may come from a marker value)
                    def base(x):
                        while x[0] == "call" and x[1].rsplit("::", 1)[1] in ("deref", "deref_mut", "as_str", "as_mut_str", "as_ref", "borrow") and x[2]:
                            x = x[2][0]
                        return x
                    recv = {base(e[2][0]) for e in p.events if e[0] == "call" and e[1] in ("std::string::String::push", "std::string::String::push_str")}
                    if recv and recv != {base(qm[0][1])}:
                        same = False
                if rows.get(1) == {("const", "&")} and rows.get(0) == {("const", "?")} and same:
                    ok = True
            r.ob("marketing:appended:%s" % key.rsplit("::", 1)[1], ok, g.site, "skipped parameters are appended with `&` when the replaced target has a query, else with `?`")
    ctx.run_rule("R09.4", "marketing parameter tables", body, floor=5)


def r09_5(ctx):
    F = ctx.facts

    def body(r):
        f = F.fn("http::request::Request::rebuild_with_config")
        r.analysed(f)
        pv = Prov(f, copies=True)
        orig = None
        for bi, t, cal in f.calls():
            if cal and cal.key() == PQ + "::from_config":
                orig = pv.operand(t["args"][1])
        ok = orig is not None and all(mentions(x, lambda y: y[0] == "field" and y[2] in ("path_and_query", "original")) for x in ([orig] if orig[0] != "phi" else orig[1]))
        r.ob("rebuild:from-original", ok, f.site, "normalisation starts from %s" % show(orig, f))
        okstore = False
        for p in Sym(f, copies=True).paths():
            if p.end[0] == "ret" and p.end[1][0] == "agg":
                d = dict(p.end[1][3])
                pq = d.get("path_and_query")
                okstore = pq is not None and pq[0] == "agg" and pq[2] == "Some" and not mentions(pq, lambda y: y[0] == "call" and "from_config" in y[1])
        r.ob("rebuild:stores-original", okstore, f.site, "the rebuilt request keeps the original URL for the next rebuild")
        g = F.method("router::Router", "rebuild_request")
        r.ob("rebuild:router-delegates", any(cal and cal.key() == "http::request::Request::rebuild_with_config" for bi, t, cal in g.calls()), g.site, "Router::rebuild_request delegates to Request::rebuild_with_config")
    ctx.run_rule("R09.5", "idempotent rebuild", body, floor=3)


def run(ctx):
    r09_1(ctx)
    r09_2(ctx)
    r09_3(ctx)
    r09_4(ctx)
    r09_5(ctx)
