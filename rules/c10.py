"""C10 — markers capture the matching text and are substituted into targets and filters."""
from riolib.core import Callee, MissingAnchor, span_line
from riolib.prov import Prov, show, mentions, mentions_field, walk, resolve_captures, format_templates
from riolib.sym import Sym, for_loops

THOROUGH_CONFIGS = ['dot', 'router']


MANIFEST = {
    "text": "Static decision of the marker mechanisms: longest-name-first ordering (a descending-length sort dominates the replacement loop in MarkerString::new and the return of Rule::variables); agreement of the matching and the capturing template (same escaped source, same marker expression, same `@name` token, pieces `(?:`..`)` and `(?P<name>`..`)`); the transformer dispatch table and in-order application; capture coverage of path, host and every header condition; substitution through StaticOrDynamic::replace at all value sites; and the header-name comparison discipline (both operands lower-cased at every comparison of a header name). Regex semantics and the heck / str transformers are trusted. Also: each simple transformer applies the function it is named after (R10.8). Also (round 5): Rule::variables lists the raw captures only for a rule that declares no variable.",
    "technique": "static analysis: dominance, provenance and string-constant tables over MIR",
}

MS = "marker::MarkerString"
SOD = "marker::StaticOrDynamic"
HEADER = "http::header::Header"


def comparator_desc_len(F, f, t, cal):
    """closure |a, b| len(b.x).cmp(&len(a.x)) -> (True, field) when descending by length"""
    cl = None
    for tix in cal.substs:
        ty = F.types[tix]
        if ty.get("k") == "closure":
            cl = F.fns.get(ty["def"])
    if cl is None:
        return False, "no comparator closure"
    pv = Prov(cl, copies=True)
    if cal.name in ("sort_by_key", "sort_by_cached_key", "sort_unstable_by_key"):
        # key closure: descending by length <=> the key is Reverse(len(item ..)) (possibly the first
        # component of a tuple key)
        from riolib.sym import Sym as _Sym
        rets = {p.end[1] for p in _Sym(cl, copies=True).paths() if p.end[0] == "ret"}
        if len(rets) != 1:
            return False, "key closure with several results"
        k = rets.pop()
        if k[0] == "agg" and k[1] == "tuple" and k[3]:
            k = k[3][0][1]
        ok = k[0] == "agg" and (k[1] or "").endswith("Reverse") and k[3] and k[3][0][1][0] == "call" and k[3][0][1][1].rsplit("::", 1)[1] == "len" and mentions(k[3][0][1], lambda x: x == ("param", 2))
        return ok, "key %s" % show(k, cl)
    first = None
    for bi, t2, c2 in cl.calls():
        if c2 and c2.name == "cmp" and c2.def_trait == "std::cmp::Ord":
            a, b = pv.operand(t2["args"][0]), pv.operand(t2["args"][1])
            if first is None and a[0] == "call" and a[1].rsplit("::", 1)[1] == "len" and b[0] == "call" and b[1].rsplit("::", 1)[1] == "len":
                first = (a, b)
    if first is None:
        return False, "the comparator does not compare lengths first"
    a, b = first
    # descending: the left operand of cmp is the length of the *second* closure argument
    la = mentions(a, lambda x: x == ("param", 3)) and not mentions(a, lambda x: x == ("param", 2))
    lb = mentions(b, lambda x: x == ("param", 2)) and not mentions(b, lambda x: x == ("param", 3))
    return la and lb, "len(%s).cmp(len(%s))" % (show(a[2][0], cl), show(b[2][0], cl))


def r10_1(ctx):
    F = ctx.facts

    def body(r):
        f = F.fn(MS + "::new")
        r.analysed(f)
        pv = Prov(f, copies=True)
        sorts = [(bi, t, cal) for bi, t, cal in f.calls() if cal and cal.name in ("sort_by", "sort_by_key", "sort_unstable_by") and pv.operand(t["args"][0]) == ("param", 2)]
        loops = [lp for lp in for_loops(f, pv) if lp.source == ("param", 2)]
        r.ob("longest-first:MarkerString::new:sort", len(sorts) == 1 and len(loops) == 1 and f.dominates(sorts[0][0], loops[0].next_block), f.site, "markers.sort_by(..) dominates the replacement loop over the same vector")
        if sorts:
            ok, how = comparator_desc_len(F, f, sorts[0][1], sorts[0][2])
            r.ob("longest-first:MarkerString::new:descending-length", ok, f.loc(span_line(sorts[0][1]["s"])), "comparator: %s" % how)
        g = F.fn("api::rule::Rule::variables")
        r.analysed(g)
        sg = [(bi, t, cal) for bi, t, cal in g.calls() if cal and cal.name in ("sort_by", "sort_by_key", "sort_unstable_by")]
        ok = len(sg) == 1 and all(g.dominates(sg[0][0], x) for x in g.exits())
        r.ob("longest-first:Rule::variables:sort", ok, g.site, "variables.sort_by(..) dominates every return")
        if sg:
            ok2, how = comparator_desc_len(F, g, sg[0][1], sg[0][2])
            r.ob("longest-first:Rule::variables:descending-length", ok2, g.loc(span_line(sg[0][1]["s"])), "comparator: %s" % how)
        # what the list holds: the raw captures only for a rule that declares no variable, otherwise exactly the
        # declared variables -- a capture listed beside a variable of the same name is substituted first (the sort
        # is stable, replace() consumes every `@name` at the first entry), so the variable's transformers never apply
        gl = F.loop_form(g)
        rows = {}
        for p in Sym(gl, copies=True, max_paths=100000).paths():
            em = [v for a, v in p.conds if a[0] == "call" and a[1] == "std::vec::Vec::is_empty" and mentions_field(a[2][0], "variables", "api::rule::Rule")]
            for e in p.events:
                if e[0] == "call" and e[1] in ("std::vec::Vec::push", "std::vec::Vec::insert") and mentions(e[2][-1], lambda y: y[0] == "agg" and y[1] == "tuple"):
                    kind = "declared" if mentions(e[2][-1], lambda y: y[0] == "call" and y[1].endswith("Variable::get_value")) else "capture"
                    rows.setdefault(kind, set()).add(em[0] if em else None)
        okv = rows.get("capture") == {1} and rows.get("declared") == {0}
        r.ob("variables:captures-only-without-declared-variables", okv, g.site, "captures are listed under `self.variables.is_empty()` only, declared variables otherwise: %s" % {k: sorted(v, key=str) for k, v in rows.items()})
        # replace() applies the list in order
        h = F.fn(SOD + "::replace")
        lps = for_loops(h)
        r.ob("longest-first:replace:in-list-order", len(lps) == 1 and lps[0].source == ("param", 2), h.site, "StaticOrDynamic::replace iterates the variables in list order")
    ctx.run_rule("R10.1", "longest name first", body, floor=5)


def r10_2(ctx):
    F = ctx.facts

    def body(r):
        f = F.fn(MS + "::new")
        r.analysed(f)
        s = Sym(f, copies=True)
        lp = [x for x in for_loops(f) if x.source == ("param", 2)]
        if len(lp) != 1:
            r.missing("replacement loop of MarkerString::new")
            return
        lp = lp[0]
        # the two templates by role: the variables stored in the `regex` and `capture` fields of the
        # MarkerString that is returned
        role = {}
        for p in s.paths(start=lp.exit):
            if p.end[0] == "ret":
                for x in walk(p.end[1]):
                    if x[0] == "agg" and x[1] == MS:
                        d = dict(x[3])
                        for fld in ("regex", "capture"):
                            v = d.get(fld)
                            if v is not None and v[0] in ("local", "havoc"):
                                role.setdefault(fld, set()).add(v[1])
        if any(len(role.get(k, ())) != 1 for k in ("regex", "capture")):
            r.missing("the template variables stored in MarkerString.regex / .capture: %s" % role)
            return
        role = {next(iter(v)): k for k, v in role.items()}
        byrole = {k: l for l, k in role.items()}
        # both templates start from regex::escape(str)
        init = {}
        for p in s.paths(start=0, stops={lp.next_block}):
            for e in p.events:
                if e[0] in ("init", "set") and e[1] in role:
                    init[role[e[1]]] = e[3]
        esc = ("call", "regex::escape", (("param", 1),))
        cap_init = init.get("capture")
        if cap_init is not None and cap_init[0] == "local" and cap_init[1] == byrole["regex"]:
            cap_init = init.get("regex")  # `capture = regex.clone()` before any replacement
        r.ob("template:same-escaped-source", init.get("regex") == esc and cap_init == esc, f.site, "regex := %s ; capture := %s" % (show(init.get("regex"), f), show(init.get("capture"), f)))
        # per iteration: both replace marker.format() ; pieces
        item = None
        okrep = {"regex": False, "capture": False}
        pieces = {}
        for p in lp.iteration_paths(s):
            reps = [e for e in p.events if e[0] == "call" and e[1] == "str::replace"]
            for e in reps:
                tgt, pat, val = e[2][0], e[2][1], e[2][2]
                nm = role.get(tgt[1]) if tgt[0] == "local" else None
                isfmt = pat[0] == "call" and pat[1] == "marker::Marker::format"
                if nm in okrep and isfmt:
                    okrep[nm] = True
                    pieces[nm] = val
        r.ob("template:both-replace-the-token", all(okrep.values()), f.site, "regex and capture both replace marker.format(): %s" % okrep)
        # on every path the replacement text is the formatted (wrapped) expression, never the bare one
        unwrapped = set()
        n_rep = 0
        for p in lp.iteration_paths(s):
            inits = {e[1]: e[3] for e in p.events if e[0] in ("init", "set")}
            for e in p.events:
                if e[0] == "call" and e[1] == "str::replace":
                    tgt, pat, val = e[2][0], e[2][1], e[2][2]
                    nm = role.get(tgt[1]) if tgt[0] == "local" else None
                    if nm not in ("regex", "capture"):
                        continue
                    n_rep += 1
                    v = inits.get(val[1], val) if val[0] == "local" else val
                    if not mentions(v, lambda x: x[0] == "call" and x[1].endswith("fmt::format")):
                        unwrapped.add("%s <- %s" % (nm, show(v, f)[:80]))
        r.ob("template:always-wrapped", not unwrapped and n_rep >= 2, f.site,
             "every substitution inserts the formatted group ((?:expr) / (?P<name>expr))" if not unwrapped else "a marker expression is inserted without its group wrapper on some path: %s (a top-level `|` in the expression then splits the whole template)" % sorted(unwrapped))
        # the format pieces of the two format! calls
        tpls = format_templates(f)
        r.note("format templates of MarkerString::new: %s" % tpls)
        r.ob("template:non-capturing-piece", ["(?:", "{}", ")"] in tpls, f.site, "matching template is (?:expr): %s" % tpls)
        r.ob("template:named-capture-piece", ["(?P<", "{}", ">", "{}", ")"] in tpls, f.site, "capturing template is (?P<name>expr): %s" % tpls)
        # both pieces are filled from the same marker.regex; the group name is marker.name
        fills = []
        pvf = Prov(f, copies=True)
        for bi, t_, cal in f.calls():
            if cal and cal.adt == "core::fmt::rt::Argument" and cal.name.startswith("new_"):
                fills.append(pvf.operand(t_["args"][0]))
        names = [[x[2] for x in walk(e) if x[0] == "field" and x[3] == "marker::Marker"] for e in fills]
        # arguments belong to the templates in order of appearance, one per `{}`
        by_tpl = {}
        rest = list(names)
        for tp in tpls:
            k_ = sum(1 for x in tp if x == "{}")
            by_tpl["".join(tp)] = rest[:k_]
            rest = rest[k_:]
        ok_args = by_tpl.get("(?:{})") == [["regex"]] and by_tpl.get("(?P<{}>{})") == [["name"], ["regex"]] and not rest
        r.ob("template:same-expression", ok_args, f.site, "format arguments: %s (matching: regex; capturing: name, regex)" % by_tpl)
        # Marker::format is "@" + name
        g = F.fn("marker::Marker::format")
        reads = {x for x in __import__("riolib.effects", fromlist=["effects"]).effects(g).reads}
        r.ob("template:token-is-@name", format_templates(g) == [["@", "{}"]] and ("marker::Marker", "name") in reads, g.site, "Marker::format() is `@` + name: %s" % format_templates(g))
        # replace() looks for the same token
        h = F.fn(SOD + "::replace")
        r.ob("template:substitution-token-is-@name", format_templates(h) == [["@", "{}"]], h.site, "StaticOrDynamic::replace substitutes `@` + name: %s" % format_templates(h))
        # the capturing regex is a leaf regex (anchored) built from `capture` with the case flag
        okc = False
        for p in s.paths(start=lp.exit):
            if p.end[0] == "ret":
                for x in walk(p.end[1]):
                    if x[0] == "call" and x[1] == "regex::LazyRegex::new_leaf":
                        okc = x[2][0][0] == "local" and x[2][0][1] == byrole["capture"] and x[2][1] == ("param", 3)
        r.ob("template:capture-regex-anchored", okc, f.site, "regex_capture = LazyRegex::new_leaf(capture, ignore_case)")
        # marker names are case-sensitive (`@productId`): the template reaches MarkerString::new as written, the
        # case flag travels next to it (only the static form is case-folded)
        nw = F.fn(SOD + "::new_with_markers")
        r.analysed(nw)
        n_ms = 0
        bad_ms = set()
        for p in Sym(nw, copies=True).paths():
            for e in p.events:
                if e[0] == "call" and e[1] == MS + "::new":
                    n_ms += 1
                    if e[2][0] != ("param", 1):
                        bad_ms.add(show(e[2][0], nw)[:80])
                    if e[2][2] != ("param", 3):
                        bad_ms.add("case flag %s" % show(e[2][2], nw)[:40])
        r.ob("template:marker-string-gets-the-template-as-written", n_ms >= 1 and not bad_ms, nw.site,
             "MarkerString::new(template as given, markers, ignore_case)" if not bad_ms else "MarkerString::new receives %s: a case-folded template no longer contains `@Name` for a marker whose name has an upper-case letter" % sorted(bad_ms))
    ctx.run_rule("R10.2", "matching and capturing templates agree", body, floor=7)


TRANSFORMERS = {"camelize": "Camelize", "dasherize": "Dasherize", "lowercase": "Lowercase", "replace": "Replace", "slice": "Slice", "underscorize": "Underscorize", "uppercase": "Uppercase"}


def r10_3(ctx):
    F = ctx.facts

    def body(r):
        f = F.fn("api::transformer::Transformer::to_transform")
        r.analysed(f)
        table = {}
        for p in Sym(f, copies=True).paths():
            if p.end[0] != "ret":
                continue
            name = None
            for a, v in p.conds:
                if a[0] == "call" and "PartialEq" in a[1] and v == 1:
                    c = [x for x in a[2] if x[0] == "const" and isinstance(x[1], str)]
                    if c and c[0][1] in TRANSFORMERS or (c and mentions_field(a[2][0] if a[2][0][0] != "const" else a[2][1], "kind")):
                        if c and not any(mentions(y, lambda z: z[0] == "call" and "HashMap" in z[1]) for y in a[2]):
                            name = c[0][1]
            built = None
            for x in walk(p.end[1]):
                if x[0] == "call" and (x[1].endswith("::default") or x[1].endswith("::new")) and "marker::transformer::" in x[1]:
                    built = x[1]
                if x[0] == "agg" and x[1] and x[1].startswith("marker::transformer::"):
                    built = x[1]
            for e in p.events:
                if e[0] == "call" and e[6] is not None and e[6].name == "default" and e[3] in [y for y in walk(p.end[1])]:
                    for tix in e[6].substs:
                        for a_ in F.types[tix].get("adts", []):
                            if a_.startswith("marker::transformer::"):
                                built = a_
            if p.end[1][0] == "agg" and p.end[1][2] == "None":
                built = None
            table.setdefault(name, set()).add(built)
        for k, v in TRANSFORMERS.items():
            got = {x for x in table.get(k, set()) if x}
            ok = bool(got) and all(v in x for x in got)
            r.ob("transformer:%s" % k, ok, f.site, "`%s` builds %s" % (k, sorted(got)))
        extra = [k for k in table if k not in TRANSFORMERS and k is not None]
        r.ob("transformer:no-other-names", not extra, f.site, "other transformer names: %s" % extra)
        r.ob("transformer:unknown->None", table.get(None) == {None}, f.site, "unknown / missing type yields None: %s" % table.get(None))
        # in-order application
        for key in ("<api::marker::Marker as marker::transformer::Transform>::transform", "api::variable::Variable::get_value"):
            g = F.fn(key)
            r.analysed(g)
            lps = [lp for lp in for_loops(g) if mentions_field(lp.source, "transformers")]
            ok = len(lps) == 1 and lps[0].source[0] == "field"
            threaded = False
            if ok:
                for p in lps[0].iteration_paths(Sym(g, copies=False)):
                    for e in p.events:
                        if e[0] == "call" and e[1] == "marker::transformer::Transform::transform":
                            sets = [x for x in p.events if x[0] in ("set", "init") and x[3] == e[3]]
                            threaded = bool(sets) and e[2][1][0] in ("local", "param", "havoc") and (e[2][1][1] == sets[0][1])
            r.ob("transformer:in-order:%s" % key.rsplit("::", 2)[-2], ok and threaded, g.site, "transformers are applied in list order, each on the previous result")
    ctx.run_rule("R10.3", "transformer dispatch table and order", body, floor=11)


def r10_4(ctx):
    F = ctx.facts

    def body(r):
        f = F.fn("router::route::Route::capture")
        r.analysed(f)
        s = Sym(f, copies=True)
        paths = s.paths()
        path_ok = any(e[0] == "call" and e[1] == SOD + "::capture" and mentions(e[2][0], lambda x: x[0] == "call" and x[1] == "router::route::Route::path_and_query") for p in paths for e in p.events)
        r.ob("capture:path", path_ok, f.site, "the path pattern captures from the request path")
        src_ok = any(e[0] == "call" and e[1] == SOD + "::capture" and mentions_field(e[2][1], "path_and_query", "http::query::PathAndQueryWithSkipped") and not mentions_field(e[2][1], "path_and_query_matching") for p in paths for e in p.events)
        r.ob("capture:path:original-case", src_ok, f.site, "captured from the normalised (not lower-cased) path so that values keep their case")
        host_ok = any(e[0] == "call" and e[1] == SOD + "::capture" and mentions(e[2][0], lambda x: x[0] == "call" and x[1] == "router::route::Route::host") for p in paths for e in p.events)
        r.ob("capture:host", host_ok, f.site, "the host pattern captures from the request host")
        lps = for_loops(f)
        outer = [lp for lp in lps if mentions(lp.source, lambda x: x[0] == "call" and x[1] == "router::route::Route::headers")]
        inner = [lp for lp in lps if mentions_field(lp.source, "headers", "http::request::Request")]
        r.ob("capture:headers:all-conditions", len(outer) == 1 and len(inner) == 1, f.site, "every header condition is tried against every request header")
        cap = False
        if inner:
            for p in inner[0].iteration_paths(s):
                if any(e[0] == "call" and e[1] == "router::route_header::RouteHeader::capture" for e in p.events):
                    cap = True
        r.ob("capture:headers:capture-called", cap, f.site, "RouteHeader::capture is applied to the matching header's value")
        ext = sum(1 for p in paths for e in p.events if e[0] == "call" and e[1].endswith("Extend>::extend")) > 0
        r.ob("capture:merged", ext, f.site, "captures of the parts are merged into one map")
    ctx.run_rule("R10.4", "capture coverage (path, host, headers)", body, floor=6)


def r10_5(ctx):
    F = ctx.facts

    def body(r):
        f = F.fn("action::Action::from_route_rule")
        r.analysed(f)
        s = Sym(f, copies=True, max_paths=300000)
        found = {}
        rep = lambda e: mentions(e, lambda x: x[0] == "call" and x[1] == SOD + "::replace")

        loc = []

        def scan(expr, fn, events):
            for x in walk(expr):
                if x[0] == "agg" and x[1] in ("api::header_filter::HeaderFilter", "api::body_filter::HTMLBodyFilter", "api::body_filter::TextBodyFilter"):
                    d = dict(x[3])
                    short = x[1].rsplit("::", 1)[1]
                    for fld in ("value", "inner_value", "content"):
                        if fld in d:
                            v = d[fld]
                            ok = rep(v)
                            if not ok and v[0] in ("local", "havoc"):
                                # a variable: what it was initialised with on this path
                                src = [e[3] for e in events if e[0] in ("set", "init") and e[1] == v[1]]
                                ok = bool(src) and rep(src[0])
                                if ok and mentions_field(src[0], "target", "api::rule::Rule"):
                                    loc.append(True)
                            found.setdefault((short, fld), []).append(ok)
        regions = [s.paths()] + [lp.iteration_paths(s) for lp in for_loops(f)]
        for paths in regions:
            for p in paths:
                for e in p.events:
                    if e[0] == "call":
                        for a in e[2]:
                            scan(a, f, p.events)
        # the Location value is a variable initialised from replace(target, &variables)
        loc_ok = bool(loc)
        r.ob("substitution:Location", loc_ok, f.site, "Location value = StaticOrDynamic::replace(rule.target, &variables)")
        for key in (("HeaderFilter", "value"), ("HTMLBodyFilter", "value"), ("HTMLBodyFilter", "inner_value"), ("TextBodyFilter", "content")):
            vals = found.get(key, [])
            r.ob("substitution:%s.%s" % key, bool(vals) and all(vals), f.site, "%s.%s goes through StaticOrDynamic::replace at %d construction(s)" % (key[0], key[1], len(vals)))
        # variables come from route.capture + rule.variables
        vars_ok = any(e[0] == "call" and e[1] == "api::rule::Rule::variables" and mentions(e[2][1], lambda x: x[0] == "call" and x[1] == "router::route::Route::capture") for p in s.paths() for e in p.events)
        r.ob("substitution:variables-from-capture", vars_ok, f.site, "variables = rule.variables(route.capture(request), request)")
        g = F.fn("action::Action::get_target")
        okg = False
        for b in g.all_bodies():
            for p in Sym(b, copies=True).paths():
                for e in p.events:
                    if e[0] == "call" and e[1] == SOD + "::replace":
                        okg = True
        r.ob("substitution:get_target", okg, g.site, "get_target substitutes with the same function")
    ctx.run_rule("R10.5", "substitution at every value site", body, floor=7)


def header_name_comparisons(F):
    out = []
    for f in F.fn_list:
        if f.derived:
            continue
        pv = None
        for bi, t, cal in f.calls():
            if cal and cal.name in ("eq", "ne") and cal.def_trait == "std::cmp::PartialEq" and len(t["args"]) == 2:
                pv = pv or Prov(f, copies=True)
                a, b = pv.operand(t["args"][0]), pv.operand(t["args"][1])
                if f.is_closure:
                    # a value captured from the enclosing function is what it is there
                    from riolib.prov import resolve_captures
                    a, b = resolve_captures(a, f), resolve_captures(b, f)
                if mentions_field(a, "name", HEADER) or mentions_field(b, "name", HEADER):
                    out.append((f, span_line(t["s"]), a, b))
    return out


def lowered(e):
    if e[0] == "call" and e[1] in ("str::to_lowercase", "str::to_ascii_lowercase"):
        return True
    if e[0] == "const" and isinstance(e[1], str) and e[1] == e[1].lower():
        return True
    return False


def r10_6(ctx):
    F = ctx.facts

    def body(r):
        sites = header_name_comparisons(F)
        seen = {}
        for f, line, a, b in sites:
            r.analysed(f)
            owner = f
            while owner.is_closure and owner.parent in F.fns:
                owner = F.fns[owner.parent]
            k = "header-name-cmp:%s" % owner.key
            seen[k] = seen.get(k, 0) + 1
            key = k if seen[k] == 1 else "%s#%d" % (k, seen[k])
            ok = lowered(a) and lowered(b)
            r.ob(key, ok, f.loc(line), "%s vs %s: %s" % (show(a, f)[:70], show(b, f)[:70], "both lower-cased" if ok else "compared exactly although header names are case-insensitive everywhere else"))
        r.ob("header-name-cmp:sites", len(sites) >= 14, "", "%d comparisons of a header name" % len(sites))
    ctx.run_rule("R10.6", "header-name comparison discipline", body, floor=14)


TRANSFORM_FUNCTIONS = {
    "camelize::Camelize": ("to_lower_camel_case", 1),
    "dasherize::Dasherize": ("to_kebab_case", 1),
    "underscorize::Underscorize": ("to_snake_case", 1),
    "lowercase::Lowercase": ("to_lowercase", 1),   # the Unicode one: host and header captures are not ASCII-only
    "uppercase::Uppercase": ("to_uppercase", 1),
    "replace::Replace": ("replace", 3),
}


def r10_8(ctx):
    """Each transformer is the function its name says, applied to the whole value (the functions
    themselves, std / heck, are trusted)."""
    F = ctx.facts

    def body(r):
        for short, (fname, argc) in sorted(TRANSFORM_FUNCTIONS.items()):
            f = F.fn("<marker::transformer::%s as marker::transformer::Transform>::transform" % short)
            r.analysed(f)
            rets = {p.end[1] for p in Sym(f, copies=True).paths() if p.end[0] == "ret"}
            ok = len(rets) == 1
            v = next(iter(rets)) if rets else ()
            ok = ok and v[0] == "call" and v[1].rsplit("::", 1)[1] == fname and len(v[2]) == argc and _view_of(v[2][0]) == ("param", 2)
            if ok and short.startswith("replace"):
                ok = all(mentions_field(a, n) for a, n in zip(v[2][1:], ("something", "with")))
            r.ob("transformer:%s:is-%s" % (short.rsplit("::", 1)[1], fname), ok, f.site, "returns %s" % [show(x, f) for x in rets])
    ctx.run_rule("R10.8", "each transformer applies the function it is named after", body, floor=6)


def _view_of(e):
    while e[0] == "call" and e[1].rsplit("::", 1)[1] in ("deref", "as_str", "as_ref", "borrow") and e[2]:
        e = e[2][0]
    return e


def run(ctx):
    r10_1(ctx)
    r10_2(ctx)
    r10_3(ctx)
    r10_4(ctx)
    r10_5(ctx)
    r10_6(ctx)
    r10_8(ctx)
    from .c12 import r12_5
    r12_5(ctx, rid="R10.7")  # the capture regex stays the capture pattern when it is compiled
