"""C11 — rule application is deterministic under any match or insertion order."""
from riolib.core import MissingAnchor, span_line
from riolib.prov import Prov, show, mentions, mentions_field, walk
from riolib.sym import Sym, for_loops
from riolib.effects import effects
from riolib import types as T
from .c05 import fold_semantics

THOROUGH_CONFIGS = ['dot', 'router']


MANIFEST = {
    "text": "Static decision that the action is a function of the matched *set*: the sort dominates the fold; the rule order is total and consistent (Ord and Eq read exactly {rank, id}, partial_cmp delegates, direction descending on both keys, Route delegates to the handler); and every iteration over a hash-ordered container reachable from the action builder either feeds an order-insensitive sink or is followed by a sort of the sink with a total comparator; tree lookups used by insertion visit every sibling that can hold the pattern (shared with C08), so the tree content does not depend on insertion order. Also (round 5): routes.sort() is the first thing done with the matched routes in from_routes_rule.",
    "technique": "static analysis: dominance, field-effect sets, unordered-iteration -> ordered-sink audit over the call graph",
}

RULE = "api::rule::Rule"
ROUTE = "router::route::Route"
ORDERED_SINKS = {("std::vec::Vec", "push"), ("std::vec::Vec", "extend"), ("std::vec::Vec", "insert"), ("std::string::String", "push_str"), ("std::string::String", "push"),
                 ("linked_hash_set::LinkedHashSet", "insert"), ("std::collections::VecDeque", "push_back")}
SORTS = {"sort", "sort_by", "sort_by_key", "sort_unstable", "sort_unstable_by", "sort_unstable_by_key", "sort_by_cached_key"}


def r11_1(ctx):
    F = ctx.facts

    def body(r):
        f = F.fn("action::Action::from_routes_rule")
        r.analysed(f)
        pv = Prov(f)
        sorts = [(bi, t) for bi, t, cal in f.calls() if cal and cal.name in ("sort", "sort_unstable") and pv.operand(t["args"][0]) == ("param", 1)]
        rows, lp = fold_semantics(f)
        r.ob("sort:present", len(sorts) == 1, f.site, "%d sort() calls on the routes parameter" % len(sorts))
        r.ob("sort:dominates-fold", bool(sorts) and lp is not None and all(f.dominates(bi, lp.next_block) and bi != lp.next_block for bi, _ in sorts), f.site, "routes.sort() dominates the fold loop")
        # nothing reads or reshapes the matched routes before they are sorted: whatever looks at the list earlier
        # (a `find`, a `retain`, `first()` ...) sees the order the caller happened to hand them over in
        early = []
        for b in f.all_bodies()[:1]:
            for bi, t, cal in b.calls():
                if cal is None or (bi, t) in sorts:
                    continue
                if cal.name in ("deref", "deref_mut", "as_slice", "as_mut_slice", "as_ref", "as_mut", "borrow", "borrow_mut", "len", "is_empty", "capacity"):
                    continue  # a view of the vector (what is done with it is looked at where it happens) or an order-free question
                if any(f.dominates(sb, bi) for sb, _ in sorts):
                    continue
                if any(pv.operand(a) == ("param", 1) or mentions(pv.operand(a), lambda y: y == ("param", 1)) for a in t["args"]):
                    early.append("%s (%s)" % (cal.name, f.loc(span_line(t["s"]))))
        r.ob("sort:first-look-at-the-routes", bool(sorts) and not early, f.site, "routes.sort() is the first thing done with the matched routes" if not early else "the unsorted route list is handed to %s before the sort" % ", ".join(early[:3]))
        if lp is not None:
            r.ob("sort:fold-iterates-sorted-vector", lp.source == ("param", 1), f.loc(lp.line), "the fold iterates the sorted vector itself (%s)" % show(lp.source, f))
        # sort() uses the natural order (Ord of Arc<Route<Rule>>), not a custom comparator
        for bi, t in sorts:
            ty = F.types[f.blocks[bi]["term"]["f"]["substs"][0]] if f.blocks[bi]["term"]["f"].get("substs") else None
            r.ob("sort:element-type", ty is not None and ROUTE in ty.get("adts", []) and RULE in ty.get("adts", []), f.loc(span_line(t["s"])), "sorted element type is %s" % (ty or {}).get("s"))
    ctx.run_rule("R11.1", "sort-before-fold", body, floor=4)


def r11_2(ctx):
    F = ctx.facts

    def fields_read(f, adt):
        out = set()
        for b in f.all_bodies():
            out |= {fl for (a, fl) in effects(b).reads if a == adt}
            # disjoint closure captures read `var.field` of the parent
            for (a, fl) in effects(b).reads:
                if a == "{closure}" and "__" in (fl or ""):
                    out |= {x for x in fl.replace("_ref__", "", 1).split("__")[1:]}
        return out

    def body(r):
        cmp_ = F.method(RULE, "cmp", trait="std::cmp::Ord")
        eq = F.method(RULE, "eq", trait="std::cmp::PartialEq")
        pc = F.method(RULE, "partial_cmp", trait="std::cmp::PartialOrd")
        r.analysed(cmp_, eq, pc)
        r.ob("order:Rule::cmp:keys", fields_read(cmp_, RULE) == {"rank", "id"}, cmp_.site, "Ord::cmp reads %s" % sorted(fields_read(cmp_, RULE)))
        eq_deleg = not fields_read(eq, RULE) and any(cal and cal.local and cal.name == "cmp" and cal.adt == RULE for bi, t, cal in eq.calls())
        r.ob("order:Rule::eq:keys", fields_read(eq, RULE) == {"rank", "id"} or eq_deleg, eq.site,
             "PartialEq::eq %s (must equal the keys of cmp for a consistent total order)" % ("is cmp(..) == Equal" if eq_deleg else "reads %s" % sorted(fields_read(eq, RULE))))
        deleg = any(cal and cal.local and cal.name == "cmp" and cal.adt == RULE for bi, t, cal in pc.calls())
        r.ob("order:Rule::partial_cmp:delegates", deleg and not fields_read(pc, RULE), pc.site, "partial_cmp is Some(self.cmp(other))")
        # direction: other.key.cmp(&self.key) for both keys; rank decides first
        from riolib.prov import resolve_captures
        seen = {}
        order = []  # (key, body, block)
        for body_ in cmp_.all_bodies():
            pv = Prov(body_)
            for bi, t, cal in body_.calls():
                if cal and cal.name == "cmp" and cal.def_trait == "std::cmp::Ord":
                    a, b = pv.operand(t["args"][0]), pv.operand(t["args"][1])
                    if body_ is not cmp_:
                        a, b = resolve_captures(a, body_, copies=False), resolve_captures(b, body_, copies=False)
                    key = [x[2] for x in walk(a) if x[0] == "field" and x[2] in ("rank", "id")]
                    key = key[0] if key else "?"
                    seen[key] = (mentions(a, lambda x: x == ("param", 2)) and not mentions(a, lambda x: x == ("param", 1)), mentions(b, lambda x: x == ("param", 1)) and not mentions(b, lambda x: x == ("param", 2)))
                    order.append((key, body_, bi))
        # third form: one comparison of two sort keys built the same way from self and other — a tuple, or a
        # local structure whose Ord is derived (lexicographic in declaration order); `Reverse` flips a key
        key_form = None
        krets = {p.end[1] for p in Sym(cmp_, copies=True).paths() if p.end[0] == "ret"}
        if len(krets) == 1:
            e = next(iter(krets))
            if e[0] == "call" and e[1].endswith("::cmp") and len(e[2]) == 2 and e[2][0][0] == "agg" and e[2][1][0] == "agg" and e[2][0][1] == e[2][1][1]:
                A, B = e[2]
                adt = A[1]
                names = None
                if adt == "tuple":
                    names = [n for n, _ in A[3]]
                elif adt in F.adts and any(g.adt == adt and g.trait == "std::cmp::Ord" and g.name == "cmp" and g.derived for g in F.fns.values()):
                    names = [n for n, _ in F.adt_fields(adt)]
                if names and [n for n, _ in A[3]] and set(names) == {n for n, _ in A[3]} == {n for n, _ in B[3]}:
                    da, db = dict(A[3]), dict(B[3])
                    key_form = []
                    for n in names:
                        va, vb, flips = da[n], db[n], 0
                        while va[0] == "agg" and vb[0] == "agg" and (va[1] or "").endswith("cmp::Reverse") and va[1] == vb[1]:
                            va, vb, flips = va[3][0][1], vb[3][0][1], flips + 1
                        ka = [x[2] for x in walk(va) if x[0] == "field" and x[3] == RULE]
                        kb = [x[2] for x in walk(vb) if x[0] == "field" and x[3] == RULE]
                        a_self = mentions(va, lambda x: x == ("param", 1)) and not mentions(va, lambda x: x == ("param", 2))
                        b_other = mentions(vb, lambda x: x == ("param", 2)) and not mentions(vb, lambda x: x == ("param", 1))
                        a_other = mentions(va, lambda x: x == ("param", 2)) and not mentions(va, lambda x: x == ("param", 1))
                        b_self = mentions(vb, lambda x: x == ("param", 1)) and not mentions(vb, lambda x: x == ("param", 2))
                        if len(ka) != 1 or ka != kb or not ((a_self and b_other) or (a_other and b_self)):
                            key_form = None
                            break
                        descending = ((a_self and b_other) and flips % 2 == 1) or ((a_other and b_self) and flips % 2 == 0)
                        key_form.append((ka[0], descending))
        if key_form is not None:
            for k, desc in key_form:
                seen[k] = (desc, desc)
        for k in ("rank", "id"):
            r.ob("order:Rule::cmp:descending:%s" % k, seen.get(k) == (True, True), cmp_.site, "key `%s` is compared as other.%s.cmp(&self.%s): %s" % (k, k, k, seen.get(k)))
        # rank decides first, id breaks ties: either `if rank != Equal {return rank}; id` in one body, or
        # rank.then_with(|| id) with the id comparison inside the closure
        then_with = [(bi, t) for bi, t, cal in cmp_.calls() if cal and cal.name in ("then_with", "then") and cal.adt == "std::cmp::Ordering"]
        by_key = {k: (b_, bi) for k, b_, bi in order}
        ok_first = False
        ok_ret = False
        if len(order) == 2 and set(by_key) == {"rank", "id"}:
            rb, ib = by_key["rank"], by_key["id"]
            if rb[0] is cmp_ and ib[0] is cmp_ and not then_with:
                ok_first = cmp_.dominates(rb[1], ib[1])
                paths = [p for p in Sym(cmp_).paths() if p.end[0] == "ret"]
                rets = {p.end[1] for p in paths}
                ok_ret = all(e[0] == "call" and e[1].endswith("::cmp") and "Ord" in e[1] for e in rets) and len(rets) == 2
            elif rb[0] is cmp_ and len(then_with) == 1:
                # Ordering::then_with(rank_cmp, closure) / then(rank_cmp, id_cmp): the receiver is the rank comparison
                pvc = Prov(cmp_)
                recv = pvc.operand(then_with[0][1]["args"][0])
                ok_first = recv[0] == "call" and recv[1].endswith("::cmp") and mentions(recv, lambda x: x[0] == "field" and x[2] == "rank")
                rets = {p.end[1] for p in Sym(cmp_).paths() if p.end[0] == "ret"}
                ok_ret = len(rets) == 1 and all(e[0] == "call" and e[1].rsplit("::", 1)[1] in ("then_with", "then") for e in rets)
                if ib[0] is not cmp_:
                    crets = {p.end[1] for p in Sym(ib[0]).paths() if p.end[0] == "ret"}
                    ok_ret = ok_ret and len(crets) == 1 and all(e[0] == "call" and e[1].endswith("::cmp") for e in crets)
        if key_form is not None:
            ok_first = [k for k, _ in key_form] == ["rank", "id"]
            ok_ret = True
            order = [(k, cmp_, 0) for k, _ in key_form]
        r.ob("order:Rule::cmp:rank-first", ok_first, cmp_.site, "rank is compared first, id breaks ties (%s)" % [k for k, _, _ in order])
        r.ob("order:Rule::cmp:returns-comparisons", ok_ret, cmp_.site, "cmp returns the rank comparison unless Equal, else the id comparison, unchanged")
        # Route delegates to its handler, same operand order
        for name, trait in (("cmp", "std::cmp::Ord"), ("partial_cmp", "std::cmp::PartialOrd"), ("eq", "std::cmp::PartialEq")):
            f = F.method(ROUTE, name, trait=trait)
            r.analysed(f)
            pvf = Prov(f)
            ok = False
            for bi, t, cal in f.calls():
                if cal and cal.name == name:
                    a, b = pvf.operand(t["args"][0]), pvf.operand(t["args"][1])
                    ok = a == ("field", ("param", 1), "handler", ROUTE) and b == ("field", ("param", 2), "handler", ROUTE)
            r.ob("order:Route::%s:delegates" % name, ok and fields_read(f, ROUTE) == {"handler"}, f.site, "Route::%s is self.handler.%s(&other.handler)" % (name, name))
    ctx.run_rule("R11.2", "the rule order is total and consistent", body, floor=10)


def comparator_total_on_key(F, f, t, cal):
    """For a sort_by/sort_by_key call on a vector of (name, value) pairs fed from a map: does the
    comparator order distinct names totally?  True when the key strings themselves are compared
    (possibly after a length comparison), False when only a non-injective projection (len) is."""
    cl = None
    for tix in cal.substs:
        ty = F.types[tix]
        if ty.get("k") == "closure":
            cl = F.fns.get(ty["def"])
    if cal.name in ("sort", "sort_unstable"):
        return True, "natural order"
    if cl is None:
        return False, "comparator not found"
    bodies = cl.all_bodies()
    direct = False
    only_len = False
    for g in bodies:
        pv = Prov(g)
        for bi, t2, c2 in g.calls():
            if c2 and c2.name in ("cmp", "partial_cmp") and c2.def_trait in ("std::cmp::Ord", "std::cmp::PartialOrd"):
                a = pv.operand(t2["args"][0])
                if mentions(a, lambda x: x[0] == "call" and x[1].endswith("::len")):
                    only_len = True
                else:
                    st = c2.self_ty or ""
                    if "String" in st or "str" in st or "(" in st:
                        direct = True
    if direct:
        return True, "compares the keys themselves"
    if only_len:
        return False, "compares only the length of the keys: equal-length keys keep their (hash) order"
    return False, "no key comparison recognised"


def r11_3(ctx):
    F = ctx.facts

    def body(r):
        cg = F.callgraph()
        roots = [F.fn("action::Action::from_routes_rule"), F.fn("action::Action::get_target")]
        reach = cg.reachable(roots)
        n_hash_loops = 0
        for p in sorted(reach):
            f = F.fns[p]
            if f.derived:
                continue
            loops = []
            for bi, t, cal in f.calls():
                if cal and cal.name == "next" and cal.def_trait == "std::iter::Iterator" and cal.adt and T.is_hash_ordered(cal.adt):
                    loops.append((bi, t, cal))
            if not loops:
                continue
            r.analysed(f)
            s = Sym(f, copies=True)
            for lp in for_loops(f):
                nb = f.blocks[lp.next_block]["term"]
                cal = [c for b_, t_, c in loops if b_ == lp.next_block]
                if not cal:
                    continue
                n_hash_loops += 1
                sinks = set()
                for path in lp.iteration_paths(s):
                    for e in path.events:
                        if e[0] == "call" and e[6] is not None and (e[6].adt, e[6].name) in ORDERED_SINKS and e[2]:
                            sinks.add((e[2][0], e[6].adt, e[6].name))
                key = "unordered:%s:%s" % (f.key, show(lp.source, f))
                if not sinks:
                    r.ob(key, True, f.loc(lp.line), "hash-ordered iteration over %s feeds only order-insensitive sinks" % show(lp.source, f))
                    continue
                for sink, adt, meth in sorted(sinks, key=repr):
                    # a sort of the same sink after the loop, with a total comparator
                    ok = False
                    why = "ordered sink %s (%s::%s) is never sorted afterwards" % (show(sink, f), adt.rsplit("::", 1)[1], meth)
                    pv = Prov(f)
                    for bi, t, c2 in f.calls():
                        if c2 and c2.name in SORTS and f.must_pass_through({bi}, start=lp.exit):
                            recv = Sym(f).place({}, t["args"][0]["m"] if "m" in t["args"][0] else t["args"][0].get("c")) if False else pv.operand(t["args"][0])
                            tot, how = comparator_total_on_key(F, f, t, c2)
                            same = True
                            if tot:
                                ok = True
                                why = "sink sorted afterwards (%s)" % how
                            else:
                                why = "sink %s is sorted afterwards but %s" % (show(sink, f), how)
                    r.ob(key + "->" + show(sink, f), ok, f.loc(lp.line), "iteration over hash-ordered %s pushes into an ordered sink: %s" % (show(lp.source, f), why))
        r.ob("unordered:loops-found", n_hash_loops >= 2, "", "%d hash-ordered loops audited in %d reachable bodies" % (n_hash_loops, len(reach)))
        # the Action itself holds no hash-ordered container (its serialisation is order-stable)
        closure = T.adt_closure(F, ["action::Action"])
        for adt, flds in sorted(T.foreign_adts_in(F, closure).items()):
            if T.is_hash_ordered(adt):
                for a, fl in flds:
                    r.ob("unordered:action-field:%s.%s" % (a, fl), False, "", "hash-ordered container %s inside the serialised action" % adt)
        r.ob("unordered:action-closure", len(closure) >= 8, "", "%d ADTs in the type closure of Action, none holds a hash-ordered container" % len(closure))
    ctx.run_rule("R11.3", "unordered iteration never reaches an ordered sink unsorted", body, floor=4)


def run(ctx):
    r11_1(ctx)
    r11_2(ctx)
    r11_3(ctx)
    from .c08 import r08_1
    r08_1(ctx, rid="R11.4")
    # a rule reported twice (in an order that depends on hashing) is applied twice: the duplicate-free union of C01
    try:
        from . import layers as LY
        from .c01 import r01_7
        r01_7(ctx, LY.discover(ctx.facts), rid="R11.5")
        from .c02 import r02_8
        r02_8(ctx, LY.discover(ctx.facts), rid="R11.6")  # a router after insert + remove answers like a rebuilt one, whatever bucket is visited first
    except MissingAnchor as e:
        ctx.run_rule("R11.5", "duplicate-free union of buckets", lambda r: r.missing(str(e)), floor=1)
