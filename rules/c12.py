"""C12 — regex caching is transparent (structural conditions)."""
from riolib.core import Callee, MissingAnchor, span_line
from riolib.prov import Prov, show, mentions, mentions_field, walk
from riolib.sym import Sym, for_loops
from riolib.effects import effects, transitive_writes
from riolib import types as T
from . import c07
from . import layers as LY

THOROUGH_CONFIGS = ['dot', 'router']
WITNESSES = ['w3']


MANIFEST = {
    "text": "Static decision that warming the cache cannot change answers: the lazy and the compiled branch of LazyRegex::is_match / regex() evaluate the same regex built by the same builder function (any shortcut must be implied by the pattern being `.*`); compile() copies pattern, original and case flag unchanged; an effect inventory over everything reachable from Router::cache / RegexTreeMap::cache / Route::compile shows that only the regex-cache fields (Node.regex, Leaf.regex, the LazyRegex behind MarkerString.regex_capture) are writable from there, each assigned compile() of its previous value; the cache budget arithmetic is guarded. Also (round 5): LazyRegex.compiled is read only by the regex itself and by the warm-up (R12.7) — no structural decision of the tree depends on the cache state.",
    "technique": "static analysis: decision-table comparison of sibling branches, transitive field-effect inventory over the call graph, provenance",
}

LAZY = "regex::LazyRegex"


def r12_1(ctx, rid="R12.1"):
    F = ctx.facts

    def body(r):
        f = F.loop_form(F.method(LAZY, "is_match"))  # (Option combinators written out: `create_regex().is_some_and(|r| ..)`)
        r.analysed(f)
        self_ = ("param", 1)
        compiled = ("field", self_, "compiled", LAZY)
        built = ("call", LAZY + "::create_regex", (self_,))
        rows = []
        for p in Sym(f, copies=True).paths():
            if p.end[0] != "ret":
                continue
            cm = dict(p.conds)
            ret = p.end[1]
            key = "branch:is_match:%s" % ",".join("%s=%s" % (show(a, f), v) for a, v in p.conds)
            if cm.get(("disc", compiled, "std::option::Option")) == "Some":
                ok = ret[0] == "call" and ret[1] == "regex::Regex::is_match" and mentions(ret[2][0], lambda x: x == compiled) and ret[2][1] == ("param", 2)
                r.ob(key, ok, f.site, "compiled present -> Regex::is_match(compiled, value): %s" % show(ret, f))
                continue
            # lazy side
            extra = [(a, v) for a, v in p.conds if a != ("disc", compiled, "std::option::Option") and not (a[0] == "disc" and a[1] == built)]
            bd = cm.get(("disc", built, "std::option::Option"))
            if bd == "Some":
                ok = ret[0] == "call" and ret[1] == "regex::Regex::is_match" and mentions(ret[2][0], lambda x: x == built) and ret[2][1] == ("param", 2)
                r.ob(key, ok, f.site, "not compiled -> Regex::is_match(create_regex(), value): %s" % show(ret, f))
            elif bd == "None":
                r.ob(key, ret == ("const", False), f.site, "regex cannot be built -> false (the compiled form cannot exist either)")
            else:
                # a shortcut that does not build the regex: allowed only when its condition implies
                # that the pattern is `.*`
                implied = any(a[0] == "call" and "PartialEq" in a[1] and a[1].endswith("::eq") and v == 1 and
                              {a[2][0], a[2][1]} == {("field", self_, "regex", LAZY), ("const", ".*")} for a, v in p.conds)
                ok = ret == ("const", True) and implied
                r.ob(key, ok, f.site,
                     "shortcut returning %s under %s: %s" % (show(ret, f), [(show(a, f), v) for a, v in extra],
                                                              "implied by regex == \".*\"" if ok else "the compiled regex may answer differently (e.g. the leaf pattern `^$` for an empty original does not match a non-empty string)"))
        g = F.loop_form(F.method(LAZY, "regex"))
        r.analysed(g)
        for p in Sym(g, copies=True).paths():
            if p.end[0] != "ret":
                continue
            cm = dict(p.conds)
            key = "branch:regex:%s" % cm.get(("disc", compiled, "std::option::Option"))
            if cm.get(("disc", compiled, "std::option::Option")) == "Some":
                ok = p.end[1][0] == "agg" and p.end[1][2] == "Some" and mentions(p.end[1], lambda x: x == compiled)
            else:
                ok = p.end[1] == built
            r.ob(key, ok, g.site, "regex() returns %s" % show(p.end[1], g))
    ctx.run_rule(rid, "lazy and compiled branches of LazyRegex agree", body, floor=5)


def r12_2(ctx):
    F = ctx.facts

    def body(r):
        f = F.method(LAZY, "compile")
        r.analysed(f)
        rets = [p.end[1] for p in Sym(f, copies=True).paths() if p.end[0] == "ret"]
        ok = len(rets) == 1 and rets[0][0] == "agg" and rets[0][1] == LAZY
        r.ob("compile:single-aggregate", ok, f.site, "compile() returns one LazyRegex aggregate")
        if ok:
            d = dict(rets[0][3])
            for fld in ("regex", "original", "ignore_case"):
                r.ob("compile:copies:%s" % fld, d.get(fld) == ("field", ("param", 1), fld, LAZY), f.site, "%s := %s" % (fld, show(d.get(fld), f)))
            r.ob("compile:compiled-from-create_regex", d.get("compiled") == ("call", LAZY + "::create_regex", (("param", 1),)), f.site, "compiled := %s" % show(d.get("compiled"), f))
        g = F.method(LAZY, "create_regex")
        r.analysed(g)
        reads = {fl for (a, fl) in effects(g).reads if a == LAZY}
        r.ob("create_regex:reads", reads == {"regex", "ignore_case"}, g.site, "create_regex reads %s" % sorted(reads))
        pv = Prov(g, copies=True)
        okp = okc = False
        for bi, t, cal in g.calls():
            if cal and cal.adt == "regex::RegexBuilder" and cal.name == "new":
                okp = pv.operand(t["args"][0]) == ("field", ("param", 1), "regex", LAZY)
            if cal and cal.name == "case_insensitive":
                okc = pv.operand(t["args"][1]) == ("field", ("param", 1), "ignore_case", LAZY)
        r.ob("create_regex:pattern", okp, g.site, "the builder receives self.regex")
        r.ob("create_regex:case-flag", okc, g.site, "case_insensitive(self.ignore_case)")
    ctx.run_rule("R12.2", "compile() preserves pattern and flags; create_regex depends on them only", body, floor=7)


ALLOWED_WRITES = {("regex_radix_tree::leaf::Leaf", "regex"), ("regex_radix_tree::node::Node", "regex")}


def r12_3(ctx):
    F = ctx.facts

    def body(r):
        closure = set(T.adt_closure(F, [LY.ROUTER, "api::rule::Rule"]))
        roots = [F.method(LY.ROUTER, "cache"), F.method("regex_radix_tree::tree::RegexTreeMap", "cache"), F.method("regex_radix_tree::tree::UniqueRegexTreeMap", "cache"), F.method("router::route::Route", "compile")]
        w = transitive_writes(F, roots)
        cg = F.callgraph()
        reach = cg.reachable(roots)
        r.note("%d bodies reachable from the cache entry points" % len(reach))
        n = 0
        for (adt, fld), hows in sorted(w.items()):
            if adt not in closure:
                continue
            n += 1
            ok = (adt, fld) in ALLOWED_WRITES
            who = sorted({h[0] for h in hows})
            r.ob("effects:%s.%s" % (adt.rsplit("::", 1)[1], fld), ok, hows[0][2], "written from the cache warm-up by %s%s" % (who[:3], "" if ok else ": buckets, values, counts and tree shape must not be writable from cache()"))
        r.ob("effects:regex-fields-written", n >= 2, "", "%d router-state fields writable from cache()" % n)
        # interior-mutable writes reachable from cache: only MarkerString::compile
        for p in sorted(reach):
            g = F.fns[p]
            for bi, t, cal in g.calls():
                if cal and cal.name in ("write", "try_write", "lock", "get_mut", "borrow_mut", "set", "replace") and cal.adt and T.is_interior_mut(cal.adt):
                    r.ob("effects:lock-writer:%s" % g.key, g.key == "marker::MarkerString::compile", g.loc(span_line(t["s"])), "%s takes write access to an interior-mutable cell" % g.key)
        # the cache fields are assigned compile() of their previous value
        for adt in ("regex_radix_tree::leaf::Leaf", "regex_radix_tree::node::Node"):
            m = F.method(adt, "cache")
            r.analysed(m)
            ok = False
            n_w = 0
            for p in Sym(m, copies=False).paths():
                for e in p.events:
                    if e[0] == "write" and e[1] == ("field", ("param", 1), "regex", adt):
                        n_w += 1
                        v = e[2]
                        ok = v[0] == "call" and v[1] == "std::sync::Arc::new" and v[2][0][0] == "call" and v[2][0][1] == LAZY + "::compile" and mentions(v[2][0][2][0], lambda x: x == ("field", ("param", 1), "regex", adt))
                        if not ok:
                            r.ob("effects:%s::cache:stores-own-compile" % adt.rsplit("::", 1)[1], False, m.site, "regex := %s" % show(v, m))
            r.ob("effects:%s::cache:stores-own-compile" % adt.rsplit("::", 1)[1], ok and n_w >= 1, m.site, "regex := Arc::new(self.regex.compile())")
        # the whole matching side takes &self
        for name in ("find", "get", "len", "is_empty", "trace"):
            m = F.method("regex_radix_tree::tree::RegexTreeMap", name)
            t0 = F.types[m.j["inputs"][0]]
            r.ob("effects:RegexTreeMap::%s:&self" % name, t0["k"] == "ref" and not t0["mut"], m.site, "takes %s" % t0["s"])
    ctx.run_rule("R12.3", "effect inventory of the cache warm-up", body, floor=10)


def r12_4(ctx):
    F = ctx.facts

    def body(r):
        ok, problems = c07.budget_invariant(F)
        r.ob("budget:non-zero-on-entry", ok, F.method("regex_radix_tree::item::Item", "cache").site, "Leaf::cache / Node::cache run only with a non-zero budget" if ok else "; ".join(problems))
        # Router::cache loops are bounded: the level loop runs while the budget is positive and stops after 5 idle rounds
        f = F.method(LY.ROUTER, "cache")
        r.analysed(f)
        pv = Prov(f, copies=True)
        from riolib.guards import Tests
        tests = Tests(f, pv)
        heads = sorted({h for _, h in f.back_edges()})
        r.ob("budget:router-loops", len(heads) == 2, f.site, "%d loops in Router::cache" % len(heads))
        has_retry = any(atom[0] == "bin" and atom[1] == "Gt" and atom[3] == ("const", 5) for atom, tb, fb, sb in tests.bool_edges)
        r.ob("budget:retry-bound", has_retry, f.site, "the level loop gives up after 5 rounds without progress")
    ctx.run_rule("R12.4", "cache budget arithmetic and loop bounds", body, floor=3)


def r12_5(ctx, rid="R12.5"):
    F = ctx.facts

    def body(r):
        from .c02 import marker_compile_stores_own
        ok, why = marker_compile_stores_own(F)
        r.ob("capture-regex:compile-stores-own-compile", ok, F.fn("marker::MarkerString::compile").site, why)
        # new regexes built while the tree is reshaped start uncompiled (a compiled automaton must
        # never be inherited by a regex with another pattern)
        for name in ("new_leaf", "new_node"):
            f = F.method(LAZY, name)
            vals = set()
            for p in Sym(f, copies=True).paths():
                if p.end[0] == "ret" and p.end[1][0] == "agg":
                    vals.add(dict(p.end[1][3]).get("compiled"))
            r.ob("fresh-regex-uncompiled:%s" % name, vals == {("agg", "std::option::Option", "None", ())}, f.site, "LazyRegex::%s starts with compiled = %s" % (name, [show(v, f) for v in vals]))
    ctx.run_rule(rid, "compiled automata belong to the pattern they were compiled from", body, floor=3)


def r12_7(ctx):
    F = ctx.facts

    def body(r):
        # who looks at the cache state: the regex itself (to choose between the compiled automaton and a throw-away
        # build of the same pattern) and the warm-up (to skip / count what is compiled).  A decision of the tree
        # that reads it -- where a value is stored, whether a node is collapsed, which child is visited -- makes
        # the structure, and with it traces and answers, depend on whether and when cache() ran.
        readers = {}
        for g in F.fn_list:
            if g.derived:
                continue
            e = effects(g)
            if (LAZY, "compiled") in e.reads or any(k[0] == LAZY and k[1] == "compiled" for k in e.writes):
                owner = g
                while owner.is_closure and owner.parent and owner.parent in F.fns:
                    owner = F.fns[owner.parent]
                readers.setdefault(owner.key, owner)
        n = 0
        for key, g in sorted(readers.items()):
            ok = g.adt == LAZY or g.name in ("cache", "cached_len")
            n += 1
            r.ob("cache-state-reader:%s" % key, ok, g.site, "%s looks at LazyRegex.compiled%s" % (key, "" if ok else ": only the regex itself and the warm-up (cache / cached_len) may"))
        if n < 4:
            r.missing("readers of LazyRegex.compiled (found %d)" % n)
    ctx.run_rule("R12.7", "only the regex and the warm-up look at the cache state", body, floor=4)


def run(ctx):
    from .c08 import r08_1
    r08_1(ctx, rid="R12.6")  # a node decides with its (lazy or compiled) regex: no other shortcut depends on the cache state
    r12_5(ctx)
    r12_1(ctx)
    r12_2(ctx)
    r12_3(ctx)
    r12_4(ctx)
    r12_7(ctx)
