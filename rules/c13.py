"""C13 — header filters implement add / remove / replace / override / default exactly.

R13.1 dispatch table of create_header_action (string constant -> constructed operation, fields
      taken from the filter's header/value), unknown -> None, FilterHeaderAction::new skips None.
R13.2 per-operation decision tables over the atom M = "names equal", compared with the five
      reference operations as *functions* (assignment -> effects on the result list).
R13.3 both operands of every header-name comparison are lower-cased.
R13.4 FilterHeaderAction::filter folds the actions in forward order, threading the list.
R13.5 Action::filter_headers keeps every header filter admitted by its response-code guard, in order.
"""
from riolib.core import MissingAnchor
from riolib.prov import Prov, show, mentions, walk, mentions_field
from riolib.sym import Sym, for_loops

THOROUGH_CONFIGS = ['dot', 'nodefault', 'compress', 'router']


TRAIT = "filter::header_action::HeaderAction"
HEADER = "http::header::Header"

DISPATCH_REF = {
    "add": "filter::header_action::header_add::HeaderAddAction",
    "remove": "filter::header_action::header_remove::HeaderRemoveAction",
    "replace": "filter::header_action::header_replace::HeaderReplaceAction",
    "override": "filter::header_action::header_override::HeaderOverrideAction",
    "default": "filter::header_action::header_default::HeaderDefaultAction",
}

# reference operation tables: per matching item / per non-matching item: (keep item, emit new);
# tail: emit new when some item matched / when none matched
OPS_REF = {
    "HeaderAddAction": {"M": (1, 0), "N": (1, 0), "tail_found": 1, "tail_none": 1},
    "HeaderRemoveAction": {"M": (0, 0), "N": (1, 0), "tail_found": 0, "tail_none": 0},
    "HeaderReplaceAction": {"M": (0, 1), "N": (1, 0), "tail_found": 0, "tail_none": 0},
    "HeaderOverrideAction": {"M": (0, 1), "N": (1, 0), "tail_found": 0, "tail_none": 1},
    "HeaderDefaultAction": {"M": (1, 0), "N": (1, 0), "tail_found": 0, "tail_none": 1},
}

MUTATORS_OK = {"push"}


def is_name_cmp(atom):
    """atom is eq/ne call between two strings; returns (is_eq, a, b) or None"""
    if atom[0] != "call":
        return None
    key = atom[1]
    if not (key.endswith("::eq") or key.endswith("::ne")) or "PartialEq" not in key:
        return None
    if len(atom[2]) != 2:
        return None
    return (key.endswith("::eq"), atom[2][0], atom[2][1])


def lowered(e):
    return e[0] == "call" and e[1] in ("str::to_lowercase", "str::to_ascii_lowercase", "std::string::String::to_lowercase")


def strip_lower(e):
    return e[2][0] if lowered(e) else e


def r13_1(ctx):
    F = ctx.facts

    def body(r):
        f = F.fn("filter::header_action::create_header_action")
        r.analysed(f)
        table = {}
        for p in Sym(f, copies=True).paths():
            if p.end[0] != "ret":
                continue
            trues = []
            for atom, v in p.conds:
                c = is_name_cmp(atom)
                if c is None:
                    r.ob("dispatch:unexpected-condition", False, f.site, "dispatch depends on %s" % show(atom, f))
                    continue
                iseq, a, b = c
                const = b if b[0] == "const" else a
                other = a if const is b else b
                if const[0] != "const" or not isinstance(const[1], str):
                    r.ob("dispatch:non-constant", False, f.site, "comparison against non-constant %s" % show(const, f))
                    continue
                if not mentions_field(other, "action", "api::header_filter::HeaderFilter"):
                    r.ob("dispatch:wrong-field", False, f.site, "comparison on %s, not on the filter's action" % show(other, f))
                if (v == 1) == iseq:
                    trues.append(const[1])
            ret = p.end[1]
            built = None
            fields = {}
            for x in walk(ret):
                if x[0] == "agg" and x[1] and x[1].startswith("filter::header_action::"):
                    built = x[1]
                    fields = dict(x[3])
            if ret[0] == "agg" and ret[2] == "None":
                built = None
            key = trues[0] if len(trues) == 1 else (None if not trues else tuple(trues))
            table[key] = (built, fields)
        for name, adt in DISPATCH_REF.items():
            got = table.get(name, ("<missing>", {}))
            r.ob("dispatch:%s" % name, got[0] == adt, f.site, "operation '%s' builds %s (expected %s)" % (name, got[0], adt))
            if got[0] == adt:
                flds = got[1]
                okn = "name" in flds and mentions_field(flds["name"], "header", "api::header_filter::HeaderFilter")
                r.ob("dispatch:%s:name" % name, okn, f.site, "name taken from %s" % show(flds.get("name"), f))
                if "value" in flds:
                    okv = mentions_field(flds["value"], "value", "api::header_filter::HeaderFilter")
                    r.ob("dispatch:%s:value" % name, okv, f.site, "value taken from %s" % show(flds.get("value"), f))
        r.ob("dispatch:unknown->None", table.get(None, ("?",))[0] is None and None in table, f.site,
             "unknown operation yields %s" % (table.get(None, ("<no such path>",))[0],))
        extra = [k for k in table if k is not None and k not in DISPATCH_REF]
        r.ob("dispatch:no-extra-operations", not extra, f.site, "extra operation names: %s" % extra)
        # FilterHeaderAction::new skips None and keeps Some in order
        g = F.fn("filter::filter_header::FilterHeaderAction::new")
        r.analysed(g)
        loops = for_loops(g)
        ok = False
        for lp in loops:
            for p in Sym(g, copies=True).paths(start=lp.body, region=lp.blocks()):
                for atom, v in p.conds:
                    if atom[0] == "disc" and mentions(atom[1], lambda x: x[0] == "call" and x[1].endswith("create_header_action")):
                        pushes = [e for e in p.events if e[0] == "call" and e[1] == "std::vec::Vec::push"]
                        if v == "Some" and pushes:
                            ok = True
                        if v == "None" and pushes:
                            r.ob("new:none-pushed", False, g.site, "a None action is pushed")
        r.ob("new:some-kept", ok, g.site, "FilterHeaderAction::new keeps every Some(action) in iteration order")

    ctx.run_rule("R13.1", "dispatch table of create_header_action", body, floor=8)


def summarize_op(f):
    """Extract the list-transformer summary of a HeaderAction::filter body.
    Returns (summary dict, problems list, name-comparison atoms)."""
    problems = []
    atoms = []
    pv = Prov(f, copies=True)
    loops = [lp for lp in for_loops(f, pv) if mentions(lp.source, lambda x: x == ("param", 2))]
    if len(loops) > 1:
        return None, ["more than one loop over the header list"], atoms
    s = Sym(f, copies=True)

    def is_new(e):
        if e[0] != "agg" or e[1] != HEADER:
            return False
        d = dict(e[3])
        return d.get("name") == ("field", ("param", 1), "name", f.adt) and d.get("value") == ("field", ("param", 1), "value", f.adt)

    # which vector is returned?  (`_0 = move _X` in the normal flow)
    rets = set()
    ret_locals = set()
    for p in s.paths():
        if p.end[0] == "ret":
            rets.add(p.end[1])
    for bi, si, st in f.assigns():
        if st["p"] == [0, []] and st["r"]["k"] == "use":
            pl = st["r"]["o"].get("m") or st["r"]["o"].get("c")
            if pl and not pl[1]:
                ret_locals.add(pl[0])
    if len(rets) != 1 or len(ret_locals) != 1:
        return None, ["return value is not a single vector: %s" % [show(x, f) for x in rets]], atoms
    ret0 = rets.pop()
    rl = ret_locals.pop()
    if ret0[0] in ("local", "havoc") and ret0[1] != rl:
        rl = ret0[1]  # the vector that is built, when it is handed over through another variable
    in_place = ret0 == ("param", 2) or rl == 2
    inits = set()
    for p in s.paths():
        for e in p.events:
            if e[0] == "init" and e[1] == rl:
                inits.add(e[3])
    # the vector may be handed from one variable to another (built by a helper, finished by the caller)
    chain = [rl]
    while len(inits) == 1 and next(iter(inits))[0] == "local" and next(iter(inits))[1] not in chain and len(chain) < 4:
        k = next(iter(inits))[1]
        chain.append(k)
        inits = {e[3] for p in s.paths() for e in p.events if e[0] == "init" and e[1] == k}
    fresh = (not in_place) and inits == {("call", "std::vec::Vec::new", ())}
    if not in_place and not fresh:
        # anything else (iterator chains, collect) is not one of the two idioms of this code base
        return None, ["result is neither the input vector nor a fresh Vec::new(): %s" % sorted(show(x, f) for x in (inits or {ret0}))], atoms
    ret_forms = {ret0} | {("local", k) for k in chain} | {("param", k) for k in chain}

    replaced = [False]

    def effects(path, item_local=None):
        keep = new = 0
        found_set = None
        replaced[0] = False
        for e in path.events:
            if e[0] == "call":
                key, args = e[1], e[2]
                if key.startswith("std::vec::Vec::") and args and args[0] in ret_forms:
                    m = key.rsplit("::", 1)[1]
                    if m == "push":
                        v = args[1]
                        if is_new(v):
                            new += 1
                        elif mentions(v, lambda x: x[0] == "call" and x[1].endswith("Iterator>::next")) or (item_local is not None and mentions(v, lambda x: x == ("local", item_local))):
                            keep += 1
                        else:
                            problems.append("pushes something that is neither the current item nor name/value of self: %s" % show(v, f))
                    elif m not in ("new", "len", "is_empty", "iter", "into_iter", "iter_mut", "retain"):  # (retain is read separately)
                        problems.append("result vector is modified by %s" % key)
            elif e[0] == "set" and e[3][0] == "const" and isinstance(e[3][1], bool):
                found_set = (e[1], e[3][1])
            elif e[0] == "write" and is_new(e[2]) and in_place and mentions(e[1], lambda x: x[0] == "call" and x[1].endswith("Iterator>::next")):
                # `*item = Header { name, value }` while iterating the returned vector by `iter_mut()`:
                # the item is replaced where it stands
                new += 1
                replaced[0] = True
        return keep, new, found_set

    def m_value(path):
        """value of atom M on this path (True/False/None)."""
        mv = None
        for atom, v in path.conds:
            c = is_name_cmp(atom)
            if c is None:
                continue
            atoms.append(atom)
            iseq, a, b = c
            mv = (v == 1) == iseq
        return mv

    summ = {"M": None, "N": None, "tail_found": None, "tail_none": None}
    flag_local = None
    if loops:
        lp = loops[0]
        item_local = f.blocks[lp.next_block]["term"]["dest"][0]
        region = lp.blocks()
        per = {True: set(), False: set()}
        flags = {True: set(), False: set()}
        for p in lp.iteration_paths(s):
            mv = m_value(p)
            if mv is None:
                problems.append("a loop path does not test the header name")
                continue
            k, n, fs = effects(p, item_local)
            if in_place:
                k = 0 if replaced[0] else 1  # iterating the vector that is returned: items stay unless replaced
            per[mv].add((k, n))
            flags[mv].add(fs)
        for mv, key in ((True, "M"), (False, "N")):
            if len(per[mv]) != 1:
                problems.append("effects on the result list for %s depend on something else than the name test: %s" % (key, sorted(per[mv])))
            else:
                k, n = next(iter(per[mv]))
                summ[key] = (k, n)
        fm = {x for x in flags[True] if x}
        fn_ = {x for x in flags[False] if x}
        if fm and not fn_:
            if len(fm) == 1 and next(iter(fm))[1] is True:
                flag_local = next(iter(fm))[0]
        elif fn_:
            problems.append("a flag is written on the non-matching path")
        # pre-loop: nothing may be pushed before the loop; flag must start false
        for p in s.paths(start=0, stops={lp.next_block}):
            if p.end[0] != "stop":
                continue
            k, n, fs = effects(p)
            if k or n:
                problems.append("something is pushed before the loop")
            if flag_local is not None:
                init = [e for e in p.events if e[0] == "set" and e[1] == flag_local]
                if not init or init[-1][3] != ("const", False):
                    problems.append("the found flag is not initialised to false")
        # tail
        tails = {True: set(), False: set(), None: set()}
        for p in s.paths(start=lp.exit):
            if p.end[0] != "ret":
                continue
            fv = None
            for atom, v in p.conds:
                if flag_local is not None and atom == ("local", flag_local):
                    fv = bool(v)
            k, n, _ = effects(p)
            if k:
                problems.append("an item is pushed after the loop")
            tails[fv].add(n)
        if flag_local is None or tails[None]:
            allv = tails[None] | tails[True] | tails[False]
            if len(allv) != 1:
                problems.append("tail effects vary without a found flag: %s" % sorted(allv))
            else:
                summ["tail_found"] = summ["tail_none"] = next(iter(allv))
        else:
            for fv, key in ((True, "tail_found"), (False, "tail_none")):
                if len(tails[fv]) != 1:
                    problems.append("tail effects for %s vary: %s" % (key, sorted(tails[fv])))
                else:
                    summ[key] = next(iter(tails[fv]))
    else:
        if not in_place:
            return None, ["no loop over the input and the input is not returned"], atoms
        summ["M"] = summ["N"] = (1, 0)
        # `headers.retain(|h| keep(h))` on the vector that is returned: an in-place filter
        from riolib.prov import resolve_captures
        for bi, t_, cal in f.calls():
            if cal and cal.adt == "std::vec::Vec" and cal.name == "retain" and pv.operand(t_["args"][0]) in ret_forms | {("param", 2)}:
                cl = None
                for tix in cal.substs:
                    ty = f.facts.types[tix]
                    if ty.get("k") == "closure":
                        cl = f.facts.fns.get(ty["def"])
                rets_c = {p.end[1] for p in Sym(cl, copies=True).paths() if p.end[0] == "ret"} if cl is not None else set()
                c = is_name_cmp(next(iter(rets_c))) if len(rets_c) == 1 else None
                if c is None:
                    problems.append("retain with a predicate that is not a single name comparison")
                    continue
                iseq, a_, b_ = c
                atom = ("call", next(iter(rets_c))[1], (resolve_captures(a_, cl), resolve_captures(b_, cl)))
                atoms.append(atom)
                # kept <=> predicate true
                summ["M"] = (1, 0) if iseq else (0, 0)
                summ["N"] = (0, 0) if iseq else (1, 0)
        allv = set()
        for p in s.paths():
            if p.end[0] != "ret":
                continue
            k, n, _ = effects(p)
            allv.add(n)
        if len(allv) != 1:
            problems.append("effects vary: %s" % sorted(allv))
        else:
            summ["tail_found"] = summ["tail_none"] = next(iter(allv))
    return summ, problems, atoms


def r13_2_3(ctx):
    F = ctx.facts
    # the operations are read from their loop: iterator chains are written out first
    impls = [F.loop_form(f) for f in F.fn_list if f.trait == TRAIT and f.name == "filter" and not f.root]
    summaries = {}

    def body2(r):
        for f in impls:
            r.analysed(f)
            short = f.adt.rsplit("::", 1)[1]
            ref = OPS_REF.get(short)
            if ref is None:
                r.ob("op:%s:unknown-operation" % short, False, f.site, "no reference table for this HeaderAction impl")
                continue
            summ, problems, atoms = summarize_op(f)
            summaries[f.key] = (f, atoms)
            if summ is None:
                r.ob("op:%s:extract" % short, False, f.site, "cannot extract the operation table: %s" % "; ".join(problems))
                continue
            for pr in sorted(set(problems)):
                r.ob("op:%s:shape:%s" % (short, pr), False, f.site, pr)
            for k in ("M", "N", "tail_found", "tail_none"):
                r.ob("op:%s:%s" % (short, k), summ[k] == ref[k], f.site,
                     "%s: row %s is %s, reference %s ((keep item, emit new) / emit new at end)" % (short, k, summ[k], ref[k]), data={"summary": summ, "reference": ref})
        missing = set(OPS_REF) - {f.adt.rsplit("::", 1)[1] for f in impls}
        for m in sorted(missing):
            r.ob("op:%s:missing" % m, False, "", "no HeaderAction impl for %s" % m)

    ctx.run_rule("R13.2", "operation decision tables vs the five reference operations", body2, floor=20)

    def body3(r):
        for key, (f, atoms) in sorted(summaries.items()):
            short = f.adt.rsplit("::", 1)[1]
            seen = set()
            for atom in atoms:
                if atom in seen:
                    continue
                seen.add(atom)
                iseq, a, b = is_name_cmp(atom)
                ok = lowered(a) and lowered(b)
                la, lb = strip_lower(a), strip_lower(b)
                sides = {mentions_field(la, "name", HEADER), mentions_field(lb, "name", HEADER)} and (mentions_field(la, "name", f.adt) or mentions_field(lb, "name", f.adt))
                r.ob("cmp:%s:lowercase" % short, ok, f.site, "name comparison %s: both operands lower-cased=%s" % (show(atom, f), ok))
                r.ob("cmp:%s:operands" % short, bool(sides), f.site, "comparison is between the item's name and the configured name")
        # impls with a loop must compare names at all
        for f in impls:
            short = f.adt.rsplit("::", 1)[1]
            if OPS_REF.get(short, {}).get("M") != OPS_REF.get(short, {}).get("N") or OPS_REF.get(short, {}).get("tail_found") != OPS_REF.get(short, {}).get("tail_none"):
                r.ob("cmp:%s:present" % short, bool(summaries.get(f.key, (None, []))[1]), f.site, "operation depends on the name and performs a name comparison")

    ctx.run_rule("R13.3", "case-insensitive comparison discipline", body3, floor=8)


def r13_4(ctx):
    F = ctx.facts

    def body(r):
        f = F.fn("filter::filter_header::FilterHeaderAction::filter")
        r.analysed(f)
        pv = Prov(f, copies=False, sites=False)
        loops = for_loops(f, pv)
        r.ob("fold:one-loop", len(loops) == 1, f.site, "%d loops" % len(loops))
        if len(loops) != 1:
            return
        lp = loops[0]
        src_ok = lp.source == ("field", ("param", 1), "actions", "filter::filter_header::FilterHeaderAction")
        r.ob("fold:forward-over-actions", src_ok, f.loc(lp.line), "loop iterates %s (must be self.actions, unreversed, unfiltered)" % show(lp.source, f))
        s = Sym(f)
        # the list is threaded through a variable V (the parameter itself, or an accumulator initialised
        # from it): each action receives V and its result is stored back into V
        threaded = False
        V = None
        for p in s.paths(start=lp.body, region=lp.blocks()):
            for e in p.events:
                if e[0] == "call" and e[1] == TRAIT + "::filter":
                    args = e[2]
                    sets = [x for x in p.events if x[0] == "set" and x[3] == e[3]]
                    if sets and args[1] in (("param", sets[-1][1]), ("local", sets[-1][1])):
                        threaded = True
                        V = sets[-1][1]
        init_ok = V == 2
        if V is not None and V != 2:
            for p in s.paths(start=0, stops={lp.next_block}):
                if p.end[0] == "stop":
                    ini = [x for x in p.events if x[0] == "set" and x[1] == V]
                    init_ok = bool(ini) and ini[-1][3] in (("param", 2), ("local", 2))
        # ... and no action is skipped: every way round the loop applies the action of that iteration
        its = [p for p in lp.iteration_paths(Sym(f, copies=True))]
        skipped = [p for p in its if not any(e[0] == "call" and e[1] == TRAIT + "::filter" for e in p.events)]
        r.ob("fold:every-action-applied", bool(its) and not skipped, f.loc(lp.line), "%d of %d ways round the loop do not call the action's filter" % (len(skipped), len(its)))
        r.ob("fold:threads-list", threaded and init_ok, f.loc(lp.line), "each action receives the list produced by the previous one (starting from the caller's list) and its result replaces it")
        rets = {p.end[1] for p in s.paths(start=lp.exit) if p.end[0] == "ret"}
        r.ob("fold:returns-list", V is not None and rets <= {("param", V), ("local", V)} and bool(rets), f.site, "returns %s" % [show(x, f) for x in rets])

        # the chain is built with one action per filter, in the order given: nothing decides whether a
        # filter is kept except that its operation is known
        g = F.fn("filter::filter_header::FilterHeaderAction::new")
        r.analysed(g)
        lps = for_loops(g)
        okb = len(lps) == 1 and lps[0].source in (("param", 1), ("call", "core::slice::iter", (("param", 1),)), ("call", "std::vec::Vec::iter", (("param", 1),)))
        detail = "%d loops" % len(lps)
        if okb:
            kinds = set()
            for p in lps[0].iteration_paths(Sym(g, copies=True)):
                made = [e for e in p.events if e[0] == "call" and e[1] == "filter::header_action::create_header_action"]
                pushed = [e for e in p.events if e[0] == "call" and e[1] == "std::vec::Vec::push"]
                other = [a for a, v in p.conds if not (a[0] == "disc" and made and a[1] == made[0][3]) and not (a[0] == "call" and a[1].endswith("is_some") and made and a[2][0] == made[0][3])]
                res = [v for a, v in p.conds if made and ((a[0] == "disc" and a[1] == made[0][3]) or (a[0] == "call" and a[2] and a[2][0] == made[0][3]))]
                known = res and res[0] in ("Some", 1)
                kinds.add((len(made) == 1 and not other and bool(pushed) == bool(known) and (not pushed or mentions(pushed[0][2][1], lambda x: x == made[0][3])) and p.end[0] == "stop"))
            okb = kinds == {True}
            detail = "each iteration builds the action of its filter and keeps it iff the operation is known"
        r.ob("chain:one-action-per-filter", okb, g.site, detail if okb else "FilterHeaderAction::new does not keep exactly the filters whose operation is known, in order (%s)" % detail)
    ctx.run_rule("R13.4", "FilterHeaderAction::filter folds in forward order", body, floor=6)


def r13_5(ctx):
    """Action::filter_headers hands *every* header filter admitted by its response-code guard to
    FilterHeaderAction, in the stored (rule) order: nothing about the filter's own contents or about
    earlier filters may drop or reorder it."""
    F = ctx.facts
    from .c05 import loop_guard, PUSH_HEADER_FILTER

    def body(r):
        f = F.fn("action::Action::filter_headers")
        r.analysed(f)
        loop_guard(F, r, f, "header_filters", PUSH_HEADER_FILTER, "filter_headers:every-admitted-filter-kept", 3)
        lps = [lp for lp in for_loops(f) if mentions_field(lp.source, "header_filters", "action::Action")]
        if len(lps) != 1:
            return
        lp = lps[0]
        fwd = not mentions(lp.source, lambda x: x[0] == "call" and any(w in x[1] for w in ("::rev", "::filter", "::skip", "::take", "::step_by", "::sort")))
        r.ob("filter_headers:forward-order", fwd, f.loc(lp.line), "the loop walks %s front to back" % show(lp.source, f))
        s = Sym(f, copies=True)
        pushed_to = set()
        for p in lp.iteration_paths(s):
            for e in p.events:
                if PUSH_HEADER_FILTER(e):
                    pushed_to.add(e[2][0])
        handed = set()
        ret_ok = True
        n_ret = 0
        for p in s.paths(start=lp.exit):
            if p.end[0] != "ret":
                continue
            n_ret += 1
            for e in p.events:
                if e[0] == "call" and e[1] == "filter::filter_header::FilterHeaderAction::new":
                    handed.add(e[2][0])
            # the returned list is FilterHeaderAction::filter(.., headers, ..) or, when no filter was built, headers
            val = p.end[1]
            if val[0] == "local":
                inits = [e[3] for e in p.events if e[0] in ("init", "set") and e[1] == val[1]]
                val = inits[-1] if inits else val
            built = dict(p.conds).get(("disc", ("call", "filter::filter_header::FilterHeaderAction::new", tuple(handed)[:1]), "std::option::Option")) if handed else None
            via_fold = val[0] == "call" and val[1] == "filter::filter_header::FilterHeaderAction::filter" and val[2][1] == ("param", 2)
            if not ((built == "Some" and via_fold) or (built == "None" and val == ("param", 2))):
                ret_ok = False
        same = len(pushed_to) == 1 and len(handed) == 1 and (pushed_to == handed or all(mentions(h, lambda x: x in pushed_to) for h in handed))
        r.ob("filter_headers:list-reaches-FilterHeaderAction", same, f.site, "the list the loop pushes to (%s) is the one handed to FilterHeaderAction::new (%s)" % ([show(x, f) for x in pushed_to], [show(x, f) for x in handed]))
        r.ob("filter_headers:result-from-input-headers", ret_ok and n_ret >= 1, f.site, "every return derives from the caller's header list (%d paths)" % n_ret)

    ctx.run_rule("R13.5", "every admitted header filter reaches the fold, in order", body, floor=4)


def run(ctx):
    r13_1(ctx)
    r13_2_3(ctx)
    r13_4(ctx)
    r13_5(ctx)
