"""C14 — filtering a compressed body equals filtering its decompressed form (structural conditions).

What is decided: the in-repo wiring that every run of the codecs relies on — which codec a
Content-Encoding name selects on both ends, where the stages sit in the chain, that each codec arm
is fed the whole chunk, hands out exactly the bytes it removes from the codec's buffer, and that
end() finishes the codec that saw the stream and returns what it wrote.  What the third-party
codecs emit for a given split of the stream is not decided (trusted).
"""
from riolib.core import MissingAnchor
from riolib.prov import show, mentions
from riolib.sym import Sym

THOROUGH_CONFIGS = ['compress']

MANIFEST = {
    "text": "Static decision of the in-repo wiring of the codec stages (not of the third-party codecs' output, which is trusted): a Content-Encoding name selects the same algorithm for the decoding and the encoding stage and each algorithm is served by the codec family of that name (R14.1, R14.2); decode stage first / encode stage last, only around built filters, unsupported names give an empty chain (R14.3 = R04.5); every codec arm of filter() hands the whole chunk to write_all and returns exactly the bytes it removes from the codec's output buffer — nothing left behind to be emitted twice, nothing dropped (R14.4, six sibling arms compared); every arm of end() finishes the codec that saw the stream and returns what the finishing call yields (R14.5); the stage dispatcher calls the same-named operation of each codec stage and propagates its error (R14.6); stages are threaded in chain order at filter and at end (R14.7 = R03.4); no codec error is dropped (R14.8 = R04.2 on filter::encoding). Validity of the produced stream and equality after decompression for every split are run-time facts of flate2 / brotli and are not decided.",
    "technique": "static analysis: sibling cross-check of the codec arms (path-sensitive decision tables over MIR), provenance of returned buffers, dispatch tables",
}

DEC = "filter::encoding::decode::DecodeFilterBody"
ENC = "filter::encoding::encode::EncodeFilterBody"
ITEM = "filter::filter_body::FilterBodyActionItem"
GEF = "filter::encoding::get_encoding_filters"

NAME_TO_ALGO = {"br": "Brotli", "gzip": "Gzip", "deflate": "Deflate"}
# algorithm -> (decoder type, encoder type) last path segment of the constructor's self type
FAMILY = {
    "Gzip": ("GzDecoder", "GzEncoder"),
    "Deflate": ("ZlibDecoder", "ZlibEncoder"),
    "Brotli": ("DecompressorWriter", "CompressorWriter"),
}
EMPTY_VEC = {"std::vec::Vec::new", "std::vec::Vec::with_capacity", "<std::vec::Vec as std::default::Default>::default"}
TAKERS = {"std::mem::take", "std::mem::replace", "std::vec::Vec::split_off", "std::vec::Vec::drain"}
FINISHERS = ("::finish", "::into_inner")


def _is_call(x, suffixes):
    return isinstance(x, tuple) and x and x[0] == "call" and any(x[1].endswith(s) for s in suffixes)


def _mentions_self(x):
    return mentions(x, lambda y: y == ("param", 1))


def _algo_of(x):
    """the SupportedEncoding variant an expression is (through clone)"""
    if isinstance(x, tuple) and x and x[0] == "call" and x[1].endswith("Clone>::clone") and x[2]:
        return _algo_of(x[2][0])
    if isinstance(x, tuple) and x and x[0] == "agg" and x[1].endswith("SupportedEncoding"):
        return x[2]
    return None


def r14_1(ctx):
    F = ctx.facts

    def body(r):
        f = F.fn(GEF)
        r.analysed(f)
        seen = {}
        for p in Sym(f, copies=True).paths():
            if p.end[0] != "ret":
                continue
            trues = [x[1] for a, v in p.conds if v == 1 and a[0] == "call" and "PartialEq" in a[1] for x in a[2] if x[0] == "const" and isinstance(x[1], str)]
            ret = p.end[1]
            if not trues:
                r.ob("select:other-names->none", ret[0] == "agg" and ret[2] == "None", f.site, "a name that is none of the supported ones selects no codec: returns %s" % show(ret, f))
                continue
            name = trues[0]
            dec = [e for e in p.events if e[0] == "call" and e[1] == DEC + "::new"]
            enc = [e for e in p.events if e[0] == "call" and e[1] == ENC + "::new"]
            ok = len(dec) == 1 and len(enc) == 1
            da = _algo_of(dec[0][2][0]) if dec else None
            ea = _algo_of(enc[0][2][0]) if enc else None
            ok = ok and da == ea == NAME_TO_ALGO.get(name)
            # the pair handed back is (that decoder, that encoder), in this order
            if ok:
                pair = ret[3][0][1] if ret[0] == "agg" and ret[2] == "Some" and ret[3] else None
                ok = bool(pair) and pair[0] == "agg" and len(pair[3]) == 2 and _is_call(pair[3][0][1], [DEC + "::new"]) and _is_call(pair[3][1][1], [ENC + "::new"])
            seen[name] = ok
            r.ob("select:%s" % name, ok, f.site, "'%s' builds the decoder for %s and the encoder for %s (expected %s on both ends)" % (name, da, ea, NAME_TO_ALGO.get(name)))
        for name in NAME_TO_ALGO:
            if name not in seen:
                r.missing("get_encoding_filters arm for '%s'" % name)
    ctx.run_rule("R14.1", "a Content-Encoding name selects the same algorithm on both ends", body, floor=4)


def r14_2(ctx):
    F = ctx.facts

    def body(r):
        for adt, side in ((DEC, 0), (ENC, 1)):
            f = F.method(adt, "new")
            r.analysed(f)
            got = {}
            for p in Sym(f, copies=True).paths():
                if p.end[0] != "ret":
                    continue
                algo = [v for a, v in p.conds if a[0] == "disc" and a[1] == ("param", 1)]
                ret = p.end[1]
                if not algo or ret[0] != "agg":
                    continue
                ctor = []
                mentions(ret, lambda y: ctor.append(y[1]) if (y[0] == "call" and y[1].endswith("::new") and not y[1].startswith("std::")) else False)
                fam = FAMILY.get(algo[0], (None, None))[side]
                ok = ret[2] == algo[0] and bool(ctor) and all(c.split("::")[-2].split("<")[0] == fam for c in ctor)
                got[algo[0]] = ok
                r.ob("family:%s::new:%s" % (adt.split("::")[-1], algo[0]), ok, f.site, "%s -> variant %s built by %s (expected %s)" % (algo[0], ret[2], ctor, fam))
            for a in FAMILY:
                if a not in got:
                    r.missing("%s::new arm for %s" % (adt, a))
    ctx.run_rule("R14.2", "each algorithm is served by the codec family of that name", body, floor=6)


def _buf(x, names=("get_mut", "get_ref")):
    """the codec's output buffer: `codec.get_mut()` / `get_ref()`, also through a function item handed to a helper"""
    if not (isinstance(x, tuple) and x and x[0] == "call"):
        return False
    if x[1].rsplit("::", 1)[-1] in names and x[2] and _mentions_self(x[2][0]):
        return True
    if x[1].rsplit("::", 1)[-1] in ("call_once", "call_mut", "call") and len(x[2]) == 2 and isinstance(x[2][0], tuple):
        fn = x[2][0][1] if x[2][0][0] == "const" else x[2][0]
        if isinstance(fn, tuple) and fn and fn[0] == "fn" and fn[1].rsplit("::", 1)[-1] in names:
            return _mentions_self(x[2][1])
    return False


def _payload(x):
    """does the expression denote (a reference into) the codec held by self's variant payload"""
    return _mentions_self(x)


def r14_4(ctx):
    F = ctx.facts

    def body(r):
        tables = {}
        for adt in (DEC, ENC):
            f = F.method(adt, "filter")
            r.analysed(f)
            arms = {}
            for p in Sym(f, copies=True, max_paths=50000).paths():
                if p.end[0] != "ret":
                    continue
                v = [val for a, val in p.conds if a[0] == "disc" and a[1] == ("param", 1)]
                if not v:
                    continue
                arms.setdefault(v[0], []).append(p)
            for algo in FAMILY:
                ps = arms.get(algo)
                if not ps:
                    r.missing("%s::filter arm for %s" % (adt, algo))
                    continue
                bad = []
                n_ok = 0
                rows = set()
                for p in ps:
                    ret = p.end[1]
                    if not (ret[0] == "agg" and ret[2] == "Ok"):
                        continue
                    n_ok += 1
                    out = ret[3][0][1]
                    # (a) the whole chunk is written
                    wa = [e for e in p.events if e[0] == "call" and e[1].endswith("::write_all") and _payload(e[2][0]) and mentions(e[2][1], lambda y: y == ("param", 2))]
                    partial = [e for e in p.events if e[0] == "call" and e[1].endswith("::write") and _payload(e[2][0])]
                    if not wa or partial:
                        bad.append("the chunk is not handed to write_all of the codec on a normal return (%s)" % ("uses write()" if partial else "no write_all"))
                    # (b) what is returned is removed from the codec's buffer
                    kind = None
                    if out[0] == "local":
                        sw = [e for e in p.events if e[0] == "call" and e[1] == "std::mem::swap" and out in e[2] and any(_buf(a, ("get_mut",)) for a in e[2])]
                        ini = [e for e in p.events if e[0] in ("init", "set") and e[1] == out[1]]
                        if sw and ini and _is_call(ini[0][3], EMPTY_VEC):
                            kind = "swapped-out"
                    if kind is None and mentions(out, lambda y: y[0] == "call" and y[1] in TAKERS and y[2] and _buf(y[2][0], ("get_mut",))):
                        kind = "taken"
                    if kind is None and _is_call(out, EMPTY_VEC):
                        em = [val for a, val in p.conds if a[0] == "call" and a[1] == "std::vec::Vec::is_empty" and _buf(a[2][0])]
                        if em and em[0] == 1:
                            kind = "empty-when-buffer-empty"
                    if kind is None and mentions(out, lambda y: y[0] == "call" and (y[1].endswith("Clone>::clone") or y[1].endswith("::to_vec")) and y[2] and _buf(y[2][0])):
                        cl = [e for e in p.events if e[0] == "call" and e[1] in ("std::vec::Vec::clear", "std::vec::Vec::truncate") and _buf(e[2][0], ("get_mut",))]
                        if cl:
                            kind = "copied-then-cleared"
                    if kind is None:
                        bad.append("returns %s, which is not the content removed from the codec's output buffer" % show(out, f)[:120])
                    rows.add(kind)
                key = "drain:%s::filter:%s" % (adt.split("::")[-1], algo)
                tables[key] = rows
                r.ob(key, not bad and n_ok >= 1, f.site,
                     "on all %d normal returns: chunk -> write_all, output %s" % (n_ok, sorted(x for x in rows if x)) if not bad else "; ".join(sorted(set(bad))[:3]))
        # the codec's buffer is not touched anywhere else (a reader elsewhere would see / remove bytes the arms account for)
        for adt in (DEC,):
            others = []
            for g in F.fn_list:
                if g.derived or g.adt in (DEC, ENC) or g.key.startswith((DEC + "::", ENC + "::")):
                    continue
                for _bi, _t, cal in g.calls():
                    if cal is None:
                        continue
                    if cal.name in ("get_mut", "get_ref") and any(fam in (cal.path or "") or fam == (cal.adt or "").split("::")[-1] for pair in FAMILY.values() for fam in pair):
                        others.append(g.key)
            r.ob("drain:codec-buffers-private", not others, "", "the codecs' output buffers are read only by the stage's own methods%s" % ("" if not others else ": also %s" % sorted(set(others))[:3]))
    ctx.run_rule("R14.4", "every codec arm is fed the whole chunk and hands out exactly what it removes from the codec's buffer", body, floor=7)


def r14_5(ctx):
    F = ctx.facts

    def body(r):
        for adt, side in ((DEC, 0), (ENC, 1)):
            f = F.method(adt, "end")
            r.analysed(f)
            arms = {}
            for p in Sym(f, copies=True, max_paths=50000).paths():
                if p.end[0] != "ret":
                    continue
                v = [val for a, val in p.conds if a[0] == "disc" and a[1] == ("param", 1)]
                if v:
                    arms.setdefault(v[0], []).append(p)
            for algo in FAMILY:
                ps = arms.get(algo)
                if not ps:
                    r.missing("%s::end arm for %s" % (adt, algo))
                    continue
                fam = FAMILY[algo][side]
                bad = []
                n_ok = 0
                for p in ps:
                    ret = p.end[1]
                    if not (ret[0] == "agg" and ret[2] == "Ok"):
                        continue
                    n_ok += 1
                    out = ret[3][0][1]
                    fin = [e for e in p.events if e[0] == "call" and e[1].endswith(FINISHERS) and fam in e[1]]
                    if not fin:
                        bad.append("no finishing call (finish / into_inner) of the %s on a normal return" % fam)
                        continue
                    # the value returned is what a finishing call yields
                    if not mentions(out, lambda y: y[0] == "call" and y[1].endswith(FINISHERS) and fam in y[1]):
                        bad.append("returns %s, not the output of the finishing call" % show(out, f)[:100])
                        continue
                    # the codec finished is the one that was held in self
                    ok_recv = False
                    for e in fin:
                        recv = e[2][0]
                        if _mentions_self(recv):
                            ok_recv = True
                        elif recv[0] in ("havoc", "local"):
                            l = recv[1]
                            ini = [x for x in p.events if x[0] in ("init", "set") and x[1] == l]
                            if ini and mentions(ini[0][3], lambda y: y[0] == "call" and y[1] in ("std::mem::replace", "std::mem::take") and y[2] and _mentions_self(y[2][0])):
                                ok_recv = True
                            for s in p.events:
                                if s[0] == "call" and s[1] == "std::mem::swap" and any(_mentions_self(a) for a in s[2]):
                                    if any(a == ("local", l) or (ini and a == ini[0][3]) for a in s[2]):
                                        ok_recv = True
                        elif mentions(recv, lambda y: y[0] == "call" and y[1] in ("std::mem::replace", "std::mem::take") and y[2] and _mentions_self(y[2][0])):
                            ok_recv = True
                    if not ok_recv:
                        bad.append("the codec that is finished is not the one taken out of self")
                r.ob("finish:%s::end:%s" % (adt.split("::")[-1], algo), not bad and n_ok >= 1, f.site,
                     "on all %d normal returns the %s taken out of self is finished and its output returned" % (n_ok, fam) if not bad else "; ".join(sorted(set(bad))[:3]))
    ctx.run_rule("R14.5", "end() finishes the codec that saw the stream and returns what it wrote", body, floor=6)


def r14_6(ctx):
    F = ctx.facts

    def body(r):
        for op in ("filter", "end"):
            f = F.method(ITEM, op)
            r.analysed(f)
            arms = {}
            for p in Sym(f, copies=True).paths():
                if p.end[0] != "ret":
                    continue
                v = [val for a, val in p.conds if a[0] == "disc" and a[1] == ("param", 1)]
                if v:
                    arms.setdefault(v[0], []).append(p)
            for var, adt in (("Decode", DEC), ("Encode", ENC)):
                ps = arms.get(var)
                if not ps:
                    r.missing("FilterBodyActionItem::%s arm for %s" % (op, var))
                    continue
                bad = []
                kinds = set()
                for p in ps:
                    calls = [e for e in p.events if e[0] == "call" and e[1].startswith("filter::encoding::")]
                    want = adt + "::" + op
                    if [e[1] for e in calls] != [want]:
                        bad.append("calls %s, expected exactly %s" % ([e[1] for e in calls], want))
                        continue
                    c = calls[0]
                    if not _mentions_self(c[2][0]):
                        bad.append("the stage called is not the one held by this item")
                    if op == "filter" and not (len(c[2]) > 1 and c[2][1] == ("param", 2)):
                        bad.append("the stage is not handed the data received")
                    ret = p.end[1]
                    kinds.add(ret[2] if ret[0] == "agg" else "?")
                    if ret[0] == "agg" and ret[2] == "Ok" and not mentions(ret, lambda y: y[0] == "call" and y[1] == want):
                        bad.append("a normal return that is not the stage's output")
                if kinds != {"Ok", "Err"}:
                    bad.append("the stage's error is not propagated (returns seen: %s)" % sorted(kinds))
                r.ob("dispatch:%s:%s" % (op, var), not bad, f.site, "%s item -> %s::%s on the data received, result and error propagated" % (var, adt.split("::")[-1], op) if not bad else "; ".join(sorted(set(bad))[:3]))
    ctx.run_rule("R14.6", "the stage dispatcher calls the same-named operation of each codec stage", body, floor=4)


def run(ctx):
    if "compress" not in ctx.facts.config.get("features", []) and not any("compress" in str(x) for x in ctx.facts.config.get("features", [])):
        try:
            ctx.facts.fn(GEF)
        except MissingAnchor:
            pass
    r14_1(ctx)
    r14_2(ctx)
    from .c04 import r04_5, r04_2
    r04_5(ctx, rid="R14.3") if _accepts_rid(r04_5) else r04_5(ctx)
    r14_4(ctx)
    r14_5(ctx)
    r14_6(ctx)
    from .c03 import r03_4
    r03_4(ctx, rid="R14.7") if _accepts_rid(r03_4) else r03_4(ctx)
    r04_2(ctx, rid="R14.8") if _accepts_rid(r04_2) else r04_2(ctx)


def _accepts_rid(fn):
    import inspect
    return "rid" in inspect.signature(fn).parameters
