"""C15 — HTML filters edit the targeted element as specified (structural conditions).

What is decided: the tables the streaming state machine is built from — which visitor an action
name selects and which filter field lands in which slot; for each visitor, when an edit happens as a
function of the selector state (none / empty / matched / not matched) and what the edited text is
made of, in which order; that `evaluate` answers what the selector engine answers; which handler
calls a token kind triggers (start, void start, self-closing, end); how the filter follows the path
(enter / leave wiring); where the re-tokenising helpers put the new child.  Where the value lands
for every generated DOM is a run-time fact of the token stream and is not decided.
"""
from riolib.core import MissingAnchor
from riolib.prov import show, mentions
from riolib.sym import Sym

THOROUGH_CONFIGS = []

MANIFEST = {
    "text": "Static decision of the tables behind the HTML edit state machine (not of the edit position for every document, which is a run-time fact of the token stream): action name -> visitor and filter field -> visitor slot (R15.1); per visitor, the decision table selector state (none / empty / not matched / matched) x on-target -> (input returned unchanged | edited), the pieces an edited text is made of and their order — value before the end tag for append, after the start tag for prepend, value alone for replace — and input returned unchanged off target (R15.3); evaluate() answers exactly what the selector engine answers, false only when the selector does not parse (R15.4); the re-tokenising helpers insert the child before the closing tag at depth 0 / after the first start tag and keep the rest (R15.5); token kind -> handler calls: start -> enter, void start and self-closing -> enter then leave, end -> leave, with the void-element table equal to the HTML list (R15.6); enter / leave are called exactly on the awaited tag name, the awaited names are taken from the visitor's answer in (enter, leave) order, a buffer is opened exactly when the visitor asks and its content is put in front of the end tag handed to leave (R15.7).",
    "technique": "static analysis: path-sensitive decision tables extracted from MIR and compared with reference tables; sibling cross-check of the three visitors; constant-set extraction",
}

VIS = "filter::html_body_action::HtmlBodyVisitor"
APP = "filter::html_body_action::body_append::BodyAppend"
PRE = "filter::html_body_action::body_prepend::BodyPrepend"
REP = "filter::html_body_action::body_replace::BodyReplace"
HF = "filter::html_filter_body::HtmlFilterBodyAction"
TOK = "html::Tokenizer"
EVAL = "filter::html_body_action::evaluate"

HTML_VOID = {"area", "base", "br", "col", "embed", "hr", "img", "input", "link", "meta", "param", "source", "track", "wbr"}


def _unclone(x):
    while isinstance(x, tuple) and x and x[0] == "call" and (x[1].endswith("Clone>::clone") or x[1].rsplit("::", 1)[-1] in ("as_str", "deref", "as_deref", "as_ref", "as_mut", "borrow", "to_string", "to_owned", "as_deref_mut")) and x[2]:
        x = x[2][0]
    return x


def _field_of(x, param=1):
    """name of the field of parameter `param` an expression is (through clones), else None"""
    x = _unclone(x)
    if isinstance(x, tuple) and x and x[0] == "field" and x[1] == ("param", param):
        return x[2]
    return None


def r15_1(ctx):
    F = ctx.facts

    def body(r):
        f = F.method(VIS, "new")
        r.analysed(f)
        want = {"append_child": ("Append", APP), "prepend_child": ("Prepend", PRE), "replace": ("Replace", REP)}
        seen = set()
        for p in Sym(f, copies=True).paths():
            if p.end[0] != "ret":
                continue
            ret = p.end[1]
            empty = [v for a, v in p.conds if a[0] == "call" and a[1] == "std::vec::Vec::is_empty" and _field_of(a[2][0]) == "element_tree"]
            trues = [x[1] for a, v in p.conds if v == 1 and a[0] == "call" and "PartialEq" in a[1] for x in a[2] if x[0] == "const" and isinstance(x[1], str)]
            if empty and empty[0] == 1:
                r.ob("dispatch:empty-path->none", ret[0] == "agg" and ret[2] == "None", f.site, "a filter without element path builds no visitor")
                continue
            if not trues:
                r.ob("dispatch:unknown-action->none", ret[0] == "agg" and ret[2] == "None", f.site, "an unknown action builds no visitor")
                continue
            name = trues[0]
            seen.add(name)
            var, adt = want.get(name, (None, None))
            ok = ret[0] == "agg" and ret[2] == "Some"
            inner = ret[3][0][1] if ok else None
            ok = ok and inner[0] == "agg" and inner[2] == var
            ctor = inner[3][0][1] if ok else None
            ok = ok and ctor[0] == "call" and ctor[1] == adt + "::new"
            detail = "'%s' -> %s" % (name, show(inner, f)[:80] if inner else show(ret, f)[:80])
            if ok:
                args = ctor[2]
                slots = [_field_of(a) for a in args[:3]] + [None] + [_field_of(a) for a in args[4:6]]
                inner_ok = args[3][0] == "call" and args[3][1].endswith("Option::unwrap_or") and _field_of(args[3][2][0]) == "inner_value" and _field_of(args[3][2][1]) == "value"
                ok = slots == ["element_tree", "css_selector", "value", None, "id", "target_hash"] and inner_ok
                detail = "'%s' -> %s::new(%s)" % (name, adt.split("::")[-1], ", ".join(show(a, f)[:40] for a in args))
            r.ob("dispatch:%s" % name, ok, f.site, detail)
        for n in want:
            if n not in seen:
                r.missing("HtmlBodyVisitor::new arm for '%s'" % n)
        # the constructors store each parameter in the slot of that name
        for adt in (APP, PRE, REP):
            g = F.method(adt, "new")
            r.analysed(g)
            names = {i + 1: n for i, n in enumerate(["element_tree", "css_selector", "content", "inner_content", "id", "target_hash"])}
            bad = []
            for p in Sym(g, copies=True).paths():
                if p.end[0] != "ret" or p.end[1][0] != "agg":
                    continue
                fields = dict(p.end[1][3])
                for i, n in names.items():
                    if _unclone(fields.get(n)) != ("param", i):
                        bad.append("%s := %s" % (n, show(fields.get(n), g)[:40] if fields.get(n) else "?"))
                if fields.get("position") != ("const", 0):
                    bad.append("position starts at %s" % show(fields.get("position"), g))
            r.ob("slots:%s::new" % adt.split("::")[-1], not bad, g.site, "every parameter is stored in the slot of its name, position starts at 0" if not bad else "; ".join(bad[:3]))
    ctx.run_rule("R15.1", "action name -> visitor, filter field -> visitor slot", body, floor=8)


def _selector_state(p, adt):
    """none / empty / nomatch / match / nonempty (not evaluated) / None (selector not looked at)"""
    st = None
    for a, v in p.conds:
        if a[0] == "disc" and _field_of(a[1]) == "css_selector":
            st = "none" if v == "None" else (st or "some")
        elif a[0] == "call" and a[1] in ("std::option::Option::is_some", "std::option::Option::is_none") and _field_of(a[2][0]) == "css_selector":
            some = (v == 1) == a[1].endswith("is_some")
            st = (st or "some") if some else "none"
        elif a[0] == "call" and a[1].endswith("::is_empty") and mentions(a[2][0], lambda y: y[0] == "field" and y[2] == "css_selector"):
            st = "empty" if v == 1 else ("nonempty" if st in (None, "some", "nonempty") else st)
        elif a[0] == "call" and "PartialEq" in a[1] and len(a[2]) == 2 and any(x == ("const", "") for x in a[2]) and any(mentions(x, lambda y: y[0] == "field" and y[2] == "css_selector") for x in a[2]):
            is_eq = bool(v) if a[1].endswith("::eq") else not bool(v)  # `Some("") => ..`: compared with the empty string
            st = "empty" if is_eq else ("nonempty" if st in (None, "some", "nonempty") else st)
        elif a[0] == "call" and a[1] == EVAL:
            st = "match" if v == 1 else "nomatch"
    return st


def _pieces(p, f, out, data_param=2, upto=None):
    """what a returned text is made of, in order: 'data', 'content', 'append_child(data,content)', ... or None"""
    out = _unclone(out)
    if out == ("param", data_param):
        return ("data",)
    if out[0] != "local" and mentions(out, lambda y: y[0] == "field" and y[2] == "buffer" and (y[3] or "").endswith("BufferLink")):
        return ("buffer",)
    if _field_of(out) == "content":
        return ("content",)
    # through `?`
    inner = []
    mentions(out, lambda y: inner.append(y) if (y[0] == "call" and y[1].split("::")[-1] in ("append_child", "prepend_child")) else False)
    if inner:
        c = inner[0]
        args = tuple("data" if _unclone(a) == ("param", data_param) else "content" if _field_of(a) == "content" else "?" for a in c[2])
        return (c[1].split("::")[-1] + str(args).replace("'", "").replace(" ", ""),)
    if out[0] == "local":
        l = out[1]
        seq = []
        for e in p.events:
            if upto is not None and e is upto:
                break
            if e[0] in ("init", "set") and e[1] == l:
                seq = list(_pieces(p, f, e[3], data_param, upto) or ("?",)) if e[3] != out else seq
            elif e[0] == "call" and e[1] == "std::string::String::push_str" and e[2][0] == out:
                seq += list(_pieces(p, f, e[2][1], data_param, upto) or ("?",))
        return tuple(seq) if seq else None
    return None


def r15_3(ctx):
    F = ctx.facts

    def table(adt, name, r):
        f = F.loop_form(F.method(adt, name))  # Option combinators (`map_or(true, |s| s.is_empty())`) written out as the match they abbreviate
        r.analysed(f)
        rows = {}
        for p in Sym(f, copies=True, max_paths=50000).paths():
            if p.end[0] != "ret":
                continue
            ret = p.end[1]
            if ret[0] == "agg" and ret[1] == "std::result::Result":
                if ret[2] != "Ok":
                    continue
                ret = ret[3][0][1]
            if not (ret[0] == "agg" and ret[1] == "tuple"):
                rows[("?", "?", "?")] = {("unreadable return %s" % show(ret, f)[:60],)}
                continue
            text = ret[3][-1][1]
            # on target <=> the test `position + 1 < len` came out false
            lt = [v for a, v in p.conds if a[0] == "bin" and a[1] == "Lt" and mentions(a[2], lambda y: y[0] == "field" and y[2] == "position")]
            ge = [v for a, v in p.conds if a[0] == "bin" and a[1] == "Ge" and mentions(a[2], lambda y: y[0] == "field" and y[2] == "position")]
            on_target = (lt and lt[0] == 0) or (ge and ge[0] == 1 and not (lt and lt[0] == 1))
            buf = [v for a, v in p.conds if _field_of(a) == "is_buffering" or (a[0] == "un" and _field_of(a[2]) == "is_buffering")]
            bufv = None
            for a, v in p.conds:
                if _field_of(a) == "is_buffering":
                    bufv = v
            key = ("on" if on_target else "off", bufv, _selector_state(p, adt))
            rows.setdefault(key, set()).add(_pieces(p, f, text) or ("?" + show(text, f)[:60],))
        return f, rows

    def body(r):
        # --- append: everything happens in leave()
        f, rows = table(APP, "leave", r)
        bad = []
        n = 0
        for (tgt, _b, sel), outs in sorted(rows.items(), key=str):
            n += 1
            if tgt == "off":
                want = {("data",)}
            elif sel in ("none", "empty"):
                want = {("content", "data")}
            elif sel == "nomatch":
                want = {("append_child(data,content)",)}
            elif sel == "match":
                want = {("data",)}
            else:
                want = None
            if outs != want:
                bad.append("%s target, selector %s -> %s (expected %s)" % (tgt, sel, sorted(outs), sorted(want) if want else "no such row"))
        r.ob("polarity:append:leave", not bad and n >= 5, f.site, "off target: unchanged; no / empty selector: value then the end tag; selector not matched: append_child(buffer, value); matched: unchanged (%d rows)" % n if not bad else "; ".join(bad[:3]))
        # --- prepend: enter() edits without selector, leave() edits the buffered element when the selector does not match
        f, rows = table(PRE, "enter", r)
        bad = []
        n = 0
        for (tgt, _b, sel), outs in sorted(rows.items(), key=str):
            n += 1
            if tgt == "off":
                want = {("data",)}
            elif sel in ("none", "empty"):
                want = {("data", "content")}
            elif sel in ("nonempty", "some"):
                want = {("data",)}
            else:
                want = None
            if outs != want:
                bad.append("%s target, selector %s -> %s (expected %s)" % (tgt, sel, sorted(outs), sorted(want) if want else "no such row"))
        r.ob("polarity:prepend:enter", not bad and n >= 3, f.site, "off target: unchanged; no / empty selector: the start tag then the value; a selector: unchanged (decided at leave) (%d rows)" % n if not bad else "; ".join(bad[:3]))
        f, rows = table(PRE, "leave", r)
        bad = []
        n = 0
        for (tgt, b, sel), outs in sorted(rows.items(), key=str):
            n += 1
            if sel == "nomatch" and b == 1:
                want = {("prepend_child(data,content)",)}
            else:
                want = {("data",)}
            if outs != want:
                bad.append("buffering %s, selector %s -> %s (expected %s)" % (b, sel, sorted(outs), sorted(want)))
        has = any(sel == "nomatch" and b == 1 for (_t, b, sel) in rows)
        r.ob("polarity:prepend:leave", not bad and has, f.site, "buffered element whose selector is not matched: prepend_child(buffer, value); anything else unchanged (%d rows)" % n if not bad else "; ".join(bad[:3]))
        # --- replace: leave() of the buffered element
        f, rows = table(REP, "leave", r)
        bad = []
        n = 0
        for (tgt, b, sel), outs in sorted(rows.items(), key=str):
            n += 1
            if b == 1 and sel in ("none", "empty", "match"):
                want = {("content",)}
            else:
                want = {("data",)}
            if outs != want:
                bad.append("buffering %s, selector %s -> %s (expected %s)" % (b, sel, sorted(outs), sorted(want)))
        has = {sel for (_t, b, sel) in rows if b == 1} >= {"none", "match", "nomatch"}
        r.ob("polarity:replace:leave", not bad and has, f.site, "buffered element: no / empty selector or matched: the value alone; not matched: unchanged; not buffering: unchanged (%d rows)" % n if not bad else "; ".join(bad[:3]))
        # replace buffers exactly on target
        f = F.method(REP, "enter")
        r.analysed(f)
        rows = {}
        for p in Sym(f, copies=True).paths():
            if p.end[0] != "ret" or p.end[1][0] != "agg":
                continue
            lt = [v for a, v in p.conds if a[0] == "bin" and a[1] == "Lt" and mentions(a[2], lambda y: y[0] == "field" and y[2] == "position")]
            t = p.end[1][3]
            rows.setdefault("off" if (lt and lt[0] == 1) else "on", set()).add((show(t[2][1], f), _pieces(p, f, t[3][1], 2)))
        ok = rows.get("off") == {("False", ("data",))} and rows.get("on") == {("True", ("data",))}
        r.ob("polarity:replace:enter", ok, f.site, "replace asks for buffering exactly on target and returns the start tag unchanged: %s" % {k: sorted(v) for k, v in rows.items()})
        f = F.method(APP, "enter")
        r.analysed(f)
        outs = set()
        for p in Sym(f, copies=True).paths():
            if p.end[0] == "ret" and p.end[1][0] == "agg":
                outs.add(_pieces(p, f, p.end[1][3][3][1], 2))
        r.ob("polarity:append:enter", outs == {("data",)}, f.site, "append returns the start tag unchanged: %s" % sorted(outs, key=str))
    ctx.run_rule("R15.3", "selector polarity and placement tables of the three visitors", body, floor=6)


def r15_4(ctx):
    F = ctx.facts

    def body(r):
        f = F.fn(EVAL)
        r.analysed(f)
        bad = []
        n = 0
        for p in Sym(f, copies=True).paths():
            if p.end[0] != "ret":
                continue
            n += 1
            ret = p.end[1]
            parse = [v for a, v in p.conds if a[0] == "disc" and a[1][0] == "call" and a[1][1].endswith("Selector::parse")]
            if parse and parse[0] == "Err":
                if ret != ("const", False):
                    bad.append("a selector that does not parse answers %s" % show(ret, f)[:60])
                continue
            eng = mentions(ret, lambda y: y[0] == "call" and y[1].endswith("Html::select")) and mentions(ret, lambda y: y[0] == "call" and y[1].endswith("Html::parse_fragment") and y[2] and _unclone(y[2][0]) == ("param", 1))
            if not eng:
                bad.append("a return that is not the selector engine's answer on the whole fragment: %s under %s" % (show(ret, f)[:60], [(show(a, f)[:50], v) for a, v in p.conds][:3]))
            elif not (ret[0] == "call" and ret[1] == "std::option::Option::is_some"):
                bad.append("the engine's answer is transformed: %s" % show(ret, f)[:80])
        r.ob("evaluate:engine-answer", not bad and n >= 2, f.site, "evaluate(fragment, selector) = `select(parse_fragment(fragment), selector).next().is_some()`, false only when the selector does not parse" if not bad else "; ".join(sorted(set(bad))[:2]))
    ctx.run_rule("R15.4", "evaluate answers what the selector engine answers", body, floor=1)


def r15_5(ctx):
    F = ctx.facts

    def body(r):
        for key, want in (("filter::html_body_action::body_append::append_child", ["child", "raw", "buffered"]), ("filter::html_body_action::body_prepend::prepend_child", ["raw", "child", "buffered"])):
            f = F.fn(key)
            r.analysed(f)
            heads = sorted({h for _, h in f.back_edges()})
            if len(heads) != 1:
                r.missing("the token loop of %s" % key)
                continue
            s = Sym(f, copies=True, max_paths=50000)
            seqs = set()
            fallback = set()
            for p in s.paths(start=heads[0], stops=set(heads)):
                if p.end[0] != "ret" or len(_kinds(p)) > 1:
                    continue
                ret = p.end[1]
                if not (ret[0] == "agg" and ret[2] == "Ok"):
                    continue
                out = ret[3][0][1]
                if out == ("param", 1):
                    fallback.add("content")
                    continue
                seq = []
                for e in p.events:
                    if e[0] == "call" and e[1] == "std::string::String::push_str" and e[2][0] == out:
                        v = e[2][1]
                        if _unclone(v) == ("param", 2):
                            seq.append("child")
                        elif mentions(v, lambda y: y[0] == "call" and y[1] == TOK + "::raw_as_string"):
                            seq.append("raw")
                        elif mentions(v, lambda y: y[0] == "call" and y[1] == TOK + "::buffered_as_string"):
                            seq.append("buffered")
                        else:
                            seq.append("?" + show(v, f)[:40])
                seqs.add(tuple(seq))
            name = key.split("::")[-1]
            r.ob("placement:%s" % name, seqs == {tuple(want)} and fallback <= {"content"}, f.site, "the edited text ends with %s; when the fragment cannot be tokenised it is returned as it is (%s)" % (sorted(seqs), sorted(fallback)))
            # the insertion point: append at an end tag that brings the depth back to 0, prepend at the first start tag
            kinds = set()
            for p in s.paths(start=heads[0], stops=set(heads)):
                if len(_kinds(p)) > 1:
                    continue  # a token is of one kind
                if p.end[0] == "ret" and p.end[1][0] == "agg" and p.end[1][2] == "Ok" and p.end[1][3][0][1] != ("param", 1):
                    kinds |= _kinds(p)
            wantk = {"EndTagToken"} if name == "append_child" else {"StartTagToken"}
            r.ob("placement:%s:at" % name, kinds == wantk, f.site, "the child is inserted when the token is %s" % sorted(kinds))
        f = F.fn("filter::html_body_action::body_append::append_child")
        # depth accounting: +1 on a start tag, -1 when it is void, -1 on an end tag, insertion when the depth is back to 0
        heads = sorted({h for _, h in f.back_edges()})
        deltas = {}
        zero = set()
        for p in Sym(f, copies=True, max_paths=50000).paths(start=heads[0], stops=set(heads)):
            if len(_kinds(p)) > 1:
                continue
            kind = (sorted(_kinds(p)) or ["other"])[0]
            void = None
            for a, v in p.conds:
                if a[0] == "call" and a[1].endswith("HashSet::contains"):
                    void = v
                if a[0] == "bin" and a[1] == "Eq" and a[3] == ("const", 0) and v == 1:
                    zero.add(kind)
            d = 0
            for e in p.events:
                if e[0] in ("set", "init") and f.local_name(e[1]) and isinstance(e[3], tuple) and e[3][0] == "field" and isinstance(e[3][1], tuple) and e[3][1][0] == "bin":
                    if e[3][1][1] == "AddWithOverflow" and e[3][1][3] == ("const", 1):
                        d += 1
                    elif e[3][1][1] == "SubWithOverflow" and e[3][1][3] == ("const", 1):
                        d -= 1
            if p.end[0] == "ret" and p.end[1][0] == "agg" and p.end[1][2] == "Err":
                continue  # a tokenizer error propagated with `?`
            if p.end[0] in ("stop", "loop", "ret") and kind != "ErrorToken":
                deltas.setdefault((kind, void), set()).add(d)
        want = {("StartTagToken", 0): {1}, ("StartTagToken", 1): {0}, ("EndTagToken", None): {-1}, ("other", None): {0}}
        got = {k: v for k, v in deltas.items()}
        r.ob("placement:append_child:depth", got == want and zero == {"EndTagToken"}, f.site, "depth: start +1, void start 0, end -1, others 0; insertion tested at depth 0 on an end tag: %s" % {str(k): sorted(v) for k, v in got.items()})
    ctx.run_rule("R15.5", "the re-tokenising helpers put the child where the action says", body, floor=5)


def r15_6(ctx):
    F = ctx.facts

    def body(r):
        f = F.method(HF, "filter")
        r.analysed(f)
        s = Sym(f, copies=False, max_paths=400000)
        heads = sorted({h for _, h in f.back_edges()})
        rows = {}
        names_ok = True
        for h in heads:
            for p in s.paths(start=h, stops=set(heads)):
                if p.end[0] != "stop":
                    continue
                kind = [v for a, v in p.conds if a[0] == "disc" and a[1][0] != "call" and isinstance(v, (str, tuple)) and (v in ("StartTagToken", "EndTagToken", "SelfClosingTagToken") or (isinstance(v, tuple) and v[0] == "other"))]
                if not kind:
                    continue
                k = kind[-1] if isinstance(kind[-1], str) else "other"
                void = [v for a, v in p.conds if a[0] == "call" and a[1].endswith("HashSet::contains")]
                calls = [e for e in p.events if e[0] == "call" and e[1] in (HF + "::on_start_tag_token", HF + "::on_end_tag_token")]
                rows.setdefault((k, void[0] if void else None), set()).add(tuple(e[1].split("::")[-1] for e in calls))
                for e in calls:
                    if not mentions(e[2][1], lambda y: y[0] == "call" and y[1] == TOK + "::tag_name"):
                        names_ok = False
                for a, v in p.conds:
                    if a[0] == "call" and a[1].endswith("HashSet::contains") and not mentions(a[2][1], lambda y: y[0] == "call" and y[1] == TOK + "::tag_name"):
                        names_ok = False
        want = {("StartTagToken", 0): {("on_start_tag_token",)}, ("StartTagToken", 1): {("on_start_tag_token", "on_end_tag_token")},
                ("SelfClosingTagToken", None): {("on_start_tag_token", "on_end_tag_token")}, ("EndTagToken", None): {("on_end_tag_token",)}, ("other", None): {()}}
        r.ob("tags:handler-calls", rows == want, f.site, "start -> enter; void start -> enter, leave; self-closing -> enter, leave (whatever the name); end -> leave; other tokens -> nothing: %s" % {str(k): sorted(v) for k, v in sorted(rows.items(), key=str)})
        r.ob("tags:names-from-the-token", names_ok, f.site, "the names handed to the handlers and tested against the void table are the token's tag name")
        # the void table
        init = [g for k, g in F.fns.items() if "VOID_ELEMENTS" in k and k.endswith("__static_ref_initialize")]
        if not init:
            r.missing("initialiser of VOID_ELEMENTS")
            return
        names = set()
        for g in init[0].all_bodies():
            for p in Sym(g, copies=True).paths():
                for e in p.events:
                    if e[0] == "call" and e[1].endswith("HashSet::insert") and e[2][1][0] == "const":
                        names.add(e[2][1][1])
        r.ob("tags:void-table", names == HTML_VOID, init[0].site, "VOID_ELEMENTS = %s%s" % (sorted(names), "" if names == HTML_VOID else " (HTML: %s)" % sorted(HTML_VOID)))
    ctx.run_rule("R15.6", "token kind -> handler calls, void-element table", body, floor=3)


def _ans(v, idx, callee):
    """component `idx` of the tuple a call of `callee` answered (through `?`)"""
    return isinstance(v, tuple) and len(v) > 2 and v[0] == "field" and v[2] == idx and mentions(v[1], lambda y: y[0] == "call" and y[1] == callee)


def _kinds(p):
    """token kinds a path found the token equal to / switched on"""
    ks = set()
    for a, v in p.conds:
        if a[0] == "call" and "PartialEq" in a[1] and v == 1:
            for x in a[2]:
                if x[0] == "agg" and x[1].endswith("TokenType"):
                    ks.add(x[2])
    return ks


def _name_test(p, fld, param):
    """outcome of the comparison of the awaited name `self.<fld>` with the tag name (parameter `param`) on this path:
    True / False / None (not compared)"""
    res = None
    for a, v in p.conds:
        if a[0] == "call" and "PartialEq" in a[1] and len(a[2]) == 2:
            l, rr = a[2]
            fl = lambda y: y[0] == "field" and y[2] == fld and y[1] == ("param", 1)
            pr = lambda y: y == ("param", param)
            if (mentions(l, fl) and mentions(rr, pr)) or (mentions(rr, fl) and mentions(l, pr)):
                res = bool(v) if a[1].endswith("::eq") else not bool(v)
        elif a[0] == "call" and a[1] == "std::option::Option::is_some" and _field_of(a[2][0]) == fld and v == 0:
            return False
        elif a[0] == "disc" and _field_of(a[1]) == fld and v == "None":
            return False
    return res


def _fold(x):
    """constant-fold the integer expressions the engine leaves symbolic (a counter that starts at a constant)"""
    if not isinstance(x, tuple) or not x:
        return None
    if x[0] == "const" and isinstance(x[1], int) and not isinstance(x[1], bool):
        return x[1]
    if x[0] == "field" and isinstance(x[1], tuple) and x[1] and x[1][0] == "bin" and x[1][1] in ("AddWithOverflow", "SubWithOverflow") and x[2] == "0":
        a, b = _fold(x[1][2]), _fold(x[1][3])
        if a is None or b is None:
            return None
        return a + b if x[1][1] == "AddWithOverflow" else a - b
    return None


def _feasible(p):
    for a, v in p.conds:
        if a[0] == "bin" and a[1] in ("Gt", "Lt", "Ge", "Le", "Eq", "Ne"):
            l, rr = _fold(a[2]), _fold(a[3])
            if l is not None and rr is not None:
                val = {"Gt": l > rr, "Lt": l < rr, "Ge": l >= rr, "Le": l <= rr, "Eq": l == rr, "Ne": l != rr}[a[1]]
                if int(val) != v:
                    return False
    return True


def r15_7(ctx):
    F = ctx.facts

    def body(r):
        f = F.method(HF, "on_start_tag_token")
        r.analysed(f)
        rows = {}
        bad = []
        for p in Sym(f, copies=True).paths():
            if p.end[0] != "ret" or not _feasible(p):
                continue
            awaited = _name_test(p, "enter", 2) is True
            ent = [e for e in p.events if e[0] == "call" and e[1] == VIS + "::enter"]
            if bool(ent) != awaited:
                bad.append("visitor.enter %s although the awaited name %s the tag" % ("called" if ent else "not called", "equals" if awaited else "differs from"))
                continue
            opened = any(e[0] == "write" and e[1] == ("field", ("param", 1), "current_buffer", HF) and mentions(e[2], lambda y: y[0] == "agg" and y[1].endswith("BufferLink")) for e in p.events) \
                or mentions(p.end[1], lambda y: y[0] == "agg" and (y[1] or "").endswith("BufferLink"))
            asked = [v for a, v in p.conds if a[0] == "field" and a[2] == "2" and a[1][0] == "call" and a[1][1] == VIS + "::enter"]
            if ent:
                c = ent[0][3]
                w = {e[1][2]: e[2] for e in p.events if e[0] == "write" and e[1][0] == "field" and e[1][1] == ("param", 1)}
                if not (_ans(w.get("enter"), "0", VIS + "::enter") and _ans(w.get("leave"), "1", VIS + "::enter")):
                    bad.append("the awaited names are not taken from the visitor's answer in (enter, leave) order: enter := %s, leave := %s" % (show(w.get("enter"), f)[:50] if w.get("enter") else None, show(w.get("leave"), f)[:50] if w.get("leave") else None))
                if _unclone(ent[0][2][1]) != ("param", 3) and not (ent[0][2][1][0] == "local"):
                    bad.append("the visitor is not handed the start tag text")
                ret = p.end[1]
                txt = ret[3][1][1] if ret[0] == "agg" and ret[1] == "tuple" else None
                if txt is not None and txt[0] != "local" and not _ans(txt, "3", VIS + "::enter"):
                    bad.append("the text returned is not the visitor's")
            if opened != bool(asked and asked[0] == 1):
                bad.append("a buffer is opened = %s although the visitor asked = %s" % (opened, asked))
            rows[(awaited, asked[0] if asked else None)] = opened
        r.ob("wiring:on_start_tag_token", not bad and len(rows) >= 3, f.site, "enter is called exactly on the awaited name; awaited names := (answer.0, answer.1); a buffer is opened exactly when the visitor asks: %s" % sorted(rows.items(), key=str) if not bad else "; ".join(sorted(set(bad))[:3]))
        # the opened link remembers the tag name and chains the previous buffer
        okl = False
        for p in Sym(f, copies=True).paths():
            for e in list(p.events) + ([("write", None, p.end[1])] if p.end[0] == "ret" else []):
                if e[0] == "write" and (e[1] is None or e[1] == ("field", ("param", 1), "current_buffer", HF)):
                    lk = []
                    mentions(e[2], lambda y: lk.append(y) if (y[0] == "agg" and (y[1] or "").endswith("BufferLink")) else False)
                    if lk:
                        d = dict(lk[0][3])
                        okl = mentions(d.get("tag_name"), lambda y: y == ("param", 2)) and mentions(d.get("previous"), lambda y: y[0] == "field" and y[2] == "current_buffer")
        r.ob("wiring:buffer-link", okl, f.site, "a new buffer remembers the tag that opened it and chains the buffer that was current")

        g = F.loop_form(F.method(HF, "on_end_tag_token"))  # (`is_some_and(|link| link.tag_name == tag_name)` written out)
        r.analysed(g)
        bad = []
        rows = {}
        for p in Sym(g, copies=True, max_paths=50000).paths():
            if p.end[0] != "ret":
                continue
            if p.end[1][0] == "agg" and p.end[1][2] == "Err":
                continue
            awaited = _name_test(p, "leave", 2) is True
            lv = [e for e in p.events if e[0] == "call" and e[1] == VIS + "::leave"]
            if bool(lv) != awaited:
                bad.append("visitor.leave %s although the awaited name %s the tag" % ("called" if lv else "not called", "equals" if awaited else "differs from"))
                continue
            same = []
            for a, v in p.conds:
                if a[0] == "call" and "PartialEq" in a[1] and len(a[2]) == 2:
                    tn = lambda y: y[0] == "field" and y[2] == "tag_name"
                    pr = lambda y: y == ("param", 2)
                    if (mentions(a[2][0], tn) and mentions(a[2][1], pr)) or (mentions(a[2][1], tn) and mentions(a[2][0], pr)):
                        same.append(bool(v) if a[1].endswith("::eq") else not bool(v))
            hasb = [(v == 1 if a[0] == "call" else v == "Some") for a, v in p.conds if (a[0] == "call" and a[1] == "std::option::Option::is_some" and _field_of(a[2][0]) == "current_buffer") or (a[0] == "disc" and _field_of(a[1]) == "current_buffer")]
            nob = bool(hasb) and not hasb[0]  # (the first look: the test is repeated after the visitor ran)
            closing = bool(same and same[0] and not nob)
            if lv:
                c = lv[0][3]
                w = {e[1][2]: e[2] for e in p.events if e[0] == "write" and e[1][0] == "field" and e[1][1] == ("param", 1)}
                ok_w = _ans(w.get("enter"), "0", VIS + "::leave") and _ans(w.get("leave"), "1", VIS + "::leave")
                if not ok_w:
                    bad.append("the awaited names are not taken from the visitor's answer in (enter, leave) order")
                # what the visitor sees: the buffered element followed by the end tag when this tag closes the buffer
                arg = lv[0][2][1]
                pcs = list(_pieces(p, g, arg, 3, upto=lv[0]) or ("?",))
                wantp = ["buffer", "data"] if closing else ["data"]
                if pcs != wantp:
                    bad.append("leave receives %s (expected %s, closing the buffer = %s)" % (pcs, wantp, closing))
            rows[(awaited, closing)] = True
        visitor_callers_ob(F, r, "wiring:")
        r.ob("wiring:on_end_tag_token", not bad and len(rows) >= 3, g.site, "leave is called exactly on the awaited name with the buffered element followed by the end tag; awaited names := (answer.0, answer.1): %s" % sorted(rows, key=str) if not bad else "; ".join(sorted(set(bad))[:3]))
    ctx.run_rule("R15.7", "enter / leave wiring of the filter", body, floor=3)


def visitor_callers(F):
    """{operation: sorted callers} of HtmlBodyVisitor::enter / leave among the non-test local bodies"""
    out = {"enter": set(), "leave": set()}
    for g in F.fn_list:
        if g.derived or g.adt == VIS:
            continue
        for _bi, _t, cal in g.calls():
            if cal is not None and cal.adt == VIS and cal.name in out:
                owner = g
                while owner.is_closure and owner.parent and owner.parent in F.fns:
                    owner = F.fns[owner.parent]
                out[cal.name].add(owner.key)
    return {k: sorted(v) for k, v in out.items()}


def visitor_callers_ob(F, r, prefix):
    """An element is entered at its start tag and left at its end tag, nowhere else: a visitor handed a buffer that
    does not end with the element's end tag (at end of stream, on an error path) edits or replaces a partial element."""
    got = visitor_callers(F)
    want = {"enter": [HF + "::on_start_tag_token"], "leave": [HF + "::on_end_tag_token"]}
    r.ob(prefix + "who-calls-the-visitor", got == want, F.method(HF, "end").site, "visitor.enter is called by %s, visitor.leave by %s (expected: the start-tag handler / the end-tag handler only)" % (got["enter"], got["leave"]))


def run(ctx):
    r15_1(ctx)
    r15_3(ctx)
    r15_4(ctx)
    r15_5(ctx)
    r15_6(ctx)
    r15_7(ctx)
