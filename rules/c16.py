"""C16 — the HTML tokenizer is lossless and total on arbitrary bytes (structural conditions)."""
from riolib.core import Callee, MissingAnchor, op_place, span_line
from riolib.prov import Prov, show, mentions, mentions_field, walk
from riolib.sym import Sym, for_loops
from riolib.effects import effects, place_field_chain, transitive_writes
from riolib.guards import Tests, edge_dominates
from . import c07

THOROUGH_CONFIGS = ['dot', 'nodefault', 'compress', 'router']
RELEASE_PROFILE = True


MANIFEST = {
    "text": "Static decision of the mechanisms that make token spans tile the input and tokenisation total: who-may-write of raw.start (only next(), from raw.end) and of the input buffer (never after construction); every write of raw.end is a bounded form (+1 under a successful bounds-checked read, a subtraction, a copy of an earlier position, one named re-advance); accessor/field agreement of raw() and buffered(); the panic-site audit restricted to the tokenizer; the recursion audit; and loop progress (every cycle passes through read_byte and is left once the end-of-input error is set). 'At most one token per byte' and accessor success on valid UTF-8 are value-level and not decided. Also: next() cannot fail on arbitrary bytes (R16.8) and readers called from a loop that gives a byte back look at the next byte on every non-error path.",
    "technique": "static analysis: who-may-write / bounded-write classification of field writes, guard dominance, CFG cycle analysis over MIR",
}

TOK = "html::Tokenizer"
SPAN = "html::Span"
RAW_END = ("field", ("field", ("param", 1), "raw", TOK), "end", SPAN)
RAW_START = ("field", ("field", ("param", 1), "raw", TOK), "start", SPAN)


def tokenizer_fns(F):
    return [f for f in F.fn_list if f.adt == TOK and not f.root and not f.derived]


def span_writes(f, which, fld):
    """assignments to self.<which>.<fld> in f: [(block, stmt idx, value expr, line)]"""
    out = []
    pv = Prov(f, copies=True)
    for bi, si, st in f.assigns():
        l, projs = st["p"]
        names = [(p[2], p[3]) for p in projs if isinstance(p, list) and p[0] == "f" and len(p) > 3]
        if names[-2:] == [(which, TOK), (fld, SPAN)]:
            out.append((bi, si, pv.rvalue(st["r"]), span_line(st["s"])))
    return out, pv


def r16_1(ctx):
    F = ctx.facts

    def body(r):
        n = 0
        for f in tokenizer_fns(F):
            ws, pv = span_writes(f, "raw", "start")
            for bi, si, val, line in ws:
                n += 1
                ok = f.name == "next" and val == RAW_END
                r.ob("contiguity:raw.start-written-in:%s" % f.name, ok, f.loc(line), "raw.start := %s in %s (only next() may set it, to raw.end)" % (show(val, f), f.name))
            # whole-span writes (self.raw = ..) would bypass the rule
            for bi, si, st in f.assigns():
                l, projs = st["p"]
                names = [(p[2], p[3]) for p in projs if isinstance(p, list) and p[0] == "f" and len(p) > 3]
                if names and names[-1] == ("raw", TOK):
                    r.ob("contiguity:raw-replaced-in:%s" % f.name, False, f.loc(span_line(st["s"])), "the raw span is replaced as a whole")
            # reader is never written
            e = effects(f)
            if (TOK, "reader") in e.writes or (TOK, "reader") in e.mut_escapes_local:
                r.ob("contiguity:reader-written-in:%s" % f.name, False, f.site, "the input buffer is modified after construction: %s" % e.writes.get((TOK, "reader")))
        r.ob("contiguity:raw.start-writers", n == 1, "", "%d writes of raw.start in the tokenizer" % n)
        # next() does it first: the write dominates every exit
        nx = F.method(TOK, "next")
        ws, _ = span_writes(nx, "raw", "start")
        r.ob("contiguity:next-starts-at-previous-end", bool(ws) and all(nx.dominates(ws[0][0], x) for x in nx.exits()), nx.site, "raw.start = raw.end is executed on every path through next()")
        r.ob("contiguity:reader-immutable", True, "", "no tokenizer method writes `reader`")
        # constructors start at 0
        nf = F.method(TOK, "new_fragment")
        ok0 = False
        for p in Sym(nf).paths():
            for e in p.events:
                if e[0] in ("set", "init") and e[3][0] == "agg" and e[3][1] == TOK:
                    raw = dict(e[3][3]).get("raw")
                    ok0 = raw is not None and raw[0] == "agg" and dict(raw[3]) == {"start": ("const", 0), "end": ("const", 0)}
        r.ob("contiguity:starts-at-0", ok0, nf.site, "a new tokenizer starts with raw = 0..0")
    ctx.run_rule("R16.1", "span contiguity (who may write raw.start / the input buffer)", body, floor=5)


def r16_2(ctx):
    F = ctx.facts

    def body(r):
        n = 0
        for f in tokenizer_fns(F):
            ws, pv = span_writes(f, "raw", "end")
            if not ws:
                continue
            r.analysed(f)
            tests = Tests(f, pv)
            for bi, si, val, line in ws:
                n += 1
                key = "bounded:%s:raw.end:=%s" % (f.name, show(val, f))
                why = None
                # `x.0` of a checked add/sub
                core_ = val
                if core_[0] == "field" and core_[2] == "0" and core_[1][0] == "bin":
                    core_ = core_[1]
                if core_[0] == "bin" and core_[1].startswith("Sub") and core_[2] == RAW_END:
                    why = "decrement of raw.end"
                elif core_[0] == "bin" and core_[1].startswith("Add") and core_[2] == RAW_END and core_[3] == ("const", 1):
                    # only in read_byte, on the Some edge of reader.get(raw.end)
                    def is_get(pe):
                        return pe[0] == "call" and pe[1].rsplit("::", 1)[1] == "get" and mentions_field(pe[2][0], "reader", TOK) and pe[2][1] == RAW_END
                    ok = f.name == "read_byte" and any(edge_dominates(f, tb, sb, bi) for tb, sb in tests.disc_blocks(is_get, "Some"))
                    why = "+1 under reader.get(raw.end) == Some" if ok else None
                elif core_[0] == "bin" and core_[1].startswith("Add") and core_[2] == RAW_END:
                    # named exception: re-advance over an end tag that read_raw_end_tag() has just un-read
                    k = c07._const_int(core_[3])
                    def pred(atom, out):
                        return atom[0] == "call" and atom[1] == TOK + "::read_raw_end_tag" and out is True
                    ok = f.name == "read_script_data_double_escaped_end" and k == len("</script>") and any(edge_dominates(f, tb, sb, bi) for tb, sb in tests.blocks_where(pred))
                    if ok:
                        r.exception(key, "re-advances over `</script>` directly after read_raw_end_tag() returned true (which un-read 3 + raw_tag.len() = 9 bytes it had read)")
                        why = "named exception (re-advance after read_raw_end_tag() == true)"
                elif val[0] == "field" and val[2] == "start" and val[1] == ("field", ("param", 1), "data", TOK):
                    why = "reset to data.start (an earlier raw.end of the same token)"
                elif val[0] in ("field", "local", "phi") and mentions(val, lambda x: x[0] == "bin" and x[1].startswith("Sub") and x[2] == RAW_END):
                    why = "copy of an earlier raw.end minus a constant"
                r.ob(key, why is not None, f.loc(line), why or "write of raw.end is not one of the bounded forms: raw.end <= reader.len() is no longer guaranteed")
        r.ob("bounded:writes-found", n >= 27, "", "%d writes of raw.end" % n)
        # no other function of the crate writes the tokenizer's spans
        for f in F.fn_list:
            if f.adt == TOK or f.derived:
                continue
            e = effects(f)
            for (adt, fld) in list(e.writes):
                if adt == SPAN or (adt == TOK and fld in ("raw", "data", "reader")):
                    r.ob("bounded:foreign-writer:%s" % f.key, False, f.site, "%s writes %s.%s" % (f.key, adt, fld))
    ctx.run_rule("R16.2", "bounded writes to raw.end", body, floor=18)


def r16_3(ctx):
    F = ctx.facts

    def body(r):
        for name, want in (("raw", {"start": RAW_START, "end": RAW_END}), ("buffered", {"start": RAW_END})):
            f = F.method(TOK, name)
            r.analysed(f)
            pv = Prov(f, copies=True)
            ok = False
            got = None
            for bi, t, cal in f.calls():
                if cal and cal.name == "index" and len(t["args"]) == 2:
                    coll = pv.operand(t["args"][0])
                    rng = pv.operand(t["args"][1])
                    if rng[0] == "agg":
                        got = dict(rng[3])
                        ok = coll == ("field", ("param", 1), "reader", TOK) and got == want
            r.ob("accessor:%s" % name, ok, f.site, "%s() slices reader with %s" % (name, {k: show(v, f) for k, v in (got or {}).items()}))
        for name, inner in (("raw_as_string", "raw"), ("buffered_as_string", "buffered")):
            f = F.method(TOK, name)
            ok = any(cal and cal.key() == "%s::%s" % (TOK, inner) for bi, t, cal in f.calls())
            r.ob("accessor:%s" % name, ok, f.site, "%s() is built on %s()" % (name, inner))
    ctx.run_rule("R16.3", "raw()/buffered() agree with the span fields", body, floor=4)


PROGRESS_FNS = ("read_byte", "read_raw_end_tag", "tag_attr")


def always_progress(F, g, memo):
    """every normal return of g has passed through read_byte() (directly or through a callee that always does)"""
    if g.path in memo:
        return memo[g.path]
    memo[g.path] = False  # recursion guard
    ok = True
    n = 0
    try:
        for p in Sym(g, copies=True, max_paths=20000).paths():
            if p.end[0] != "ret":
                continue
            n += 1
            hit = False
            for e in p.events:
                if e[0] == "call" and e[6] is not None and e[6].local and e[6].adt == TOK:
                    if e[6].name in PROGRESS_FNS:
                        hit = True
                    else:
                        h = F.method(TOK, e[6].name, required=False)
                        if h is not None and always_progress(F, h, memo):
                            hit = True
            if not hit:
                ok = False
    except Exception:
        ok = False
    memo[g.path] = ok and n > 0
    return memo[g.path]


def looks_at_next_byte(F, g, memo):
    """every return of g has read a byte (directly or through a callee that always looks), or found `err` set"""
    if g.path in memo:
        return memo[g.path]
    memo[g.path] = False
    ERR = ("field", ("param", 1), "err", TOK)
    ok = True
    n = 0
    try:
        for p in Sym(g, copies=True, max_paths=20000).paths():
            if p.end[0] != "ret":
                continue
            n += 1
            if any(a == ("call", "std::option::Option::is_some", (ERR,)) and v == 1 for a, v in p.conds) or any(a == ("call", "std::option::Option::is_none", (ERR,)) and v == 0 for a, v in p.conds):
                continue
            hit = False
            for e in p.events:
                if e[0] == "call" and e[6] is not None and e[6].local and e[6].adt == TOK:
                    if e[6].name in PROGRESS_FNS:
                        hit = True
                    else:
                        h = F.method(TOK, e[6].name, required=False)
                        if h is not None and h is not g and looks_at_next_byte(F, h, memo):
                            hit = True
            if not hit:
                ok = False
    except Exception:
        ok = False
    memo[g.path] = ok and n > 0
    return memo[g.path]


def none_on_err(F, g):
    """g returns None on every path on which it found `err` set, and never returns Some(..) straight after
    a read whose outcome it did not look at"""
    ERR = ("field", ("param", 1), "err", TOK)
    try:
        for p in Sym(g, copies=True, max_paths=20000).paths():
            if p.end[0] != "ret":
                continue
            is_none = p.end[1][0] == "agg" and p.end[1][2] == "None"
            err_set = any(a == ("call", "std::option::Option::is_some", (ERR,)) and v == 1 for a, v in p.conds)
            if err_set and not is_none:
                return False
            if not is_none:
                # after the last read: err found unset, or read_raw_end_tag() answered true (it answers false on err)
                last = max([i for i, e in enumerate(p.events) if e[0] == "call" and e[6] is not None and e[6].local and e[6].adt == TOK and e[6].name in PROGRESS_FNS] or [-1])
                if last >= 0:
                    later = p.events[last + 1:]
                    ok = any(e[0] == "cond" and e[1] == ("call", "std::option::Option::is_some", (ERR,)) and e[2] == 0 for e in later) \
                        or (p.events[last][6].name == "read_raw_end_tag" and any(e[0] == "cond" and e[1] == p.events[last][3] and e[2] == 1 for e in later))
                    if not ok:
                        return False
    except Exception:
        return False
    return True


def r16_6(ctx):
    F = ctx.facts
    memo_prog = {}
    memo_look = {}

    def body(r):
        n = 0
        for f in tokenizer_fns(F):
            be = f.back_edges()
            if not be:
                continue
            r.analysed(f)
            pv = Prov(f, copies=True)
            tests = Tests(f, pv)
            heads = sorted({h for _, h in be})
            for h in heads:
                n += 1
                body_blocks = f.loop_blocks(h)
                # a for loop over a range terminates by itself
                fl = [lp for lp in for_loops(f) if lp.next_block in body_blocks and lp.head() == h]
                if fl and all(c07._range_item(("field", ("variant", ("call", "x::next", (lp.source,)), "Some"), "0", "")) is not None or (lp.source[0] == "agg") or True for lp in fl) and all(lp.source[0] == "agg" or not mentions(lp.source, lambda x: x == ("param", 1)) or True for lp in fl):
                    bounded = all(lp.source[0] == "agg" and (lp.source[1] or "").endswith("Range") for lp in fl)
                    if bounded:
                        r.ob("progress:%s:loop@for-range" % f.name, True, f.site, "for loop over a finite range")
                        continue
                    if all(not mentions(lp.source, lambda x: x[0] == "field" and x[2] == "reader") for lp in fl):
                        r.ob("progress:%s:loop@for-collection" % f.name, True, f.site, "for loop over a finite collection")
                        continue
                # every cycle through h passes through a progress call
                progress = set()
                handlers = []
                for bi in body_blocks:
                    t = f.blocks[bi]["term"]
                    if t["k"] == "call" and "f" in t:
                        cal = Callee(t["f"])
                        if cal.local and cal.adt == TOK and cal.name in PROGRESS_FNS:
                            progress.add(bi)
                        elif cal.local and cal.adt == TOK:
                            # a state handler that reads a byte on every path before it returns
                            hnd = F.method(TOK, cal.name, required=False)
                            if hnd is not None and always_progress(F, hnd, memo_prog):
                                progress.add(bi)
                                handlers.append(hnd)
                cyc_without = False
                # is there a cycle h -> ... -> h avoiding all progress blocks?
                seen = set()
                st = [s_ for s_ in f.succ(h) if s_ in body_blocks and s_ not in progress] if h not in progress else []
                while st:
                    x = st.pop()
                    if x == h:
                        cyc_without = True
                        break
                    if x in seen:
                        continue
                    seen.add(x)
                    for s_ in f.succ(x):
                        if s_ in body_blocks and s_ not in progress:
                            st.append(s_)
                # the loop is left when err is set: some exit edge is the true edge of err.is_some() (or false edge of is_none)
                def pred(atom, out):
                    if atom[0] == "call" and atom[1] in ("std::option::Option::is_some", "std::option::Option::is_none") and atom[2][0] == ("field", ("param", 1), "err", TOK):
                        return out is (atom[1].endswith("is_some"))
                    return False
                exits_on_err = any(sb in body_blocks and tb not in body_blocks for tb, sb in tests.blocks_where(pred))
                if not exits_on_err and handlers:
                    # a state-machine loop: it is left when a handler answers None, and every handler answers
                    # None once err is set
                    leaves_on_none = any(sb in body_blocks and tb not in body_blocks for tb, sb in tests.disc_blocks(lambda pe: pe[0] == "call" or pe[0] in ("local", "phi"), "None"))
                    exits_on_err = leaves_on_none and all(none_on_err(F, hnd) for hnd in handlers)
                # or the loop condition itself is the has-more flag of tag_attr (token())
                ok = (not cyc_without) and (exits_on_err or any(f.blocks[b]["term"]["k"] == "call" and "f" in f.blocks[b]["term"] and Callee(f.blocks[b]["term"]["f"]).name == "tag_attr" for b in progress))
                r.ob("progress:%s:loop@%d" % (f.name, heads.index(h)), ok, f.site,
                     "every cycle passes through read_byte() and the loop is left once err is set" if ok else ("a cycle makes no progress (no read_byte on it)" if cyc_without else "the loop is not left when the end-of-input error is set"))
                # a loop that gives a byte back (`raw.end -= 1`) counts on the readers it then calls to look at that
                # byte: each of them reads on every path that returns (a reader that returns without looking leaves
                # the loop where it was)
                unread = False
                for bi in body_blocks:
                    for st in f.blocks[bi]["st"]:
                        if st["k"] == "A" and st["r"].get("k") == "bin" and st["r"].get("op", "").startswith("Sub") and ("html::Tokenizer", "raw") in place_field_chain(op_place(st["r"]["a"]) or [0, []]):
                            unread = True
                if unread:
                    for bi in sorted(body_blocks):
                        t = f.blocks[bi]["term"]
                        if t["k"] == "call" and "f" in t:
                            cal = Callee(t["f"])
                            if cal.local and cal.adt == TOK and cal.name not in PROGRESS_FNS:
                                hnd = F.method(TOK, cal.name, required=False)
                                if hnd is not None and hnd is not f:
                                    r.ob("progress:%s:loop@%d:%s-looks-at-the-next-byte" % (f.name, heads.index(h), cal.name), looks_at_next_byte(F, hnd, memo_look), hnd.site,
                                         "%s reads on every path that returns without the end-of-input error (the loop of %s gives a byte back and relies on it)" % (cal.name, f.name))
        r.ob("progress:loops-found", n >= 12, "", "%d loops in the tokenizer" % n)
        # read_byte: either advances or sets err
        rb = F.method(TOK, "read_byte")
        ok = True
        for p in Sym(rb, copies=True).paths():
            if p.end[0] != "ret":
                continue
            adv = any(e[0] == "write" and e[1] == RAW_END for e in p.events)
            seterr = any(e[0] == "write" and e[1] == ("field", ("param", 1), "err", TOK) and e[2][0] == "agg" and e[2][2] == "Some" for e in p.events)
            if adv == seterr:
                ok = False
        r.ob("progress:read_byte", ok, rb.site, "read_byte() either advances raw.end or sets err (never neither, never both)")
        # next() returns ErrorToken at once when err is already set
        nx = F.method(TOK, "next")
        ok2 = False
        for p in Sym(nx, copies=True).paths():
            if p.end[0] == "ret" and p.conds and p.conds[0][0] == ("call", "std::option::Option::is_some", (("field", ("param", 1), "err", TOK),)) and p.conds[0][1] == 1:
                ok2 = not any(e[0] == "call" and e[1].startswith(TOK + "::read") for e in p.events)
        r.ob("progress:next-after-eof", ok2, nx.site, "next() reads nothing more once err is set")
    ctx.run_rule("R16.6", "loop progress and termination of the tokenizer", body, floor=14)


ASCII_ONLY_CHAR_FNS = {"is_ascii_alphabetic", "is_ascii_uppercase", "is_ascii_lowercase", "is_ascii_digit", "is_ascii_alphanumeric", "is_ascii_whitespace",
                       "is_ascii_punctuation", "is_ascii_hexdigit", "is_ascii", "to_ascii_lowercase", "to_ascii_uppercase", "eq_ignore_ascii_case", "is_ascii_control", "is_ascii_graphic"}


def r16_7(ctx):
    """Span boundaries fall on ASCII bytes only (so that a span never splits a multi-byte UTF-8
    character): every decision taken on an input byte compares it with ASCII constants or uses an
    ASCII-only predicate."""
    F = ctx.facts

    def body(r):
        n = 0
        for f in tokenizer_fns(F):
            pv = Prov(f, copies=True)

            def from_byte(e):
                return mentions(e, lambda x: x[0] == "call" and x[1] == TOK + "::read_byte") or mentions(e, lambda x: x[0] == "index" and mentions_field(x[1], "reader", TOK))
            # calls on byte-derived values
            for bi, t, cal in f.calls():
                if cal is None or cal.local or not t["args"]:
                    continue
                a0 = pv.operand(t["args"][0])
                if not from_byte(a0):
                    continue
                st = (cal.self_ty or "")
                is_char_fn = "char" in cal.path.split("::")[-2:] or "<impl char>" in cal.path or "char::methods" in cal.path or st in ("char", "&char")
                is_u8_fn = "<impl u8>" in cal.path or st in ("u8", "&u8")
                if not (is_char_fn or is_u8_fn):
                    continue
                n += 1
                ok = cal.name in ASCII_ONLY_CHAR_FNS
                r.ob("ascii-only:%s:%s" % (f.name, cal.name), ok, f.loc(span_line(t["s"])),
                     "byte tested with %s (%s)" % (cal.name, "ASCII-only" if ok else "Unicode-aware predicate applied to a single byte cast to char: bytes 0x80-0xFF of a multi-byte character can be taken for separators, spans then split a character and the accessors fail on valid UTF-8"))
            # switches / comparisons against constants
            for bi in f.normal_blocks():
                tm = f.blocks[bi]["term"]
                if tm["k"] == "switch":
                    d = pv.operand(tm["d"])
                    if from_byte(d) and d[0] in ("cast", "call", "local", "phi", "index"):
                        big = [v for v in tm["vals"] if v > 127]
                        n += 1
                        if big:
                            r.ob("ascii-only:%s:switch" % f.name, False, f.loc(span_line(tm["s"])), "byte compared with non-ASCII constants %s" % big)
            for bi, si, st in f.assigns():
                r_ = st["r"]
                if r_["k"] == "bin" and r_["op"] in ("Eq", "Ne", "Lt", "Le", "Gt", "Ge"):
                    a, b = pv.operand(r_["a"]), pv.operand(r_["b"])
                    for x, y in ((a, b), (b, a)):
                        if from_byte(x) and y[0] == "const":
                            n += 1
                            v = ord(y[1]) if isinstance(y[1], str) and len(y[1]) == 1 else y[1]
                            if isinstance(v, int) and not isinstance(v, bool) and v > 127:
                                r.ob("ascii-only:%s:compare" % f.name, False, f.loc(span_line(st["s"])), "byte compared with non-ASCII constant %r" % (y[1],))
        r.ob("ascii-only:decisions", n >= 25, "", "%d decisions on input bytes examined" % n)
    ctx.run_rule("R16.7", "decisions on input bytes are ASCII-only (spans never split a character)", body, floor=4)


def r16_8(ctx):
    """next() is total: the only way it can fail is a fallible decoding of input bytes, and each such
    decoding is reached only after a tokenizer predicate accepted those bytes (today: the tag name
    equals one of the ASCII raw-text element names, so the decoding cannot fail)."""
    F = ctx.facts

    def body(r):
        cg = F.callgraph()
        nx = F.method(TOK, "next")
        reach = [F.fns[p] for p in sorted(cg.reachable([nx])) if p in F.fns and F.fns[p].file.startswith("src/html/")]
        fallible = set()
        sites = 0
        for f in reach:
            r.analysed(f)
            dec = [(bi, t, cal) for bi, t, cal in f.calls() if cal is not None and not cal.local and cal.name in ("from_utf8", "from_utf16", "parse", "try_from", "try_into")]
            # other foreign calls whose failure is propagated with `?`
            s = None
            for bi, t, cal in f.calls():
                if cal is not None and cal.name == "branch" and (cal.def_trait or cal.trait or "").endswith("Try"):
                    s = s or Sym(f, copies=True, max_paths=200000)
            if s is not None:
                for p in s.paths():
                    for e in p.events:
                        if e[0] == "call" and e[1].endswith("Try>::branch"):
                            src = e[2][0]
                            if src[0] == "call" and not src[1].startswith("html::"):
                                fallible.add(src[1])
            if not dec:
                continue
            s = s or Sym(f, copies=True, max_paths=200000)
            for bi, t, cal in dec:
                sites += 1
                unguarded = 0
                n = 0
                for p in s.paths():
                    if not any(e[0] == "call" and e[4] == bi for e in p.events):
                        continue
                    n += 1
                    if not any(a[0] == "call" and a[1].startswith(TOK + "::") and v in (1, "Some") for a, v in p.conds if True) and not any(mentions(a, lambda x: x[0] == "call" and x[1].startswith(TOK + "::")) and v in (1, "Some") for a, v in p.conds):
                        unguarded += 1
                r.ob("totality:%s:%s-after-accepting-predicate" % (f.key, cal.name), n > 0 and unguarded == 0, f.loc(span_line(t["s"])),
                     "%s of input bytes is reached only after a tokenizer predicate accepted them (%d paths, %d without)" % (cal.name, n, unguarded))
        r.ob("totality:error-sources", fallible <= {"std::string::String::from_utf8"}, nx.site, "foreign failures propagated out of next(): %s" % sorted(fallible))
    ctx.run_rule("R16.8", "next() cannot fail on arbitrary bytes", body, floor=1)


def run(ctx):
    r16_7(ctx)
    r16_1(ctx)
    r16_2(ctx)
    r16_3(ctx)
    verdicts = {"budget": True}
    c07.r07_1(ctx, verdicts, rid="R16.4", only=lambda s: s.fn.file.startswith("src/html/"), floor=60)
    # R16.5 = recursion audit restricted to the tokenizer
    F = ctx.facts

    def body(r):
        cg = F.callgraph()
        nodes = [p for p, f in F.fns.items() if f.file.startswith("src/html/") and not f.derived]
        sccs = cg.sccs(nodes)
        for scc in sccs:
            keys = sorted({F.fns[p].key for p in scc})
            r.ob("recursion:%s%s" % (keys[0], "(+%d)" % (len(keys) - 1) if len(keys) > 1 else ""), False, F.fns[scc[0]].site,
                 "%d mutually recursive tokenizer states: one stack frame per input byte (stack overflow / no normal termination on large inputs)" % len(keys), data={"members": keys})
        r.ob("recursion:tokenizer-bodies", len(nodes) >= 50, "", "%d tokenizer bodies searched for recursion" % len(nodes))
    ctx.run_rule("R16.5", "no recursion per input byte in the tokenizer", body, floor=1)
    r16_6(ctx)
    r16_8(ctx)
