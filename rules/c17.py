"""C17 — the explain trace agrees with what matching does (structural conditions)."""
from riolib.core import MissingAnchor, span_line
from riolib.prov import Prov, show, mentions, mentions_field, walk
from riolib.sym import Sym, for_loops
from . import layers as LY
from .c01 import any_host_table

THOROUGH_CONFIGS = ['dot', 'router']


PREDICATE_ADTS = ("http::request::Request", "router::route_ip::RouteIp")
PREDICATE_NAMES = ("match_value", "match_ip", "match_datetime")
TREE_PAIR = {"find": "trace"}


def decision_set(f, L):
    req, preds, tree, maps = set(), set(), set(), set()
    for g in f.all_bodies():
        for bi, t, cal in g.calls():
            if cal is None:
                continue
            if cal.local and cal.adt in PREDICATE_ADTS:
                (req if cal.adt == "http::request::Request" else preds).add(cal.key())
            elif cal.local and cal.name in PREDICATE_NAMES:
                preds.add(cal.key())
            elif cal.local and (cal.adt or "").startswith("regex_radix_tree::tree::") and cal.name in ("find", "trace"):
                tree.add((cal.adt, "find"))
    return req, preds, tree


VALUE_CHANGERS = {"to_lowercase", "to_uppercase", "to_ascii_lowercase", "to_ascii_uppercase", "make_ascii_lowercase", "make_ascii_uppercase", "trim", "trim_start", "trim_end",
                  "trim_matches", "trim_start_matches", "trim_end_matches", "replace", "replacen", "strip_prefix", "strip_suffix", "split", "rsplit", "split_once", "rsplit_once"}


def tree_guards(f):
    """under which tests of request values is the regex tree of this layer consulted? (set of condition sets)"""
    out = set()
    s = Sym(f, copies=True, max_paths=200000)
    regions = [s.paths()] + [lp.iteration_paths(s) for lp in for_loops(f)]
    for paths in regions:
        for p in paths:
            for i, e in enumerate(p.events):
                if e[0] == "call" and e[6] is not None and e[6].local and (e[6].adt or "").startswith("regex_radix_tree::tree::") and e[6].name in ("find", "trace"):
                    before = [(x[1], x[2]) for x in p.events[:i] if x[0] == "cond"]
                    def norm(a, v):
                        # `x.is_some()` / `x.is_none()` and a match on x say the same thing
                        if a[0] == "call" and a[1].rsplit("::", 1)[1] in ("is_some", "is_none") and len(a[2]) == 1:
                            some = (v == 1) == a[1].endswith("is_some")
                            return ("disc(%s)" % show(a[2][0])[:150], "Some" if some else "None")
                        if a[0] == "disc":
                            return ("disc(%s)" % show(a[1])[:150], v)
                        return (show(a)[:160], v)
                    g = frozenset(norm(a, v) for a, v in before if mentions(a, lambda x: x[0] == "call" and x[1].startswith("http::request::Request::")))
                    out.add(g)
    return out


def request_value_changes(f):
    """case / whitespace / substring transformations applied to a value a Request accessor returned"""
    out = set()
    for g in f.all_bodies():
        pv = None
        for bi, t, cal in g.calls():
            if cal is None or cal.local or not t["args"]:
                continue
            name = cal.name
            if name not in VALUE_CHANGERS:
                # a transformation handed over by name: `request.scheme().map(str::to_ascii_lowercase)`
                pv = pv or Prov(g, copies=True)
                items = [pv.operand(x) for x in t["args"][1:]]
                items = [x[1][1].rsplit("::", 1)[1] for x in items if x[0] == "const" and isinstance(x[1], tuple) and x[1][0] == "fn"]
                items = [x for x in items if x in VALUE_CHANGERS]
                if not items:
                    continue
                name = items[0]
            pv = pv or Prov(g, copies=True)
            a = pv.operand(t["args"][0])
            if g is not f:
                from riolib.prov import resolve_captures
                a = resolve_captures(a, g, copies=True)
            acc = [x[1] for x in walk(a) if x[0] == "call" and x[1].startswith("http::request::Request::")]
            for k in acc:
                out.add("%s(%s)" % (name, k.rsplit("::", 1)[1]))
    return out


def r17_1(ctx, layers):
    def body(r):
        LY.bucket_coverage(ctx.facts, layers, ("trace",), r)
    ctx.run_rule("R17.1", "every bucket consulted by matching is traced", body, floor=16)


def r17_2(ctx, layers):
    def body(r):
        for L in layers:
            m, t = L.methods["match_request"], L.methods["trace"]
            if m is None or t is None:
                r.missing("%s match_request/trace" % L.short)
                continue
            r.analysed(m, t)
            a, b = decision_set(m, L), decision_set(t, L)
            r.ob("predicates:%s:request-accessors" % L.short, a[0] == b[0], t.site, "match uses %s, trace uses %s" % (sorted(a[0]), sorted(b[0])))
            r.ob("predicates:%s:trigger-predicates" % L.short, a[1] == b[1], t.site, "match uses %s, trace uses %s" % (sorted(a[1]), sorted(b[1])))
            ca, cb = request_value_changes(m), request_value_changes(t)
            r.ob("predicates:%s:request-values-as-matched" % L.short, ca == cb, t.site, "what is compared is the request value as matching sees it: match applies %s, trace applies %s" % (sorted(ca), sorted(cb)))
            if a[2] or b[2]:
                ga, gb = tree_guards(m), tree_guards(t)
                r.ob("predicates:%s:tree-consulted-under-the-same-tests" % L.short, ga == gb, t.site, "match consults the tree under %s, trace under %s" % (sorted(sorted(x) for x in ga), sorted(sorted(x) for x in gb)))
            r.ob("predicates:%s:tree" % L.short, a[2] == b[2], t.site, "regex tree consulted by match: %s, by trace: %s" % (sorted(a[2]), sorted(b[2])))
    ctx.run_rule("R17.2", "trace uses the same request accessors and trigger predicates as matching", body, floor=28)


def r17_3(ctx, layers):
    def body(r):
        L = [x for x in layers if x.short == "HostMatcher"]
        if not L:
            r.missing("HostMatcher")
            return
        L = L[0]
        f = L.methods["trace"]
        r.analysed(f)
        any_host_table(f, L, "trace", r, "trace")
        # the emptiness atom is evaluated on the routes collected from the traces built so far
        ok = False
        for p in Sym(f, copies=True).paths():
            for e in p.events:
                if e[0] == "call" and e[1] == "std::vec::Vec::is_empty" and e[2][0][0] == "call" and e[2][0][1] == "router::trace::Trace::get_routes_from_traces":
                    ok = True
        r.ob("trace:emptiness-of-collected-routes", ok, f.site, "is_empty() is evaluated on get_routes_from_traces(traces so far)")
    ctx.run_rule("R17.3", "any-host table of trace equals that of matching", body, floor=2)


def sort_key_of(f):
    """(sort callee name, return expression of the key closure) for sort_by_key calls in f"""
    out = []
    for bi, t, cal in f.calls():
        if cal and cal.name in ("sort_by_key", "sort_by", "sort_unstable_by_key", "sort_by_cached_key", "sort"):
            cl = None
            for tix in cal.substs:
                ty = f.facts.types[tix]
                if ty.get("k") == "closure":
                    cl = f.facts.fns.get(ty["def"])
            ret = None
            if cl is not None:
                rets = {p.end[1] for p in Sym(cl, copies=True).paths() if p.end[0] == "ret"}
                ret = rets.pop() if len(rets) == 1 else None
            out.append((cal.name, ret, span_line(t["s"])))
    return out


def r17_4(ctx):
    F = ctx.facts

    def body(r):
        a = F.method(LY.ROUTER, "get_route")
        b = F.method(LY.ROUTER, "get_trace")
        r.analysed(a, b)
        ka, kb = sort_key_of(a), sort_key_of(b)
        ok = len(ka) == 1 and len(kb) == 1 and ka[0][0] == kb[0][0] and ka[0][1] is not None and ka[0][1] == kb[0][1]
        r.ob("priority:same-sort-key", ok, b.site, "get_route sorts by %s, get_trace by %s" % ([(n, show(k)) for n, k, _ in ka], [(n, show(k)) for n, k, _ in kb]))
        if ka and ka[0][1] is not None:
            k = ka[0][1]
            desc = k[0] == "agg" and (k[1] or "").endswith("Reverse") and mentions(k, lambda x: x[0] == "call" and x[1] == "router::route::Route::priority")
            r.ob("priority:descending-priority", desc, a.site, "sort key is %s" % show(k))
        for f in (a, b):
            # first() of the sorted list, or into_iter().next() of it
            pvf = Prov(f, copies=True)
            firsts = [1 for bi, t, cal in f.calls() if cal and cal.name == "first"]
            firsts += [1 for bi, t, cal in f.calls() if cal and cal.name == "next" and cal.def_trait == "std::iter::Iterator" and isinstance(t.get("s"), int)
                       and cal.adt in ("std::vec::IntoIter", "std::slice::Iter")]
            r.ob("priority:first-after-sort:%s" % f.name, len(firsts) == 1, f.site, "the selected route is the first element of the sorted list")
        # get_trace assembles its answer from the traces alone: the routes it lists, sorts and selects
        # from are those found in the traces, it does not query the router a second way
        allowed = {LY.ROUTER + "::trace_request", "router::trace::Trace::get_routes_from_traces", "router::route::Route::priority", "router::trace::RouteTrace::new"}
        others = set()
        for bi, t, cal in b.calls():
            if cal is not None and cal.local and not cal.closure and cal.key() not in allowed and cal.trait is None and cal.adt != "router::route::Route":
                others.add(cal.key())
        for c in b.all_bodies():
            if c is b:
                continue
            for bi, t, cal in c.calls():
                if cal is not None and cal.local and not cal.closure and cal.key() not in allowed and cal.trait is None and cal.adt != "router::route::Route":
                    others.add(cal.key())
        r.ob("trace:get_trace:routes-come-from-the-traces", not others, b.site, "get_trace calls no other local function than trace_request / get_routes_from_traces / RouteTrace::new / accessors of Route: %s" % sorted(others))
        # trace_request normalises the request before tracing
        g = F.method(LY.ROUTER, "trace_request")
        r.analysed(g)
        pv = Prov(g)
        ok = False
        def is_rebuild(e, req):
            return e[0] == "call" and e[1] == "http::request::Request::rebuild_with_config" and mentions(e, lambda x: x == req)
        # on every path (the rebuild also sorts and re-encodes the query: it is not only "apply the flags")
        n_tr = 0
        all_paths_ok = True
        for p_ in Sym(g, copies=True).paths():
            for e in p_.events:
                if e[0] == "call" and e[6] is not None and e[6].local and e[6].name == "trace":
                    n_tr += 1
                    a_ = e[2][1]
                    if not (is_rebuild(a_, ("param", 2)) or (a_[0] == "call" and a_[2] and a_[2][-1] == ("param", 2) and a_[1] == LY.ROUTER + "::rebuild_request")):
                        all_paths_ok = False
        for bi, t, cal in g.calls():
            if cal and cal.local and cal.name == "trace":
                arg = pv.operand(t["args"][1])
                ok = is_rebuild(arg, ("param", 2))
                if not ok and arg[0] == "call" and arg[2] and arg[2][-1] == ("param", 2):
                    # a one-line wrapper of the router that returns rebuild_with_config(config, request)
                    w = F.fn(arg[1], required=False)
                    if w is not None and w.adt == LY.ROUTER:
                        rets = {p.end[1] for p in Sym(w, copies=True).paths() if p.end[0] == "ret"}
                        ok = len(rets) == 1 and all(is_rebuild(e, ("param", w.argc)) for e in rets)
        r.ob("trace:normalised-request", ok and all_paths_ok and n_tr >= 1, g.site, "matcher.trace receives rebuild_with_config(config, request) on every path")
    ctx.run_rule("R17.4", "same priority key in get_route and get_trace; trace runs on the normalised request", body, floor=6)


def r17_5(ctx):
    """The action trace folds the traced rules exactly like the live fold (Action::from_routes_rule):
    same per-rule table (reset => take, else merge, stop => last step), one step recorded per rule
    after its contribution, and an order that is rank-descending like the rule order used by the
    live fold (priority = -rank, ascending)."""
    F = ctx.facts
    from .c05 import fold_semantics, FOLD_REF

    def body(r):
        f = F.fn("action::trace::TraceAction::from_trace_rules")
        g = F.fn("action::Action::from_routes_rule")
        r.analysed(f, g)
        rows_t, lp_t = fold_semantics(f)
        rows_a, lp_a = fold_semantics(g)
        if rows_t is None or rows_a is None:
            r.ob("fold-agreement:extract", False, f.site, "cannot extract the per-rule table of %s" % ("from_trace_rules" if rows_t is None else "from_routes_rule"))
            return

        def expand(rows):
            out = {}
            for (pr, rs, st), v in rows.items():
                for a in ([pr] if pr is not None else [True, False]):
                    for b in ([rs] if rs is not None else [True, False]):
                        for c in ([st] if st is not None else [True, False]):
                            out.setdefault((a, b, c), set()).add(v)
            return out
        et, ea = expand(rows_t), expand(rows_a)
        bad = []
        for k in sorted(FOLD_REF):
            if et.get(k) != ea.get(k) or et.get(k) != {FOLD_REF[k]}:
                bad.append("produced=%s reset=%s stop=%s: trace %s, live fold %s" % (k + (sorted(et.get(k, ())), sorted(ea.get(k, ())))))
        for k, v in et.items():
            if not k[0] and any(eff != "none" for eff, _ in v):
                bad.append("a rule that produced no action changes the traced action")
        r.ob("fold-agreement:table", not bad, f.loc(lp_t.line), "from_trace_rules and from_routes_rule apply reset / merge / stop identically (4 rows)" if not bad else "; ".join(bad[:3]))
        # one step is recorded per rule, after its contribution and before a stop return
        s = Sym(f, copies=True)
        okp = True
        n = 0
        for p in lp_t.iteration_paths(s):
            n += 1
            idx_push = [i for i, e in enumerate(p.events) if e[0] == "call" and e[1] == "std::vec::Vec::push" and mentions(e[2][1], lambda x: x[0] == "agg" and x[1] == "action::trace::TraceAction")]
            idx_eff = [i for i, e in enumerate(p.events) if (e[0] == "call" and e[1] == "action::Action::merge") or (e[0] in ("set", "init") and mentions(e[3], lambda x: x[0] == "call" and x[1] == "action::Action::from_route_rule") and not mentions(e[3], lambda x: x[0] == "disc"))]
            if len(idx_push) != 1:
                okp = False
            elif any(i > idx_push[0] for i in idx_eff if p.events[i][0] == "call"):
                okp = False
        r.ob("fold-agreement:one-step-per-rule", okp and n >= 3, f.loc(lp_t.line), "every iteration records exactly one step, after the rule's contribution (%d paths)" % n)
        # order: sort_by_key(priority) ascending, priority = 0 - rank, dominates the loop
        ks = sort_key_of(f)
        k = ks[0][1] if len(ks) == 1 else None
        asc = k is not None and k[0] == "call" and k[1] == "router::route::Route::priority"
        sort_blocks = [bi for bi, tm, cal in f.calls() if cal and cal.name in ("sort_by_key", "sort_by", "sort_unstable_by_key", "sort_by_cached_key", "sort")]
        dom = len(sort_blocks) == 1 and f.dominates(sort_blocks[0], lp_t.head())
        r.ob("fold-agreement:order", asc and dom, f.site, "routes are sorted by ascending priority before the fold (key %s)" % (show(k) if k is not None else None))
        cands = [x for x in F.fn_list if x.name == "into_route" and "api::rule::Rule" in x.key]
        h = cands[0] if len(cands) == 1 else None
        okr = False
        if h is not None:
            r.analysed(h)
            pv = Prov(h, copies=True)
            for bi, tm, cal in h.calls():
                if cal and cal.key() == "router::route::Route::new":
                    a = pv.operand(tm["args"][11])
                    inner = a[2] if a[0] == "field" and a[1][0] == "bin" else a
                    x = a[1] if (a[0] == "field" and a[1][0] == "bin") else a
                    okr = x[0] == "bin" and x[1].startswith("Sub") and x[2] == ("const", 0) and mentions_field(x[3], "rank", "api::rule::Rule")
        r.ob("fold-agreement:priority-is-minus-rank", okr, h.site if h else f.site, "Route priority = 0 - rule.rank, so ascending priority is the descending rank of the live fold's rule order (R11.2)")
        # the live fold sees every matched rule once (the layers that store one route in several buckets de-duplicate their
        # union: R01.7); the trace lists such a route once per bucket, so the list the action trace folds over has to be
        # de-duplicated, in from_trace_rules or where the routes are collected from the traces
        SETS = ("std::collections::HashSet", "std::collections::BTreeSet", "std::collections::HashMap", "std::collections::BTreeMap")
        col = F.fn("router::trace::Trace::get_routes_from_traces", required=False)
        dd = False
        for fn_ in [f] + ([col] if col is not None else []):
            srt = any(cal and cal.name.startswith("sort") for b_ in fn_.all_bodies() for _bi, _t, cal in b_.calls())
            for b_ in fn_.all_bodies():
                for _bi, _t, cal in b_.calls():
                    if cal and ((cal.name in ("insert", "contains", "contains_key", "entry") and cal.adt in SETS) or (cal.name in ("dedup", "dedup_by", "dedup_by_key") and srt and fn_ is f and False)):
                        dd = True
        r.ob("fold-agreement:each-rule-once", dd, f.site, "the routes collected from the traces are de-duplicated before the fold" if dd else "a route traced in several buckets (several matching ip ranges) is folded once per bucket: its filters are applied twice in the action trace, once by the live pipeline")
    ctx.run_rule("R17.5", "the action trace folds like the live fold", body, floor=4)


def r17_6(ctx, layers):
    F = ctx.facts

    def regions_of(f, s):
        yield s.paths()
        for lp in for_loops(f):
            yield lp.iteration_paths(s)

    def gate(r, f, tag):
        n = 0
        s = Sym(f, copies=True, max_paths=60000)
        bad = set()
        for paths in regions_of(f, s):
            for p in paths:
                condmap = {a: v for a, v in p.conds}
                for e in p.events:
                    if e[0] != "call" or e[1] != "router::trace::Trace::new":
                        continue
                    n += 1
                    m, children = e[2][0], e[2][3]
                    unmatched = m == ("const", False) or condmap.get(m) == 0
                    if not unmatched and m[0] == "un" and m[1] == "Not" and condmap.get(m[2]) == 1:
                        unmatched = True
                    if unmatched:
                        empty = children == ("call", "std::vec::Vec::new", ()) or (children[0] == "local" and any(x[0] == "init" and x[1] == children[1] and x[3] == ("call", "std::vec::Vec::new", ()) for x in p.events) and not any(x[0] == "call" and x[1].startswith("std::vec::Vec::") and x[2] and x[2][0] == children and x[1].rsplit("::", 1)[1] in ("push", "extend") for x in p.events))
                        if not empty:
                            bad.add(e[5])
        r.ob("gating:%s" % tag, not bad and n > 0, f.site,
             "every Trace::new(matched=false, ..) carries no children (%d constructions on all paths)" % n if not bad else "unmatched trace node with children at lines %s" % sorted(bad))
        # the converse for what was traced: the trace a child matcher returned is attached as it is (as
        # the children of a node, or appended to / returned as this layer's list), never dropped or edited
        lost = set()
        k = 0
        defs = f.defs()
        all_events = [x for paths in regions_of(f, s) for p in paths for x in list(p.events) + ([("ret", p.end[1])] if p.end[0] == "ret" else [])]

        def carried(v):
            """is value / local `v` what some node carries, what is appended to the list, or what is returned?"""
            for x in all_events:
                if x[0] == "call" and x[1] == "router::trace::Trace::new" and x[2][3] == v:
                    return True
                if x[0] == "call" and x[1].rsplit("::", 1)[1] in ("extend", "push", "append") and any(a_ == v for a_ in x[2][1:]):
                    return True
                if x[0] == "ret" and x[1] == v:
                    return True
            return False
        for paths in regions_of(f, s):
            for p in paths:
                for i, e in enumerate(p.events):
                    if e[0] != "call" or e[6] is None or not e[6].local or e[6].name != "trace" or "request_matcher" not in e[1]:
                        continue
                    k += 1
                    res = e[3]
                    used = carried(res)
                    for x in p.events[i + 1:]:
                        if x[0] in ("init", "set") and x[3] == res:
                            # held in a variable: that variable is assigned nothing else, and is what is carried
                            used = used or (len(defs.get(x[1], ())) == 1 and carried(("local", x[1])))
                    if not used:
                        lost.add(e[5])
        if k:  # (the last layer has no child matcher)
            r.ob("attached:%s" % tag, not lost, f.site,
                 "every child trace computed is attached unmodified (%d child trace calls on all paths)" % k if not lost else "child trace computed at line(s) %s is not what the node carries" % sorted(lost))

    def body(r):
        for L in layers:
            f = L.methods["trace"]
            if f is None:
                continue
            r.analysed(f)
            gate(r, f, L.short)
        # consumers of the regex-tree trace: children / stored routes only under `matched`
        for key, owner in (("router::request_matcher::host::tree_trace_to_trace", "router::request_matcher::host::HostMatcher"), ("router::request_matcher::path_and_query::tree_trace_to_trace", "router::request_matcher::path_and_query::PathAndQueryMatcher")):
            f = F.fn(key, required=False)
            if f is None:
                # found by role: the function the layer's trace() calls with the regex-tree trace
                cg = F.callgraph()
                cands = [F.fns[p] for p in sorted(cg.edges.get(F.method(owner, "trace").path, ())) if p in F.fns]
                cands = [g for g in cands if not g.is_closure and any("regex_radix_tree::trace::Trace" in g.local_ty(i).get("adts", ()) for i in range(1, g.argc + 1))
                         and any(c.key() == "router::trace::Trace::new" for _, _, c in g.calls() if c is not None)]
                if len(cands) != 1:
                    raise MissingAnchor("consumer of the regex-tree trace in %s::trace: %d candidates" % (owner, len(cands)))
                f = cands[0]
            r.analysed(f)
            s = Sym(f, copies=True)
            bad = []
            seen = 0
            regions = [s.paths()] + [lp.iteration_paths(s) for lp in for_loops(f)]
            for paths in regions:
                for p in paths:
                    condmap = {a: v for a, v in p.conds}
                    matched_false = any(a[0] == "field" and a[2] == "matched" and v == 0 for a, v in p.conds)
                    for e in p.events:
                        if e[0] == "call" and e[1].endswith("::trace") and "request_matcher" in e[1]:
                            seen += 1
                            gated = any(a[0] == "field" and a[2] == "matched" and v == 1 for a, v in p.conds)
                            if not gated:
                                bad.append("child matcher traced without testing tree_trace.matched (line %s)" % e[5])
                        if e[0] == "call" and e[1] == "router::trace::Trace::new":
                            info = e[2][4]
                            for x in walk(info):
                                if x[0] == "agg" and x[2] == "Storage":
                                    seen += 1
                                    routes = dict(x[3]).get("routes")
                                    if matched_false and routes != ("call", "std::vec::Vec::new", ()):
                                        bad.append("Storage routes filled although tree_trace.matched is false")
                                    if not any(a[0] == "field" and a[2] == "matched" for a, v in p.conds):
                                        bad.append("Storage routes do not depend on tree_trace.matched")
            r.ob("gating:%s" % key.rsplit("::", 2)[1] + "::tree_trace_to_trace", not bad and seen > 0, f.site,
                 "routes / child traces under a regex-tree node are reported only when the node matched" if not bad else "; ".join(sorted(set(bad))))
        # the tree itself: Node::trace descends only when the node regex matched, with the same predicate as find
        nt = F.method("regex_radix_tree::node::Node", "trace")
        from .c08 import traversal_roles
        nf = traversal_roles(F, "find")[2]
        r.analysed(nt, nf)
        for f in (nt, nf):
            s = Sym(f, copies=True)
            ok = True
            n = 0
            for lp in for_loops(f):
                if lp.source != ("field", ("param", 1), "children", "regex_radix_tree::node::Node"):
                    continue  # a nested loop over a child's result is inside the gated loop
                n += 1
                # loop is entered only on is_match == true
                for p in s.paths(start=0, stops={lp.next_block}):
                    if p.end[0] == "stop":
                        if not any(a[0] == "call" and a[1] == "regex::LazyRegex::is_match" and v == 1 for a, v in p.conds) and not any(a[0] == "call" and a[1] == "regex::LazyRegex::is_match" for a, v in []):
                            # `matched` may be held in a variable: accept a cond on the call value
                            ok = ok and any(mentions(a, lambda x: x[0] == "call" and x[1] == "regex::LazyRegex::is_match") and v == 1 for a, v in p.conds)
            r.ob("gating:Node::%s" % ("trace" if f is nt else "find"), ok and n == 1, f.site, "children are visited only when the node's own regex matched (LazyRegex::is_match)")
    ctx.run_rule("R17.6", "unmatched branches of the trace carry no routes, matched ones carry the child trace", body, floor=16)


def equal_flag_invariants(f, outer, inner, s):
    """Pairs of named bool locals that are provably equal whenever the inner loop head is reached:
    both are set to the same constant on the way from the outer body to the inner loop, and every
    inner iteration leaves them with the same value."""
    cands = set()
    its = list(inner.iteration_paths(s))
    tested = set()
    for p in its:
        for a, v in p.conds:
            if a[0] == "local" and f.local_name(a[1]):
                tested.add(a[1])
    out = set()
    tested = sorted(tested)
    for i, x in enumerate(tested):
        for y in tested[i + 1:]:
            ok = True
            # (a) initialisation
            inits = 0
            for p in s.paths(start=outer.body, stops={inner.next_block, inner.head()}):
                if p.end[0] != "stop":
                    continue
                sx = [e[3] for e in p.events if e[0] == "set" and e[1] == x]
                sy = [e[3] for e in p.events if e[0] == "set" and e[1] == y]
                inits += 1
                if not sx or not sy or sx[-1] != sy[-1] or sx[-1][0] != "const":
                    ok = False
            # (b) preservation
            for p in its:
                if p.end[0] != "stop":
                    continue
                sx = [e[3] for e in p.events if e[0] == "set" and e[1] == x]
                sy = [e[3] for e in p.events if e[0] == "set" and e[1] == y]
                if not sx or not sy or sx[-1] != sy[-1]:
                    ok = False
            if ok and inits:
                out.add((x, y))
    return out


def r17_7(ctx, layers):
    """The per-request memo of condition results stores, in trace as in matching, the result of
    evaluating that very condition (so that a later group sees what matching would compute)."""
    def body(r):
        for L in layers:
            if L.short not in ("HeaderMatcher", "DateTimeMatcher"):
                continue
            for op in ("match_request", "trace"):
                f = L.methods[op]
                r.analysed(f)
                s = Sym(f, copies=True, max_paths=200000)
                lps = for_loops(f)
                outer = [lp for lp in lps if mentions_field(lp.source, "condition_groups", L.adt) and lp.source[0] == "field" and lp.source[2] == "condition_groups"]
                inner = [lp for lp in lps if lp not in outer and mentions(lp.source, lambda x: x[0] == "call" and x[1].endswith("Iterator>::next"))]
                if len(outer) != 1 or len(inner) != 1:
                    r.ob("memo:%s::%s:loops" % (L.short, op), False, f.site, "expected one loop over condition_groups and one over the group's conditions (%d, %d)" % (len(outer), len(inner)))
                    continue
                outer, inner = outer[0], inner[0]
                inv = equal_flag_invariants(f, outer, inner, s)
                bad = set()
                n_ins = 0
                for p in inner.iteration_paths(s):
                    cm = {a: v for a, v in p.conds}
                    if any(cm.get(("local", x)) is not None and cm.get(("local", y)) is not None and cm[("local", x)] != cm[("local", y)] for x, y in inv):
                        continue  # infeasible under the established invariant
                    ev = [e for e in p.events if e[0] == "call" and e[1].rsplit("::", 1)[1] == "match_value"]
                    for e in p.events:
                        if e[0] == "call" and e[1].rsplit("::", 1)[1] == "insert" and ("BTreeMap" in e[1] or "HashMap" in e[1]) and (e[2][0][0] in ("local", "param", "havoc") or (e[2][0][0] == "field" and e[2][0][1][0] in ("local", "havoc")) or (e[2][0][0] == "call" and e[2][0][1].endswith("Map::new"))):
                            n_ins += 1
                            val = e[2][2]
                            if not ev:
                                bad.add("a memo entry is written without evaluating the condition")
                                continue
                            if val != ev[-1][3]:
                                bad.add("stores %s, not the result of match_value" % show(val, f)[:60])
                r.ob("memo:%s::%s" % (L.short, op), not bad and n_ins >= 1, f.site,
                     "every memo write stores the match_value result of that condition%s" % ((" (flag invariants used: %s)" % sorted((f.local_name(x), f.local_name(y)) for x, y in inv)) if inv else "") if not bad else "; ".join(sorted(bad)) + ": a later group reads a value matching would not have computed")
    ctx.run_rule("R17.7", "condition memo agrees between matching and trace", body, floor=4)


def run(ctx):
    try:
        layers = LY.discover(ctx.facts)
    except MissingAnchor as e:
        r = ctx.rule("R17.0", "layer discovery")
        r.missing(str(e))
        return
    r17_1(ctx, layers)
    r17_2(ctx, layers)
    r17_3(ctx, layers)
    r17_4(ctx)
    r17_5(ctx)
    r17_6(ctx, layers)
    r17_7(ctx, layers)
