"""C18 — the C interface keeps ownership and memory contracts."""
from riolib.core import Callee, MissingAnchor, op_place, span_line, is_expansion
from riolib.prov import Prov, show, mentions, mentions_field, walk
from riolib.sym import Sym, for_loops

THOROUGH_CONFIGS = ['dot']
WITNESSES = ['w2']


MANIFEST = {
    "text": "Static decision of the ownership contracts visible in types and paths: a producer/consumer pairing table of every raw-ownership transfer (Box::into_raw / CString::into_raw / mem::forget vs Box::from_raw / from_raw_parts) with the owner *type* on both sides, which fixes the deallocation layout; null-guard dominance before every dereference or re-owning of a raw pointer; Buffer is move-only (no Copy, consuming operations take self by value); non-consuming operations reach no consumer; every extern \"C\" function calls its native counterpart; no use after release inside the library. Also: the caller's header list is read to its end (R18.10). Also (round 5): every return of a wrapper that skips its native counterpart follows a null pointer or an unusable input (R18.5), and every static that can change is reviewed by name — the library keeps no state between calls (R18.11).",
    "technique": "static analysis: ownership pairing table + guard dominance over MIR, call-graph reachability, type-level checks",
}

BUFFER = "filter::buffer::Buffer"
PRODUCERS = {("std::boxed::Box", "into_raw"), ("std::ffi::CString", "into_raw"), ("std::mem", "forget"), ("std::boxed::Box", "leak"), ("std::vec::Vec", "leak"), ("std::mem::ManuallyDrop", "new")}
CONSUMERS = {("std::boxed::Box", "from_raw"), ("std::ffi::CString", "from_raw"), ("std::vec::Vec", "from_raw_parts"), ("std::string::String", "from_raw_parts")}
# kinds that are handed to C and have no release function in the C API (reviewed)
NO_CONSUMER_OK = {
    "Box<http::ffi::HeaderMap>": "header list nodes are released by the C caller (no drop function in the C API)",
    "CString": "C strings returned to the caller are released by the caller (no drop function in the C API)",
    "Box<http::ffi::TrustedProxies>": "documented: created once, never freed",
    "Box<trusted_proxies::Config>": "documented: created once, never freed",
}
NATIVE = {
    "redirectionio_action_json_deserialize": ["serde_json::from_str"],
    "redirectionio_action_json_serialize": ["serde_json::to_string"],
    "redirectionio_action_get_status_code": ["action::Action::get_status_code"],
    "redirectionio_action_header_filter_filter": ["action::Action::filter_headers"],
    "redirectionio_action_body_filter_create": ["action::Action::create_filter_body"],
    "redirectionio_action_body_filter_filter": ["filter::filter_body::FilterBodyAction::filter"],
    "redirectionio_action_body_filter_close": ["filter::filter_body::FilterBodyAction::end"],
    "redirectionio_action_should_log_request": ["action::Action::should_log_request"],
    "redirectionio_api_create_log_in_json": ["api::log::Log::from_proxy", "serde_json::to_string"],
    "redirectionio_request_json_deserialize": ["serde_json::from_str"],
    "redirectionio_request_json_serialize": ["serde_json::to_string"],
    "redirectionio_request_create": ["http::request::Request::new", "http::query::PathAndQueryWithSkipped::from_config", "http::request::Request::add_header"],
    "redirectionio_request_from_str": ["str::parse"],
    "redirectionio_request_set_remote_addr": ["http::request::Request::set_remote_ip"],
    "redirectionio_api_buffer_drop": ["filter::buffer::Buffer::into_vec"],
}


def callee_group(cal):
    if cal.adt:
        return (cal.adt, cal.name)
    p = cal.def_path
    if p.startswith("std::mem::") or p.startswith("core::mem::"):
        return ("std::mem", cal.name)
    return (None, cal.name)


def owner_kind(F, cal, f, t):
    g = callee_group(cal)
    subst = [F.types[x]["s"] for x in cal.substs]
    if g[0] == "std::boxed::Box":
        return "Box<%s>" % (subst[0] if subst else "?")
    if g[0] == "std::ffi::CString":
        return "CString"
    if g == ("std::mem", "forget") or g[0] == "std::mem::ManuallyDrop":
        s0 = subst[0] if subst else "?"
        if s0.startswith("std::boxed::Box<") and s0.endswith(">"):
            return "Box<%s>" % s0[len("std::boxed::Box<"):-1]
        return s0
    if g[0] == "std::vec::Vec":
        return "std::vec::Vec<%s>" % (subst[0] if subst else "?")
    if g[0] == "std::string::String":
        return "std::string::String"
    return "?"


def extern_fns(F):
    return [f for f in F.fn_list if f.abi.startswith("C")]


def r18_1(ctx):
    F = ctx.facts

    def body(r):
        prod, cons = {}, {}
        for f in F.fn_list:
            if f.derived:
                continue
            for bi, t, cal in f.calls():
                if cal is None or cal.local:
                    continue
                g = callee_group(cal)
                if g in PRODUCERS:
                    prod.setdefault(owner_kind(F, cal, f, t), []).append((f, span_line(t["s"])))
                elif g in CONSUMERS:
                    cons.setdefault(owner_kind(F, cal, f, t), []).append((f, span_line(t["s"])))
        r.note("producers: %s" % {k: [x[0].name for x in v] for k, v in prod.items()})
        r.note("consumers: %s" % {k: [x[0].name for x in v] for k, v in cons.items()})
        # Buffer: the owner type forgotten when a Buffer is built must be the owner type rebuilt when it is released
        bprod = {k for k, v in prod.items() if any(x[0].adt == BUFFER for x in v)}
        bcons = {k for k, v in cons.items() if any(x[0].adt == BUFFER for x in v)}
        sites = [x for k, v in prod.items() for x in v if x[0].adt == BUFFER]
        for k in sorted(bprod):
            for f, line in [x for x in prod[k] if x[0].adt == BUFFER]:
                ok = k in bcons
                r.ob("pairing:Buffer:%s:%s" % (f.name, k), ok, f.loc(line),
                     "Buffer built in %s by forgetting a `%s`, released as %s%s" % (f.name, k, sorted(bcons), "" if ok else ": the deallocation layout (size) differs whenever capacity != length"))
        r.ob("pairing:Buffer:producers-found", len(sites) >= 1, "", "%d Buffer producers" % len(sites))
        r.ob("pairing:Buffer:consumer-found", len(bcons) == 1, "", "Buffer consumers: %s" % sorted(bcons))
        # every other consumer has a producer of the same owner type and vice versa (or a reviewed reason)
        for k, v in sorted(cons.items()):
            if any(x[0].adt == BUFFER for x in v):
                continue
            for f, line in v:
                r.ob("pairing:consumer:%s:%s" % (k, f.name), k in prod, f.loc(line), "%s re-owns a %s; producers of that type: %s" % (f.name, k, [x[0].name for x in prod.get(k, [])]))
        for k, v in sorted(prod.items()):
            if any(x[0].adt == BUFFER for x in v):
                continue
            if k in cons:
                r.ob("pairing:producer:%s" % k, True, v[0][0].loc(v[0][1]), "%s produced at %d sites, released by %s" % (k, len(v), sorted({x[0].name for x in cons[k]})))
            elif k in NO_CONSUMER_OK:
                r.exception("pairing:producer:%s" % k, NO_CONSUMER_OK[k])
                r.ob("pairing:producer:%s" % k, True, v[0][0].loc(v[0][1]), "no consumer: " + NO_CONSUMER_OK[k])
            else:
                r.ob("pairing:producer:%s" % k, False, v[0][0].loc(v[0][1]), "%s is leaked to the caller and nothing in the library can release it" % k)
    ctx.run_rule("R18.1", "ownership pairing table (owner type on both sides)", body, floor=12)


# ---------------------------------------------------------------------------------------
RAW_USERS = {("std::boxed::Box", "from_raw"), ("std::slice", "from_raw_parts"), ("std::slice", "from_raw_parts_mut"), ("std::ffi::CStr", "from_ptr"),
             ("std::vec::Vec", "from_raw_parts"), ("std::string::String", "from_raw_parts"), ("std::ffi::CString", "from_raw")}
FIELD_PTR_OK = {("http::ffi::TrustedProxies", "0"): "TrustedProxies.0 is created non-null by redirectionio_trusted_proxies_create and never freed (documented)"}


def raw_pointer_uses(f):
    """(block, pointer expression, what, line) for every dereference / re-owning of a raw pointer."""
    F = f.facts
    pv = Prov(f)
    out = []
    for bi in f.normal_blocks():
        b = f.blocks[bi]
        for st in b["st"]:
            if st["k"] != "A":
                continue
            places = []
            r = st["r"]
            if r["k"] in ("ref", "rawptr"):
                places.append(r["p"])
            elif r["k"] in ("use", "cast"):
                p = op_place(r["o"])
                if p is not None:
                    places.append(p)
            places.append(st["p"])
            for pl in places:
                l, projs = pl
                # a deref whose base (local plus projections so far) has raw pointer type
                if "*" not in projs:
                    continue
                ty = F.types[f.locals[l][0]]
                idx = projs.index("*")
                if idx == 0 and ty.get("k") == "ptr":
                    if is_expansion(st.get("s")):
                        continue
                    out.append((bi, pv.local(l), "deref", span_line(st["s"])))
        t = b["term"]
        if t["k"] == "call" and "f" in t:
            cal = Callee(t["f"])
            g = (cal.adt, cal.name)
            if cal.adt is None and ("slice::from_raw_parts" in cal.def_path or "slice::raw::from_raw_parts" in cal.def_path):
                g = ("std::slice", cal.name)
            if g in RAW_USERS and t["args"]:
                out.append((bi, pv.operand(t["args"][0]), cal.name, span_line(t["s"])))
    return out, pv


def null_guards(f, pv):
    """[(pointer expression, first block reached only when it is non-null)] -- from the function's
    two-way tests, including what is implied through `&&` / `||` temporaries (a helper
    `!p.is_null() && len != 0` inlined into its caller)."""
    from riolib.guards import Tests
    tests = Tests(f, pv)
    is_null_of = lambda atom: atom[2][0] if atom[0] == "call" and atom[1].rsplit("::", 1)[1] == "is_null" and atom[2] else None
    ptrs = []
    for atom, tb, fb, sb in tests.bool_edges:
        q = is_null_of(atom)
        if q is not None and q not in ptrs:
            ptrs.append(q)
    out = []
    doms = f.dominators()
    for q in ptrs:
        for tb, sb in tests.blocks_where(lambda atom, outcome, q=q: is_null_of(atom) == q and outcome is False):
            # the block must be entered only through that edge
            preds = [p for p in f.pred(tb) if p in doms]
            if all(p == sb or f.dominates(tb, p) for p in preds):
                out.append((q, tb))
    return out


def r18_2(ctx, rid="R18.2"):
    F = ctx.facts

    def body(r):
        n = 0
        unsafe_fns = {u["fn"] for u in F.unsafe_blocks} | {g.path for g in F.fn_list if g.j.get("unsafe")}
        for f in F.fn_list:
            if f.derived or f.path not in unsafe_fns:
                continue  # safe code cannot dereference or re-own a raw pointer
            uses, pv = raw_pointer_uses(f)
            # Box derefs are lowered to raw pointer derefs of Unique.pointer: not raw pointer uses
            uses = [u for u in uses if not mentions(u[1], lambda x: x[0] == "field" and x[2] == "pointer" and (x[3] or "").startswith("std::ptr::"))]
            if not uses:
                continue
            r.analysed(f)
            guards = null_guards(f, pv)
            for bi, p, what, line in uses:
                n += 1
                key = "null-guard:%s:%s:%s" % (f.key, what, show(p, f))
                exc = None
                for x in walk(p):
                    if x[0] == "field" and (x[3], x[2]) in FIELD_PTR_OK:
                        exc = FIELD_PTR_OK[(x[3], x[2])]
                if exc:
                    r.exception(key, exc)
                    r.ob(key, True, f.loc(line), "exception: " + exc)
                    continue
                # pointer produced in this very function from an owned allocation (never null)
                if p[0] == "call" and (p[1] in ("slice::from_raw_parts_mut", "std::slice::from_raw_parts_mut") or "from_raw_parts" in p[1]):
                    inner = p[2][0]
                    ok = any(q == inner and f.dominates(nb, bi) for q, nb in guards)
                    r.ob(key, ok, f.loc(line), "%s of a slice rebuilt from a %s pointer" % (what, "guarded" if ok else "unguarded"))
                    continue
                ok = False
                for q, nb in guards:
                    same = q == p or (q[0] == "phi" and p[0] == "phi" and set(q[1]) == set(p[1]))
                    if same and f.dominates(nb, bi):
                        ok = True
                r.ob(key, ok, f.loc(line), "%s of raw pointer `%s` %s" % (what, show(p, f), "is dominated by the non-null edge of an is_null test of the same pointer" if ok else "is not dominated by a non-null test"))
        r.ob("null-guard:sites", n >= 12, "", "%d raw pointer dereference / re-owning sites" % n)
        # every extern "C" function with raw pointer parameters only hands them to guarded helpers or tests them itself
        helpers_ok = {"ffi_helpers::c_char_to_str", "http::ffi::header_map_to_http_headers"}
        for f in extern_fns(F):
            pv = Prov(f)
            ptr_params = [k for k in range(1, f.argc + 1) if F.types[f.locals[k][0]].get("k") == "ptr"]
            for k in ptr_params:
                # all uses of the parameter: is_null, guarded helper, or (after a guard) deref / from_raw
                bad = []
                for bi, t, cal in f.calls():
                    if cal is None:
                        continue
                    for a in t["args"]:
                        apl = op_place(a)
                        if apl is not None and F.types[f.locals[apl[0]][0]].get("k") != "ptr":
                            continue  # a reference obtained under a guard, not the raw pointer itself
                        if pv.operand(a) == ("param", k):
                            if cal.name == "is_null" or cal.key() in helpers_ok or (cal.adt, cal.name) in RAW_USERS or (not cal.local and cal.name in ("as_ref", "as_mut") and "ptr" in cal.path):
                                # (`<*mut T>::as_mut` / `as_ref` test the pointer themselves and yield an Option)
                                continue
                            bad.append(cal.key())
                r.ob("null-guard:param:%s:%s" % (f.name, f.local_name(k) or k), not bad, f.site, "raw pointer parameter is only tested, dereferenced under a guard or passed to null-safe helpers" if not bad else "raw pointer passed unguarded to %s" % bad)
    ctx.run_rule(rid, "null-guard dominance before every raw pointer use", body, floor=40)


def r18_3(ctx):
    F = ctx.facts

    def body(r):
        copy = [i for i in F.impls if i.get("adt") == BUFFER and i.get("trait") == "std::marker::Copy"]
        r.ob("buffer:not-Copy", not copy, "", "Buffer does not implement Copy (a double release cannot be written in safe Rust)")
        dropi = [i for i in F.impls if i.get("adt") == BUFFER and i.get("trait") == "std::ops::Drop"]
        r.ob("buffer:no-Drop", not dropi, "", "Buffer has no Drop impl (release happens only through into_vec; a Drop impl would free buffers handed to C)")
        f = F.method(BUFFER, "into_vec")
        t0 = F.types[f.j["inputs"][0]]
        r.ob("buffer:into_vec-by-value", t0.get("adt") == BUFFER and t0.get("k") == "adt", f.site, "into_vec takes %s" % t0["s"])
        for name in ("to_vec", "duplicate"):
            g = F.method(BUFFER, name)
            tg = F.types[g.j["inputs"][0]]
            r.ob("buffer:%s-by-ref" % name, tg.get("k") == "ref" and not tg.get("mut"), g.site, "%s takes %s" % (name, tg["s"]))
        a = F.adt(BUFFER)
        r.ob("buffer:repr-C", a["repr_c"], "", "Buffer is #[repr(C)]")
        flds = [(fl["name"], F.types[fl["ty"]]["s"]) for fl in a["variants"][0]["fields"]]
        r.ob("buffer:layout", flds == [("data", "*mut u8"), ("len", "usize")], "", "Buffer fields: %s" % flds)
    ctx.run_rule("R18.3", "Buffer is move-only with a C layout", body, floor=6)


def r18_4(ctx):
    F = ctx.facts

    def body(r):
        cg = F.callgraph()
        for name, trait in (("to_vec", None), ("duplicate", None), ("clone", "std::clone::Clone")):
            f = F.method(BUFFER, name, trait=trait)
            r.analysed(f)
            reach = cg.reachable([f])
            bad = []
            for p in reach:
                g = F.fns[p]
                for bi, t, cal in g.calls():
                    if cal and not cal.local and ((cal.adt, cal.name) in CONSUMERS or cal.name == "from_raw_parts_mut"):
                        bad.append("%s in %s" % (cal.key(), g.key))
            r.ob("non-consuming:Buffer::%s" % name, not bad, f.site, "reaches no consumer" if not bad else "reaches %s" % bad)
        # body_filter_filter: the buffer is consumed (into_vec) exactly on the non-null path
        f = F.fn("action::ffi::redirectionio_action_body_filter_filter")
        r.analysed(f)
        rows = {}
        for p in Sym(f).paths():
            if p.end[0] != "ret":
                continue
            null = None
            for a, v in p.conds:
                if a[0] == "call" and a[1].endswith("is_null"):
                    null = bool(v)
                elif a[0] == "disc" and a[1][0] == "call" and a[1][1].rsplit("::", 1)[1] in ("as_mut", "as_ref") and "ptr" in a[1][1] and v in ("Some", "None"):
                    null = v == "None"   # `match p.as_mut() { None => .., Some(r) => .. }`
            consumed = [e for e in p.events if e[0] == "call" and e[1] == BUFFER + "::into_vec"]
            dup = [e for e in p.events if e[0] == "call" and e[1] == BUFFER + "::duplicate"]
            rows[null] = (len(consumed), len(dup))
        r.ob("consume:body_filter_filter", rows.get(False) == (1, 0) and rows.get(True) == (0, 1), f.site, "non-null filter: buffer consumed once; null filter: buffer duplicated, not consumed: %s" % rows)
        # redirectionio_api_buffer_drop consumes
        g = F.fn("filter::buffer::redirectionio_api_buffer_drop")
        r.ob("consume:buffer_drop", any(cal and cal.key() == BUFFER + "::into_vec" for bi, t, cal in g.calls()), g.site, "buffer_drop releases through into_vec")
    ctx.run_rule("R18.4", "non-consuming operations never release; consuming paths release once", body, floor=5)


def r18_5(ctx):
    F = ctx.facts

    def body(r):
        ex = extern_fns(F)
        r.ob("wrappers:count", len(ex) >= 23, "", "%d extern \"C\" functions" % len(ex))
        for f in ex:
            want = NATIVE.get(f.name)
            if want is None:
                continue
            r.analysed(f)
            called = set()
            for g in f.all_bodies():
                for bi, t, cal in g.calls():
                    if cal:
                        called.add(cal.key())
                        called.add(cal.path.split("::<")[0])
                        if "<impl str>" in cal.path:
                            called.add("str::" + cal.name)
            missing = [w for w in want if w not in called]
            r.ob("wrappers:%s" % f.name, not missing, f.site, "calls its native counterpart(s) %s" % want if not missing else "does not call %s" % missing)
            # ... on every path on which its inputs were usable: the only ways out without the native call are a null
            # pointer and an input that could not be converted (an early return for "nothing to do" skips whatever else
            # the native function does -- bookkeeping on the object the later calls rely on)
            try:
                ps = Sym(f, copies=True, max_paths=20000).paths()
            except Exception as e:  # TooManyPaths: cannot decide
                r.ob("wrappers:%s:reaches-native" % f.name, False, f.site, "extract: %s" % e)
                ps = []
            skipping = []
            n_ret = 0
            for p in ps:
                if p.end[0] != "ret":
                    continue
                n_ret += 1
                native = [e for e in p.events if e[0] == "call" and (e[1] in want or e[1].split("::<")[0] in want or ("str::" + e[1].rsplit("::", 1)[-1]) in want)]
                if native:
                    continue
                excused = False
                for a, v in p.conds:
                    if a[0] == "call" and a[1].endswith("::is_null") and v == 1:
                        excused = True
                    if a[0] == "disc" and v in ("None", "Err") and mentions(a[1], lambda y: y[0] == "call" and (y[1].startswith("ffi_helpers::") or y[1].rsplit("::", 1)[-1] in ("parse", "from_str", "from_utf8", "to_str", "as_ref", "as_mut"))):
                        excused = True
                if not excused:
                    skipping.append(", ".join("%s = %s" % (show(a, f)[:60], v) for a, v in p.conds) or "unconditionally")
            if ps:
                r.ob("wrappers:%s:reaches-native" % f.name, not skipping and n_ret >= 1, f.site, "every return that skips %s follows a null pointer or an unusable input" % want if not skipping else "returns without calling %s when %s" % (want, skipping[0]))
            # no other local library function is involved (thin)
            local_calls = set()
            for bi, t, cal in f.calls():
                if cal and cal.local and not cal.key().startswith("ffi_helpers::") and not cal.key().startswith("http::ffi::") and cal.adt != BUFFER and cal.key() not in want and not cal.name == "default":
                    local_calls.add(cal.key())
            r.ob("wrappers:%s:thin" % f.name, not local_calls, f.site, "no other library logic in the wrapper" if not local_calls else "also calls %s" % sorted(local_calls))
    ctx.run_rule("R18.5", "extern C functions are thin wrappers over the native API", body, floor=25)


def r18_6(ctx):
    F = ctx.facts

    def body(r):
        f = F.fn("action::ffi::redirectionio_action_body_filter_close")
        r.analysed(f)
        ok = True
        n = 0
        for p in Sym(f).paths():
            if p.end[0] != "ret":
                continue
            owned = None
            holder = None
            released = False

            def is_owned(x):
                return x == owned or (holder is not None and x[0] == "havoc" and x[1] == holder)

            def points_into(x):
                # the box itself or a place inside it (field / cast chains), not values computed from it
                while x[0] in ("cast", "field", "variant", "index"):
                    x = x[1]
                return is_owned(x)
            for e in p.events:
                if e[0] == "call" and e[1] == "std::boxed::Box::from_raw":
                    owned = e[3]
                    n += 1
                    continue
                if e[0] == "set" and owned is not None and e[3] == owned:
                    holder = e[1]
                if e[0] == "call" and e[1] == "std::mem::drop" and owned is not None and is_owned(e[2][0]):
                    released = True
                    continue
                if e[0] == "drop" and owned is not None and is_owned(e[1]):
                    released = True
                    continue
                if e[0] == "call" and owned is not None and released and any(points_into(a) for a in e[2]):
                    ok = False
            if owned is not None and not released:
                ok = False
        r.ob("release:body_filter_close", ok and n >= 1, f.site, "the boxed filter is used only between from_raw and its drop, and is dropped on every path that re-owned it")
        # drop functions re-own and drop exactly once
        for name in ("action::ffi::redirectionio_action_drop", "action::ffi::redirectionio_action_body_filter_drop", "http::ffi::redirectionio_request_drop"):
            g = F.fn(name)
            r.analysed(g)
            cnt = []
            for p in Sym(g).paths():
                if p.end[0] == "ret":
                    cnt.append(len([e for e in p.events if e[0] == "call" and e[1] == "std::boxed::Box::from_raw"]))
            r.ob("release:%s" % g.name, sorted(cnt) == [0, 1], g.site, "re-owns the object once on the non-null path and never on the null path: %s" % cnt)
    ctx.run_rule("R18.6", "no use after release inside the library", body, floor=4)


def r18_7(ctx):
    F = ctx.facts

    def body(r):
        f = F.method(BUFFER, "to_vec")
        r.analysed(f)
        bad = []
        good = False
        pv = Prov(f)
        for bi, t, cal in f.calls():
            if cal is None:
                continue
            if cal.name in ("clone_from_slice", "copy_from_slice"):
                recv = pv.operand(t["args"][0])
                # the destination must have been sized from the source; a fresh Vec::new() has length 0
                if mentions(recv, lambda x: x[0] == "call" and x[1] == "std::vec::Vec::new") and not mentions(recv, lambda x: x[0] == "call" and x[1].rsplit("::", 1)[1] in ("resize", "with_capacity", "from_elem")):
                    bad.append("%s into a Vec::new() of length 0: lengths differ for every non-empty buffer" % cal.name)
            if cal.name in ("to_vec", "extend_from_slice", "to_owned", "from") and mentions(pv.operand(t["args"][-1]) if t["args"] else (), lambda x: x[0] == "call" and "from_raw_parts" in x[1]):
                good = True
        r.ob("copy:Buffer::to_vec", not bad and good, f.site, "bytes are copied with a length-agnostic primitive" if (not bad and good) else "; ".join(bad) or "no length-agnostic copy of the raw slice found")
    ctx.run_rule("R18.7", "duplicating a buffer copies its bytes", body, floor=1)


def r18_8(ctx):
    """Every pointer handed to the C caller is null, a pointer the caller passed in, or comes
    straight from an ownership-transferring producer (so that the caller's release is valid)."""
    F = ctx.facts

    def body(r):
        fns = [f for f in F.fn_list if not f.derived and (f.abi.startswith("C") or f.key in ("ffi_helpers::string_to_c_char", "http::ffi::http_headers_to_header_map"))]
        n = 0
        for f in fns:
            out_ty = F.types[f.j["output"]] if "output" in f.j else None
            if out_ty is None or out_ty.get("k") != "ptr":
                continue
            r.analysed(f)
            bad = set()
            f = F.loop_form(f)  # `opt.map_or(null(), |x| Box::into_raw(..))` as the match it abbreviates
            for p in Sym(f, copies=False).paths():
                if p.end[0] != "ret":
                    continue
                v = p.end[1]
                parts = [v]
                ok = True
                for x in parts:
                    if x[0] == "call" and x[1] in ("std::ptr::null", "std::ptr::null_mut"):
                        continue
                    if x[0] == "call" and x[1] in ("std::boxed::Box::into_raw", "std::ffi::CString::into_raw"):
                        continue
                    if x[0] == "call" and x[1] in ("ffi_helpers::string_to_c_char", "http::ffi::http_headers_to_header_map"):
                        continue
                    if x[0] == "param":
                        continue
                    if x[0] in ("local", "havoc", "phi"):
                        # a named pointer variable: every value it was given on this path
                        sets = [e[3] for e in p.events if e[0] == "set" and e[1] == x[1]]
                        if sets and all(s_[0] == "call" and s_[1] in ("std::ptr::null", "std::boxed::Box::into_raw") or (s_[0] == "cast" and s_[1][0] == "call" and s_[1][1] in ("std::ptr::null", "std::boxed::Box::into_raw")) or s_[0] == "param" for s_ in sets):
                            continue
                    if x[0] == "cast" and x[1][0] == "call" and x[1][1] in ("std::boxed::Box::into_raw", "std::ptr::null"):
                        continue
                    bad.add(show(x, f)[:100])
                n += 1
            r.ob("returned-pointer:%s" % f.name, not bad, f.site,
                 "returns null, a caller-provided pointer or a freshly produced owner" if not bad else "returns %s: the caller releases every returned pointer the same way, this one was not produced by into_raw" % sorted(bad))
        r.ob("returned-pointer:paths", n >= 20, "", "%d return paths of pointer-returning C-facing functions" % n)
    ctx.run_rule("R18.8", "provenance of every pointer returned to C", body, floor=12)


PTR_PRODUCERS = ("ffi_helpers::string_to_c_char", "std::boxed::Box::into_raw", "std::ffi::CString::into_raw", "http::ffi::http_headers_to_header_map")


def r18_9(ctx):
    """A pointer obtained from an ownership-transferring producer is never forgotten: on every path it is
    stored / returned / handed on, or it was found null (nothing to release)."""
    F = ctx.facts

    def body(r):
        n = 0
        fns = [f for f in F.fn_list if not f.derived and (f.abi.startswith("C") or f.file.endswith("ffi.rs") or f.file.endswith("ffi_helpers.rs") or f.file.endswith("buffer.rs") or f.file.endswith("callback_log.rs"))]
        for f in fns:
            if not any(cal and call_key_of(cal) in PTR_PRODUCERS for bi, t_, cal in f.calls()):
                continue
            r.analysed(f)
            s = Sym(f, copies=True, max_paths=100000)
            lps_ = for_loops(f)
            regions = [(None, list(s.paths()))] + [(lp, list(lp.iteration_paths(s))) for lp in lps_]
            lost = set()
            defs_ = f.defs()
            for lp_, paths in regions:
                # variables that live across iterations: also defined outside the loop
                carried = {l for l in defs_ if f.local_name(l)}   # whole-function paths cut at a loop: any variable may be read later
                if lp_ is not None:
                    lb = lp_.blocks()
                    carried = {l for l, ds in defs_.items() if any(db not in lb for db, _ in ds) and any(db in lb for db, _ in ds)}
                for p in paths:
                    if p.end[0] in ("diverge", "unreachable"):
                        continue
                    for i, e in enumerate(p.events):
                        if e[0] != "call" or e[1] not in PTR_PRODUCERS:
                            continue
                        n += 1
                        V = e[3]
                        if any(a == ("call", "std::ptr::mut_ptr::<impl *mut T>::is_null", (V,)) and v == 1 for a, v in p.conds) or any(a[0] == "call" and a[1].endswith("is_null") and a[2] == (V,) and v == 1 for a, v in p.conds):
                            continue  # null: nothing was produced
                        used = False
                        for e2 in p.events[i + 1:]:
                            if e2[0] == "call":
                                if e2[1].endswith("is_null"):
                                    continue
                                if any(mentions(a, lambda x: x == V) for a in e2[2]):
                                    used = True
                            elif e2[0] in ("write", "lwrite"):
                                if mentions(e2[2], lambda x: x == V):
                                    used = True
                            elif e2[0] == "init":
                                if mentions(e2[3], lambda x: x == V):
                                    used = True
                        if p.end[0] == "ret" and mentions(p.end[1], lambda x: x == V):
                            used = True
                        if p.end[0] in ("stop", "loop", "exit") and any(e2[0] == "set" and e2[1] in carried and mentions(e2[3], lambda x: x == V) for e2 in p.events[i + 1:]):
                            # carried to the next iteration in a variable (the list head): judged where it is used
                            used = True
                        if not used:
                            lost.add(show(V, f)[:70])
            r.ob("produced-pointer-kept:%s" % f.name, not lost, f.site,
                 "every produced pointer is stored, returned or handed on" if not lost else "%s is produced and then forgotten on some path (neither handed to the caller nor released): a leak" % sorted(lost))
        r.ob("produced-pointer-kept:sites", n >= 10, "", "%d producer results followed" % n)
    ctx.run_rule("R18.9", "produced pointers are never forgotten", body, floor=5)


def call_key_of(cal):
    try:
        from riolib.prov import call_key
        return call_key(cal)
    except Exception:
        return cal.key()


TRUNCATING = {"map_while", "take_while", "take", "skip", "skip_while", "step_by", "nth", "find", "find_map", "position", "last", "next_back", "rev", "truncate", "pop", "drain"}


def r18_10(ctx):
    """The C header list is read to its end: the walk over the nodes stops only when the list is
    exhausted (a node that cannot be read is skipped, not taken for the end).  That every way round the
    loop moves to the next node is R07.6."""
    F = ctx.facts
    from riolib.sym import TooManyPaths
    from riolib.prov import walk

    def body(r):
        f = F.fn("http::ffi::header_map_to_http_headers")
        r.analysed(f)
        bodies = f.all_bodies()
        trunc = sorted({cal.name for b in bodies for bi, t, cal in b.calls() if cal is not None and not cal.local and cal.name in TRUNCATING and (cal.def_trait or cal.trait or "").startswith("std::iter")})
        r.ob("list-walk:no-truncating-adaptor", not trunc, f.site, "iterator adaptors that can end the walk early: %s" % trunc)
        loops = 0
        early = 0
        for b in bodies:
            for h in sorted({h for a, h in b.back_edges()}):
                region = b.loop_blocks(h)
                try:
                    ps = Sym(b, copies=True, max_paths=20000).paths(start=h, stops={h}, region=region)
                except TooManyPaths:
                    early += 1
                    continue
                loops += 1
                firsts = {p.conds[0][0] for p in ps if p.conds}
                for p in ps:
                    if p.end[0] in ("exit", "ret") and not (len(p.conds) == 1 and len(firsts) == 1):
                        early += 1
        r.ob("list-walk:ends-only-when-exhausted", early == 0, f.site, "%d loop(s); ways out of a loop other than its own end-of-list test: %d" % (loops, early))
    ctx.run_rule("R18.10", "the header list handed over by the caller is read to its end", body, floor=2)


REVIEWED_STATICS = {
    "callback_log::INIT": "one-time registration of the logger (no data of a call is kept)",
    "<filter::html_filter_body::VOID_ELEMENTS as std::ops::Deref>::deref::__stability::LAZY": "lazy_static cell of the constant void-element table",
}


def r18_11(ctx):
    F = ctx.facts

    def body(r):
        # the library keeps nothing between two calls but the objects it handed out: every static that can change
        # (mutable, or with interior mutability -- a `thread_local!` cell, a `Mutex`, a `OnceCell` ...) is reviewed by name.
        # A cache filled by one call and read by the next one holds on to whatever the first caller passed in
        # (borrowed strings included) and makes an answer depend on the calls that came before.
        n = 0
        for s_ in F.statics:
            if not (s_["mut"] or not s_["freeze"]):
                continue
            n += 1
            p = s_["path"]
            if p.endswith("::__CALLSITE"):
                r.exception("state:%s" % p, "tracing call-site registration (logging metadata only)")
                r.ob("state:%s" % p, True, "%s:%s" % (s_["file"], s_["line"]), "tracing call-site")
                continue
            ok = p in REVIEWED_STATICS
            if ok:
                r.exception("state:%s" % p, REVIEWED_STATICS[p])
            r.ob("state:%s" % p, ok, "%s:%s" % (s_["file"], s_["line"]), "static that can change: %s%s" % (p, " (reviewed: %s)" % REVIEWED_STATICS[p] if ok else " -- state kept between calls"))
        r.ob("state:inventory", n >= 2, "", "%d statics that can change, all reviewed by name" % n)
    ctx.run_rule("R18.11", "the library keeps no state between calls", body, floor=3)


def run(ctx):
    r18_11(ctx)
    r18_8(ctx)
    r18_1(ctx)
    r18_2(ctx)
    r18_3(ctx)
    r18_4(ctx)
    r18_5(ctx)
    r18_6(ctx)
    r18_7(ctx)
    r18_9(ctx)
    r18_10(ctx)
