"""C19 — project-level analyses agree with the live pipeline and with full rebuilds."""
from riolib.core import Callee, MissingAnchor, span_line
from riolib.prov import Prov, show, mentions, mentions_field, walk
from riolib.sym import Sym, for_loops
from riolib.effects import effects
from . import layers as LY
from .c02 import count_verdicts

THOROUGH_CONFIGS = ['dot']


MANIFEST = {
    "text": "Static sibling cross-check of the analyses: each project / standalone pair of entry points reaches one shared result function; project variants obtain their router only through RuleChangeSet::update_existing_router (clone + apply_change_set, decided by C02) or use the shared router untouched; the pipeline call sequence (from_example, match_request, from_routes_rule, status, filter_headers, create_filter_body, filter, end, should_log_request) is extracted from every analysis body and compared; the status computation of every analysis is request-time-first like the proxies (decision table of the shared helper); the hop loop bound and the loop predicate (url AND method) of the redirect-chain analysis; and count bookkeeping of removals, whose staleness surfaces in the trace counts the analyses report. Also: the (final, backend) status pair handed to the filters, and a chain walk that is not conditioned on a first-hop status.",
    "technique": "static analysis: call-graph reachability, call-sequence extraction and decision tables over MIR",
}

PAIRS = [
    ("api::test_examples::TestExamplesOutput::from_project", "api::test_examples::TestExamplesOutput::create_result_without_project", "api::test_examples::TestExamplesOutput::create_result"),
    ("api::explain_request::ExplainRequestOutput::create_result_from_project", "api::explain_request::ExplainRequestOutput::create_result_without_project", "api::explain_request::ExplainRequestOutput::create_result"),
    ("api::impact::ImpactOutput::from_impact_project", "api::impact::ImpactOutput::create_result", "api::impact::ImpactOutput::compute_impacts"),
    ("api::unit_ids::UnitIdsOutput::create_result_from_project", "api::unit_ids::UnitIdsOutput::create_result_without_project", "api::unit_ids::UnitIdsOutput::create_result"),
]
ANALYSES = {
    "test_examples": "api::test_examples::TestExamplesOutput::test_example",
    "explain_request": "api::explain_request::ExplainRequestOutput::create_result",
    "impact": "api::impact::ImpactOutput::compute_impacts",
    "unit_ids": "api::unit_ids::UnitIdsOutput::create_result",
    "redirection_loop": "api::redirection_loop::RedirectionLoop::compute",
}
PIPELINE = [
    "http::request::Request::from_example", "router::Router::match_request", "action::Action::from_routes_rule", "STATUS",
    "action::Action::filter_headers", "action::Action::create_filter_body", "filter::filter_body::FilterBodyAction::filter",
    "filter::filter_body::FilterBodyAction::end", "action::Action::should_log_request",
]
STATUS_CALLS = ("action::Action::get_status_code", "action::Action::get_final_status_code_with_fallback")
UPDATE = "api::rules_message::RuleChangeSet::update_existing_router"


def r19_1(ctx):
    F = ctx.facts

    def body(r):
        for proj, alone, shared in PAIRS:
            fp, fa, fs = F.fn(proj), F.fn(alone), F.fn(shared)
            r.analysed(fp, fa, fs)
            for f in (fp, fa):
                direct = [cal.key() for bi, t, cal in f.calls() if cal and cal.local and cal.key() == shared]
                r.ob("shared:%s->%s" % (f.key.rsplit("::", 2)[-2] + "::" + f.name, fs.name), len(direct) == 1, f.site, "calls the shared result function %s %d time(s)" % (shared.rsplit("::", 1)[1], len(direct)))
                # and returns its result unchanged
                rets = {p.end[1] for p in Sym(f, copies=False).paths() if p.end[0] == "ret"}
                def is_shared(e):
                    # the call itself, or the output structure built around nothing but its result
                    if e[0] == "call" and e[1] == shared:
                        return True
                    return e[0] == "agg" and bool(e[3]) and all((v[0] == "call" and v[1] == shared) or v[0] == "const" for _, v in e[3]) and any(v[0] == "call" for _, v in e[3])
                ok = all(is_shared(e) for e in rets) and bool(rets)
                r.ob("shared:%s:returns-it" % (f.key.rsplit("::", 2)[-2] + "::" + f.name), ok, f.site, "returns the shared function's result unchanged")
    ctx.run_rule("R19.1", "project and standalone entry points share one result function", body, floor=16)


def r19_2(ctx):
    F = ctx.facts

    def body(r):
        # "nothing to apply" must look at every list of the change-set (added, updated, deleted)
        CS = "api::rules_message::RuleChangeSet"
        ie = F.method(CS, "is_empty")
        r.analysed(ie)
        flds = [n for n, ty in F.adt_fields(CS)]
        looked = set()
        for p_ in Sym(ie, copies=True).paths():
            if p_.end[0] != "ret" or p_.end[1] == ("const", False):
                continue
            seen_ = set()
            for a, v in list(p_.conds) + [(p_.end[1], 1)]:
                if a[0] == "call" and a[1].rsplit("::", 1)[1] == "is_empty" and v == 1:
                    for fl in flds:
                        if mentions_field(a[2][0], fl, CS):
                            seen_.add(fl)
            looked = seen_ if not looked else (looked & seen_)
        r.ob("router:change-set-is_empty-reads-every-list", looked == set(flds), ie.site,
             "RuleChangeSet::is_empty() answers true only when %s are all empty" % ", ".join(flds) if looked == set(flds) else "is_empty() can answer true without looking at %s: a change-set that only %s is skipped and the analysis runs on the unchanged router" % (sorted(set(flds) - looked), sorted(set(flds) - looked)))
        for proj, alone, shared in PAIRS:
            f = F.fn(proj)
            r.analysed(f)
            s = Sym(f, copies=False)
            n = 0
            bad = []
            for p in s.paths():
                if p.end[0] != "ret":
                    continue
                n += 1
                call = [e for e in p.events if e[0] == "call" and e[1] == shared]
                if not call:
                    continue
                router_arg = None
                for a in call[0][2]:
                    if mentions(a, lambda x: x[0] == "call" and x[1] == UPDATE):
                        router_arg = a
                        break
                if router_arg is None:
                    # the router may live in a named local that was mutated since (havoc): look at how it was set
                    sets = [e for e in p.events if e[0] == "set" and (mentions(e[3], lambda x: x[0] == "call" and x[1] == UPDATE))]
                    if sets and any(a[0] == "havoc" and a[1] == sets[0][1] for a in call[0][2]):
                        router_arg = sets[0][3]
                if router_arg is None:
                    for a in call[0][2]:
                        if a == ("param", 2):
                            router_arg = a
                empty = [v for a, v in p.conds if a[0] == "call" and a[1] == "api::rules_message::RuleChangeSet::is_empty"]
                updated = router_arg is not None and mentions(router_arg, lambda x: x[0] == "call" and x[1] == UPDATE)
                shared_untouched = router_arg == ("param", 2)
                if empty and empty[0] == 1:
                    if not shared_untouched:
                        bad.append("empty change-set but the router handed on is %s" % show(router_arg, f))
                elif not updated:
                    bad.append("router handed on is %s, not update_existing_router(..)" % show(router_arg, f))
                # no other mutation of the shared Arc
            r.ob("router:%s" % (f.key.rsplit("::", 2)[-2] + "::" + f.name), not bad and n >= 1, f.site,
                 "the analysis runs on change_set.update_existing_router(existing) (or on the shared router when the change-set is empty)" if not bad else "; ".join(sorted(set(bad))))
            # the Arc parameter is never mutated through (type level: Arc gives no &mut; decided by C02 R02.6)
            t2 = F.types[f.j["inputs"][1]]
            r.ob("router:%s:shared-arc" % (f.key.rsplit("::", 2)[-2] + "::" + f.name), t2.get("adt") == "std::sync::Arc", f.site, "existing router received as %s" % t2["s"])
    ctx.run_rule("R19.2", "project variants derive their router by clone + apply_change_set", body, floor=8)


def call_sequence(f):
    """ordered list of pipeline calls in f along the longest normal path (first occurrence order
    by dominance)."""
    calls = []
    for bi, t, cal in f.calls():
        if cal and cal.local and (cal.key() in PIPELINE or cal.key() in STATUS_CALLS):
            calls.append((bi, cal.key(), t))
    # order by dominance / reachability
    def before(a, b):
        return a[0] != b[0] and (f.dominates(a[0], b[0]) or (f.can_reach(a[0], b[0]) and not f.can_reach(b[0], a[0])))
    ordered = []
    rest = list(calls)
    while rest:
        firsts = [c for c in rest if not any(before(o, c) for o in rest if o is not c)]
        pick = sorted(firsts, key=lambda c: c[0])[0]
        ordered.append(pick)
        rest.remove(pick)
    seq = []
    for bi, key, t in ordered:
        k = "STATUS" if key in STATUS_CALLS else key
        if not seq or seq[-1] != k:
            seq.append(k)
    return seq, ordered


def request_time_first_inline(f, ordered):
    """inline status computation: the first get_status_code call has code 0 and the second is
    reached only when the first returned 0"""
    pv = Prov(f, copies=True)
    gs = [(bi, t) for bi, key, t in ordered if key == "action::Action::get_status_code"]
    if not gs:
        return None, "no get_status_code call"
    first = gs[0]
    code = pv.operand(first[1]["args"][1])
    if code != ("const", 0):
        return False, "the first status evaluation uses code %s, the proxies evaluate at request time (code 0) first" % show(code, f)
    if len(gs) >= 2:
        # second call guarded by `first result == 0`
        from riolib.guards import Tests, edge_dominates
        tests = Tests(f, pv)
        res = ("call", "action::Action::get_status_code", tuple(pv.operand(a) for a in first[1]["args"]))
        def pred(atom, out):
            if atom[0] == "bin" and atom[1] in ("Ne", "Eq") and atom[3] == ("const", 0) and atom[2][0] == "call" and atom[2][1] == "action::Action::get_status_code":
                return out is (atom[1] == "Eq")
            return False
        ok = any(edge_dominates(f, tb, sb, gs[1][0]) for tb, sb in tests.blocks_where(pred))
        if not ok:
            return False, "the backend code is consulted even when the request-time evaluation produced a status"
    return True, "request time (0) first, backend code only when that yielded 0"


def r19_3(ctx):
    F = ctx.facts

    def body(r):
        seqs = {}
        for name, key in ANALYSES.items():
            f = F.fn(key)
            r.analysed(f)
            seq, ordered = call_sequence(f)
            seqs[name] = seq
            # relative order must follow the reference pipeline order
            idx = [PIPELINE.index(k) for k in seq]
            r.ob("pipeline:%s:order" % name, idx == sorted(idx) and len(seq) >= 5, f.site, "pipeline calls in order: %s" % [k.rsplit("::", 1)[-1] for k in seq])
            # status computation
            uses_helper = any(k == "action::Action::get_final_status_code_with_fallback" for _, k, _ in ordered)
            if uses_helper:
                r.ob("pipeline:%s:status" % name, True, f.site, "status computed by Action::get_final_status_code_with_fallback (decided below)")
            else:
                ok, why = request_time_first_inline(f, ordered)
                r.ob("pipeline:%s:status" % name, bool(ok), f.site, why)
        # which status each pipeline step is given: the proxies filter headers / bodies with the *backend* code and
        # decide logging on the *final* code (the two results of get_final_status_code_with_fallback)
        HELPER = "action::Action::get_final_status_code_with_fallback"
        WANT = {"action::Action::filter_headers": (2, "backend"), "action::Action::create_filter_body": (1, "backend"), "action::Action::should_log_request": (2, "final")}
        for name, key in ANALYSES.items():
            f = F.fn(key)
            pvr = Prov(f, copies=True)
            if not any(cal and cal.key() == HELPER for bi, t_, cal in f.calls()):
                continue
            for bi, t_, cal in f.calls():
                if cal is None or cal.key() not in WANT:
                    continue
                idx, want = WANT[cal.key()]
                a_ = pvr.operand(t_["args"][idx])
                comp = {x[2] for x in walk(a_) if x[0] == "field" and x[2] in ("0", "1") and x[1][0] == "call" and x[1][1] == HELPER}
                role = "final" if comp == {"0"} else "backend" if comp == {"1"} else "?"
                r.ob("pipeline:%s:%s-gets-%s-status" % (name, cal.name, want), role == want, f.loc(span_line(t_["s"])),
                     "%s receives the %s status code" % (cal.name, want) if role == want else "%s receives %s (the %s code), the live pipeline gives it the %s code" % (cal.name, show(a_, f)[:60], role, want))
        # siblings that produce a full response agree on the whole sequence
        full = {n: s for n, s in seqs.items() if n in ("test_examples", "explain_request", "impact")}
        vals = list(full.values())
        r.ob("pipeline:siblings-agree", all(v == vals[0] for v in vals) and len(vals[0]) == len(PIPELINE), "", "test_examples / explain_request / impact replay %s" % [k.rsplit("::", 1)[-1] for k in vals[0]])
        r.ob("pipeline:unit_ids-prefix", seqs["unit_ids"] == [k for k in PIPELINE if k != "action::Action::should_log_request"], "", "unit_ids replays the pipeline up to the body filter: %s" % [k.rsplit("::", 1)[-1] for k in seqs["unit_ids"]])
        # the shared helper itself: request-time-first decision table
        h = F.fn("action::Action::get_final_status_code_with_fallback")
        r.analysed(h)
        rows = {}
        first_code = None
        for p in Sym(h, copies=True).paths():
            if p.end[0] != "ret":
                continue
            gs = [e for e in p.events if e[0] == "call" and e[1] == "action::Action::get_status_code"]
            if gs and first_code is None:
                first_code = gs[0][2][1]
            nz = None
            for a, v in p.conds:
                if a[0] == "bin" and a[1] == "Eq" and a[3] == ("const", 0) and a[2][0] == "call" and a[2][1] == "action::Action::get_status_code":
                    nz = (v == 0)
            rows.setdefault(nz, []).append((len(gs), [g[2][1] for g in gs], p.end[1]))
        ok = first_code == ("const", 0) and True in rows and False in rows
        if ok:
            for n_calls, codes, ret in rows[True]:
                ok = ok and n_calls == 1
            for n_calls, codes, ret in rows[False]:
                ok = ok and n_calls == 2 and codes[0] == ("const", 0) and codes[1] != ("const", 0)
        r.ob("pipeline:helper:request-time-first", ok, h.site,
             "get_final_status_code_with_fallback evaluates code 0 first and the backend / fallback code only when that yielded 0" if ok else "the helper's first evaluation uses %s (rows %s): an unconditional rule is not decided at request time" % (show(first_code or ("const", None), h), {k: [(n, [show(c, h) for c in cs]) for n, cs, _ in v] for k, v in rows.items()}))
        # backend code choice: response code unless 0, then the fallback
        okb = False
        for n_calls, codes, ret in rows.get(False, []):
            c = codes[1] if len(codes) > 1 else None
            if c is not None and (c in (("param", 2), ("param", 3)) or (c[0] in ("local", "phi", "havoc"))):
                okb = True
        r.ob("pipeline:helper:backend-code", okb, h.site, "the second evaluation uses the response code, or the fallback code when there is none")
        # the (final, backend) pair the analyses filter with: a redirect decided at request time is final
        # *and* is the status the filters see (the proxy never asks the backend); otherwise the backend
        # status (the example's, else the fallback) is looked at
        g = F.fn("action::Action::get_final_status_code_with_fallback")
        r.analysed(g)

        def is_zero(conds, x):
            for a, v in conds:
                if a[0] == "bin" and a[1] in ("Eq", "Ne") and {a[2], a[3]} == {x, ("const", 0)}:
                    return bool(v) if a[1] == "Eq" else not bool(v)
            return None
        badp = []
        rows = 0
        for p in Sym(g, copies=True).paths():
            if p.end[0] != "ret":
                continue
            rows += 1
            ret = p.end[1]
            d = dict(ret[3]) if ret[0] == "agg" else {}
            at0 = [e[3] for e in p.events if e[0] == "call" and e[1] == "action::Action::get_status_code" and e[2][1] == ("const", 0)]
            z = is_zero(p.conds, at0[0]) if at0 else None
            if z is None:
                badp.append("a return that does not depend on the request-time status")
            elif not z:
                if not (d.get("0") == at0[0] and d.get("1") == at0[0]):
                    badp.append("request-time status applies: expected (it, it), got %s" % show(ret, g))
            else:
                rz = is_zero(p.conds, ("param", 2))
                b = ("param", 3) if rz else ("param", 2)
                fin = d.get("0", ())
                if rz is None or d.get("1") != b or not (fin and fin[0] == "call" and fin[1] == "action::Action::get_status_code" and fin[2][1] == b):
                    badp.append("no request-time status: expected (get_status_code(backend), backend) with backend = response status or fallback, got %s" % show(ret, g))
        r.ob("pipeline:final-and-backend-status", not badp and rows >= 3, g.site, "request-time status -> (s, s); else (get_status_code(b), b), b = response status, or the fallback when it is 0 (%d returns)" % rows if not badp else "; ".join(sorted(set(badp))[:3]))
    ctx.run_rule("R19.3", "pipeline sequence agreement and request-time-first status", body, floor=14)


def r19_4(ctx):
    F = ctx.facts

    def body(r):
        f = F.fn(ANALYSES["redirection_loop"])
        r.analysed(f)
        s = Sym(f, copies=True, max_paths=400000)
        lps = for_loops(f)
        outer = [lp for lp in lps if lp.source[0] == "agg" and (lp.source[1] or "").endswith("RangeInclusive") or mentions(lp.source, lambda x: x[0] == "call" and "RangeInclusive" in x[1])]
        ok_outer = False
        if outer:
            src = outer[0].source
            ok_outer = mentions(src, lambda x: x == ("const", 1)) and mentions(src, lambda x: x == ("param", 2))
        r.ob("hops:bounded-loop", len(outer) == 1 and ok_outer, f.site, "the hop loop iterates 1..=max_hops: %s" % (show(outer[0].source, f) if outer else None))
        # the compared operand is itself the `url` / `method` field of a hop record
        is_fld = lambda e, fld: e[0] == "field" and e[2] == fld
        inner = []
        for lp in lps:
            if outer and lp is outer[0]:
                continue
            if any(a[0] == "call" and "PartialEq" in a[1] and (is_fld(a[2][0], "url") or is_fld(a[2][1], "url")) for p in lp.iteration_paths(s) for a, v in p.conds):
                inner.append(lp)
        is_eq = lambda a, fld: a[0] == "call" and "PartialEq" in a[1] and (is_fld(a[2][0], fld) or is_fld(a[2][1], fld))
        sets_loop = lambda p: any(e[0] in ("set", "init") and mentions(e[3], lambda x: x[0] == "agg" and x[2] == "Loop") for e in p.events)
        rows = {}
        verdict_bad = []
        where = f.site
        if len(inner) == 1:
            where = f.loc(inner[0].line)
            its = list(inner[0].iteration_paths(s))
            # the hit may be recorded in a flag that decides the verdict after the scan
            flag = None
            if not any(sets_loop(p) for p in its):
                flags = {e[1] for p in its for e in p.events if e[0] == "set" and e[3] == ("const", True)}
                if len(flags) == 1:
                    flag = next(iter(flags))
                    n_fl = 0
                    starts = {inner[0].exit} | {p.end[1] for p in its if p.end[0] == "stop" and p.end[1] not in (inner[0].next_block, inner[0].head())}
                    stops_ = {outer[0].next_block, outer[0].head()} | outer[0].tail_blocks() if outer else set()
                    after = [p for st_ in sorted(starts) for p in s.paths(start=st_, stops=stops_)]
                    for p in after:
                        for a, v in p.conds:
                            if a == ("local", flag):
                                n_fl += 1
                                if sets_loop(p) != (v == 1):
                                    verdict_bad.append("the scan flag is %s but the Loop verdict is %s" % (bool(v), "set" if sets_loop(p) else "not set"))
                    if n_fl == 0:
                        verdict_bad.append("the scan flag is never tested after the scan")
            for p in its:
                u = m = None
                for a, v in p.conds:
                    if is_eq(a, "url"):
                        u = bool(v)
                    if is_eq(a, "method"):
                        m = bool(v)
                hit = sets_loop(p) if flag is None else any(e[0] == "set" and e[1] == flag and e[3] == ("const", True) for e in p.events)
                rows.setdefault((u, m), set()).add(hit)
        elif not inner and outer:
            # the scan written as hops.iter().any(|previous| ..): the closure is the predicate, its
            # result decides the Loop verdict
            for p in outer[0].iteration_paths(s):
                for a, v in p.conds:
                    if a[0] == "call" and a[1].endswith("Iterator>::any") and a[2][1][0] == "agg" and "{closure" in (a[2][1][1] or ""):
                        cl = F.fns.get(a[2][1][1])
                        if cl is None:
                            continue
                        inner.append(cl)
                        for q in Sym(cl, copies=True).paths():
                            if q.end[0] != "ret":
                                continue
                            u = m = None
                            for b, w in q.conds:
                                if is_eq(b, "url"):
                                    u = bool(w)
                                if is_eq(b, "method"):
                                    m = bool(w)
                            ret = q.end[1]
                            if ret[0] == "const":
                                outs = [(u, m, bool(ret[1]))]
                            elif is_eq(ret, "method") and m is None:
                                outs = [(u, True, True), (u, False, False)]
                            elif is_eq(ret, "url") and u is None:
                                outs = [(True, m, True), (False, m, False)]
                            else:
                                outs = [(u, m, None)]
                            for uu, mm, res in outs:
                                rows.setdefault((uu, mm), set()).add(res)
                        # the verdict follows the result of any()
                        if sets_loop(p) != (v == 1):
                            verdict_bad.append("any(..) is %s but the Loop verdict is %s" % (bool(v), "set" if sets_loop(p) else "not set"))
            inner = inner[:1]
        r.ob("hops:previous-hops-scanned", len(inner) == 1, f.site, "every new URL is compared with the hops recorded so far")
        if inner:
            bad = list(verdict_bad)
            for (u, m), loops in rows.items():
                for loop in loops:
                    if loop is None:
                        continue
                    for uu in ([u] if u is not None else [True, False]):
                        for mm in ([m] if m is not None else [True, False]):
                            if loop != (uu and mm):
                                bad.append("url equal=%s method equal=%s -> %s" % (uu, mm, "Loop" if loop else "no loop"))
            r.ob("hops:loop-predicate", not bad and len(rows) >= 2, where, "Loop <=> a previous hop has the same url AND the same method (rows %s)" % sorted(rows, key=str) if not bad else "; ".join(sorted(set(bad))))
        # a 301/302 downgrades the method of the *next* request to GET; the hop that is compared with
        # the previous ones and recorded is the next request (url, downgraded method): no hop record may
        # be built from the method variable before the downgrade on a path where it happens
        if outer:
            HOP = "api::redirection_loop::RedirectionHop"
            n_down = 0
            early = set()
            for p in outer[0].iteration_paths(s):
                down = [(i, e) for i, e in enumerate(p.events) if e[0] in ("set", "init") and mentions(e[3], lambda x: x == ("const", "GET"))]
                if not down:
                    continue
                n_down += 1
                i_d, ev = down[0]
                mv = ev[1]  # the method variable, by role: the one assigned "GET"
                for j, e in enumerate(p.events[:i_d]):
                    exprs = [e[3]] if e[0] in ("set", "init") else list(e[2]) if e[0] == "call" else []
                    for x0 in exprs:
                        for x in walk(x0):
                            if x[0] == "agg" and x[1] == HOP and mentions(dict(x[3]).get("method", ()), lambda y: y in (("local", mv), ("havoc", mv)) or (y[0] in ("local", "havoc") and y[1] == mv)):
                                early.add(e[-1] if isinstance(e[-1], int) else 0)
            r.ob("hops:recorded-after-method-downgrade", n_down >= 1 and not early, f.site,
                 "on the %d iteration paths with a 301/302 every hop record is built after the method became GET" % n_down if not early else
                 "a hop record is built from the method variable before the 301/302 downgrade (lines %s): the loop test and the reported chain use the previous request's method" % sorted(early))
        # TooManyHops when i >= max_hops
        okm = False
        if outer:
            for p in outer[0].iteration_paths(s):
                for a, v in p.conds:
                    if a[0] == "bin" and a[1] in ("Ge", "Lt") and mentions(a[3], lambda x: x == ("param", 2)):
                        hit = (v == 1) if a[1] == "Ge" else (v == 0)
                        tm = any(e[0] in ("set", "init") and mentions(e[3], lambda x: x[0] == "agg" and x[2] == "TooManyHops") for e in p.events)
                        if hit and tm:
                            okm = True
        r.ob("hops:too-many-hops-at-limit", okm, f.site, "TooManyHops is reported when the hop index reaches max_hops")
        # every analysis that walks the chain decides it from the example alone: whether there is a redirect to follow
        # is the walker's business (it looks at the final status of each hop, request-time or backend), so the call
        # is not conditioned on a status the caller computed for the first hop
        for name, key in ANALYSES.items():
            g = F.fn(key)
            stat = set()
            n_calls = 0
            for b in g.all_bodies():
                pvb = None
                for cb, t, cal in b.calls():
                    if cal is None or cal.key() not in ("api::redirection_loop::RedirectionLoop::from_example", "api::redirection_loop::RedirectionLoop::compute"):
                        continue
                    n_calls += 1
                    pvb = pvb or Prov(b, copies=True)
                    # the tests that control the call: switches from which one outcome reaches it and another cannot
                    for tb in b.normal_blocks():
                        tt = b.blocks[tb]["term"]
                        if tt["k"] != "switch":
                            continue
                        reach = [(sx == cb or b.can_reach(sx, cb)) for sx in b.succ(tb) if b.blocks[sx]["term"]["k"] != "unreachable"]
                        if any(reach) and not all(reach):
                            d_ = pvb.operand(tt["d"])
                            if mentions(d_, lambda y: y[0] == "call" and y[1] in STATUS_CALLS):
                                stat.add(show(d_, b)[:80])
            if n_calls:
                r.ob("hops:%s:walk-not-conditioned-on-a-status" % name, not stat, g.site, "the chain walk starts whatever status the first hop has" if not stat else "the chain walk is skipped depending on %s" % sorted(stat))
    ctx.run_rule("R19.4", "hop loop bound and loop predicate", body, floor=6)


def r19_5(ctx):
    F = ctx.facts

    def body(r):
        layers = LY.discover(F)
        for L, f, extra, missing, n in count_verdicts(layers):
            r.analysed(f)
            r.ob("count:%s::remove:decrements-on-removal" % L.short, not missing and n > 0, f.site,
                 "count is decremented whenever a route was removed (%d paths)" % n if not missing else "; ".join(sorted(set(missing))[:3]))
        for L in layers:
            g = L.methods["batch_remove"]
            if g is None:
                continue
            r.analysed(g)
            ws = set()
            for h in g.all_bodies():
                ws |= set(effects(h).writes)
            ok = (L.adt, "count") in ws
            r.ob("count:%s::batch_remove" % L.short, ok, g.site,
                 "batch_remove %s `count`%s" % ("updates" if ok else "never updates", "" if ok else ": after a change-set the layer's len() is stale, so the `count` fields of the match traces differ from those of a router built from scratch (and emptied buckets are never pruned)"))
        # trace counts are read from len() of the layers
        for L in layers:
            t = L.methods["trace"]
            if t is None or not L.next:
                continue
            uses = any(cal and cal.local and cal.name == "len" and cal.adt == L.next for g in t.all_bodies() for bi, tt, cal in g.calls())
            r.ob("count:%s::trace:reports-len" % L.short, uses, t.site, "trace reports the child's len() as `count`")
    ctx.run_rule("R19.5", "count bookkeeping surfaces in trace counts", body, floor=20)


def r19_6(ctx):
    """Both impact entry points analyse the rule list *without* any earlier version of the rule
    under analysis: the standalone one skips it while inserting, the project one removes it."""
    F = ctx.facts

    def body(r):
        f = F.fn("api::impact::ImpactOutput::from_impact_project")
        r.analysed(f)
        pv = Prov(f, copies=True)
        rm = [(bi, t) for bi, t, cal in f.calls() if cal and cal.key() == "router::Router::remove"]
        ci = [(bi, t) for bi, t, cal in f.calls() if cal and cal.key() == "api::impact::ImpactOutput::compute_impacts"]
        ok = len(rm) == 1 and len(ci) == 1 and f.dominates(rm[0][0], ci[0][0]) and rm[0][0] != ci[0][0]
        r.ob("impact:project-removes-previous-version", ok, f.site, "Router::remove(rule.id) is executed on every path before compute_impacts" if ok else "the previous version of the analysed rule is not removed on every path (%d remove calls dominating: %s)" % (len(rm), ok))
        if rm:
            a = pv.operand(rm[0][1]["args"][1])
            r.ob("impact:project-removes-the-analysed-rule", mentions_field(a, "id", "api::rule::Rule") and mentions_field(a, "rule"), f.loc(span_line(rm[0][1]["s"])), "removes %s" % show(a, f))
            recv = pv.operand(rm[0][1]["args"][0])
            r.ob("impact:project-removes-from-the-updated-router", mentions(recv, lambda x: x[0] == "call" and x[1] == UPDATE), f.loc(span_line(rm[0][1]["s"])), "on %s" % show(recv, f)[:80])
        g = F.fn("api::impact::ImpactOutput::create_result")
        r.analysed(g)
        s = Sym(g, copies=True)
        lps = [lp for lp in for_loops(g) if mentions_field(lp.source, "rules")]
        rows = {}
        if len(lps) == 1:
            for p in lps[0].iteration_paths(s):
                same = None
                for a, v in p.conds:
                    if a[0] == "call" and "PartialEq" in a[1] and (mentions_field(a[2][0], "id", "api::rule::Rule") and mentions_field(a[2][1], "id", "api::rule::Rule")):
                        same = bool(v)
                ins = any(e[0] == "call" and e[1] == "router::Router::insert" for e in p.events)
                rows[same] = ins
        r.ob("impact:standalone-skips-previous-version", rows == {True: False, False: True}, g.site, "a rule is inserted <=> its id differs from the analysed rule's id: %s" % rows)
    ctx.run_rule("R19.6", "impact analyses drop any earlier version of the analysed rule", body, floor=3)


def run(ctx):
    r19_6(ctx)
    r19_1(ctx)
    r19_2(ctx)
    r19_3(ctx)
    r19_4(ctx)
    r19_5(ctx)
