"""Shared discovery of the router's matcher layers and their bucket fields (used by C01, C02,
C12, C17).  Everything is found by role from the type facts, not by name lists:
the chain starts at the type of `Router.matcher`; a *bucket field* of a layer is a field whose
type mentions the next layer's ADT or route storage (`Arc<Route<T>>`)."""
from riolib.core import MissingAnchor
from riolib.effects import fields_touched

ROUTER = "router::Router"
ROUTE = "router::route::Route"
OPS = ("insert", "remove", "batch_remove", "match_request", "trace", "cache")


class Layer:
    def __init__(self, adt, buckets, nxt):
        self.adt = adt
        self.short = adt.rsplit("::", 1)[1]
        self.buckets = buckets  # field names
        self.next = nxt
        self.methods = {}


def discover(F):
    router = F.adt(ROUTER)
    first = None
    for name, ty in F.adt_fields(ROUTER):
        if name == "matcher":
            first = ty.get("adt")
    if first is None:
        raise MissingAnchor("Router.matcher field / its ADT")
    layers = []
    seen = set()
    cur = first
    while cur and cur not in seen:
        seen.add(cur)
        fields = F.adt_fields(cur)
        # candidate next layers: ADTs under router::request_matcher mentioned by fields
        nxt = None
        buckets = []
        for name, ty in fields:
            adts = ty.get("adts", [])
            others = [a for a in adts if a.startswith("router::request_matcher::") and a != cur and a.endswith("Matcher")]
            if others:
                buckets.append(name)
                if nxt is None:
                    nxt = others[0]
                elif others[0] != nxt:
                    raise MissingAnchor("layer %s has buckets of two different next layers" % cur)
            elif ROUTE in adts:
                buckets.append(name)
        layers.append(Layer(cur, buckets, nxt))
        cur = nxt
    for L in layers:
        for op in OPS:
            L.methods[op] = F.method(L.adt, op, required=False)
    return layers


def bucket_coverage(F, layers, ops, rule, exceptions=None):
    """R01.1-style obligations: every bucket field is touched by every listed operation."""
    exceptions = exceptions or {}
    for L in layers:
        for op in ops:
            m = L.methods.get(op)
            if m is None:
                rule.ob("coverage:%s::%s:missing" % (L.short, op), False, "", "layer %s has no `%s` operation" % (L.short, op))
                continue
            rule.analysed(m)
            touched = fields_touched(m)
            for b in L.buckets:
                key = "coverage:%s::%s:%s" % (L.short, op, b)
                if (L.short, op, b) in exceptions:
                    rule.exception(key, exceptions[(L.short, op, b)])
                    rule.ob(key, True, m.site, "exception: " + exceptions[(L.short, op, b)])
                    continue
                ok = (L.adt, b) in touched
                rule.ob(key, ok, m.site, "`%s::%s` %s bucket `%s`" % (L.short, op, "consults" if ok else "never touches", b))
