#!/bin/sh
# Build the riofacts driver and warm the dependency artefacts (offline).
set -e
cd "$(dirname "$0")"
export CARGO_NET_OFFLINE=true
python3 - <<'PY'
import sys
sys.path.insert(0, ".")
from riolib import build
build.ensure_driver()
print(build.facts_path(None, "default"))
PY
