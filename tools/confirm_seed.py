#!/usr/bin/env python3
"""tools/confirm_seed.py <worktree> <patch> <demo.rs> — confirm a seeded change independently:
suite passes with the change, demo fails with it, demo passes without it.  Prints a JSON verdict.
The worktree (a scratch git worktree of /repo outside /repo and /verif) is left clean."""
import json, os, re, shutil, subprocess, sys

def run(cmd, cwd):
    env = dict(os.environ, CARGO_NET_OFFLINE="true")
    r = subprocess.run(cmd, cwd=cwd, env=env, stdout=subprocess.PIPE, stderr=subprocess.STDOUT, text=True)
    return r.returncode, r.stdout

def main():
    wt, patch, demo = sys.argv[1:4]
    out = {"worktree": wt, "patch": patch}
    run(["git", "checkout", "--", "src"], wt)
    for f in os.listdir(os.path.join(wt, "tests")):
        if f.startswith("verif_demo") or f.startswith("demo_"):
            os.remove(os.path.join(wt, "tests", f))
    rc, o = run(["git", "apply", patch], wt)
    out["applies"] = rc == 0
    if rc != 0:
        out["error"] = o[-300:]
        print(json.dumps(out)); return 1
    rc, o = run(["cargo", "test", "--workspace", "--offline"], wt)
    passed = sum(int(m.group(1)) for m in re.finditer(r"test result: ok\. (\d+) passed", o))
    failed = sum(int(m.group(1)) for m in re.finditer(r"(\d+) failed", o))
    out["suite_with_change"] = {"exit": rc, "passed": passed, "failed": failed}
    dst = os.path.join(wt, "tests", "verif_demo.rs")
    shutil.copy(demo, dst)
    rc, o = run(["cargo", "test", "--offline", "--test", "verif_demo"], wt)
    out["demo_with_change"] = {"exit": rc, "tail": [l for l in o.splitlines() if l.startswith("test ") or "test result" in l][-8:]}
    run(["git", "checkout", "--", "src"], wt)
    rc2, o2 = run(["cargo", "test", "--offline", "--test", "verif_demo"], wt)
    out["demo_without_change"] = {"exit": rc2, "tail": [l for l in o2.splitlines() if "test result" in l][-2:]}
    os.remove(dst)
    out["confirmed"] = out["suite_with_change"]["exit"] == 0 and passed >= 549 and failed == 0 and rc != 0 and rc2 == 0
    print(json.dumps(out, indent=1))
    return 0 if out["confirmed"] else 1

if __name__ == "__main__":
    sys.exit(main())
