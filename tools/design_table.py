#!/usr/bin/env python3
"""Refresh the rule list and obligation count columns of DESIGN.md section 0 from
/verif/evidence/<id>.json (written by the checks themselves)."""
import json, os, re, sys

ROOT = os.path.dirname(os.path.dirname(os.path.abspath(__file__)))


def rules_of(ev):
    found = set()

    def walk(x):
        if isinstance(x, dict):
            for k, v in x.items():
                if k == 'rule' and isinstance(v, str):
                    found.add(v.split()[0])
                walk(v)
        elif isinstance(x, list):
            for v in x:
                walk(v)
    walk(ev)
    return sorted(found, key=lambda r: [int(t) if t.isdigit() else t for t in re.split(r'(\d+)', r)])


def compact(rules):
    if not rules:
        return '—'
    nums = [int(r.split('.')[1]) for r in rules]
    pre = rules[0].split('.')[0]
    if nums == list(range(nums[0], nums[-1] + 1)):
        return '%s.%d–%s.%d' % (pre, nums[0], pre, nums[-1])
    return pre + ' ' + ' '.join('.%d' % n for n in nums)


def main():
    path = os.path.join(ROOT, 'DESIGN.md')
    out = []
    for line in open(path).read().split('\n'):
        m = re.match(r'^\| (C\d\d) \| (yes[^|]*) \| ([^|]*) \| ([^|]*) \| ([^|]*) \|$', line)
        if m:
            pid = m.group(1)
            ev = json.load(open(os.path.join(ROOT, 'evidence', pid + '.json')))
            line = '| %s | %s | %s | %d | %s |' % (pid, m.group(2).strip(), compact(rules_of(ev)),
                                                  ev['coverage']['obligations'], m.group(5).strip())
        out.append(line)
    open(path, 'w').write('\n'.join(out))


if __name__ == '__main__':
    sys.exit(main())
