#!/usr/bin/env python3
"""tools/detect_matrix.py <patch>... — for each patch: apply to a scratch copy of /repo, run every
claimed check (quick tier) against the copy, print which rules report a *new* violation."""
import json, os, shutil, subprocess, sys, tempfile
VERIF = os.path.dirname(os.path.dirname(os.path.abspath(__file__)))
sys.path.insert(0, VERIF)
PROPS = [c["property_id"] for c in json.load(open(os.path.join(VERIF, "MANIFEST.json")))["checks"]]

def main():
    for patch in sys.argv[1:]:
        tmp = tempfile.mkdtemp(prefix="riomat.")
        dst = os.path.join(tmp, "repo")
        try:
            subprocess.check_call(["rsync", "-a", "--exclude", "target", "--exclude", ".git", "/repo/", dst + "/"])
            r = subprocess.run(["patch", "-p1", "-s", "--no-backup-if-mismatch", "-i", os.path.abspath(patch)], cwd=dst, stdout=subprocess.PIPE, stderr=subprocess.STDOUT, text=True)
            if r.returncode != 0:
                print(patch, "DOES NOT APPLY", r.stdout[-200:]); continue
            env = dict(os.environ, VERIF_EVIDENCE_DIR=os.path.join(tmp, "ev"))
            hits = {}
            for p in PROPS:
                r = subprocess.run([os.path.join(VERIF, "check"), p, "--repo", dst], env=env, cwd=VERIF, stdout=subprocess.PIPE, stderr=subprocess.STDOUT, text=True)
                lines = r.stdout.splitlines()
                rules = []
                for i, l in enumerate(lines):
                    if l.startswith("---- ") and l.endswith(" violated"):
                        inst = lines[i + 1].split(":", 1)[1].strip() if i + 1 < len(lines) else ""
                        rules.append((l.split()[1], inst[:90]))
                if r.returncode == 2:
                    rules.append(("ERROR", lines[-1][:120] if lines else ""))
                if rules:
                    hits[p] = rules
            print("==", patch)
            if not hits:
                print("   NOT DETECTED")
            for p, rules in hits.items():
                for rid, inst in rules[:4]:
                    print("   %s %s %s" % (p, rid, inst))
        finally:
            shutil.rmtree(tmp, ignore_errors=True)

if __name__ == "__main__":
    main()
