#!/usr/bin/env python3
"""tools/fill_seed_meta.py [ids...] — run every claimed quick check against a scratch copy of /repo with each
stored seeded change applied and record which properties / rules report it in seeded/<id>/meta.json
(`detected_by`, `rules`).  The thorough tier then re-asserts exactly those detections."""
import json, os, shutil, subprocess, sys, tempfile
from concurrent.futures import ThreadPoolExecutor
VERIF = os.path.dirname(os.path.dirname(os.path.abspath(__file__)))
PROPS = [c["property_id"] for c in json.load(open(os.path.join(VERIF, "MANIFEST.json")))["checks"]]


def one(sid):
    d = os.path.join(VERIF, "seeded", sid)
    tmp = tempfile.mkdtemp(prefix="riomat.")
    dst = os.path.join(tmp, "repo")
    try:
        subprocess.check_call(["rsync", "-a", "--exclude", "target", "--exclude", ".git", "/repo/", dst + "/"])
        r = subprocess.run(["patch", "-p1", "-s", "--no-backup-if-mismatch", "-i", os.path.join(d, "patch.diff")], cwd=dst, stdout=subprocess.PIPE, stderr=subprocess.STDOUT, text=True)
        if r.returncode != 0:
            return sid, None, "DOES NOT APPLY " + r.stdout[-200:]
        env = dict(os.environ, VERIF_EVIDENCE_DIR=os.path.join(tmp, "ev"))
        hits = {}
        inst = {}
        for p in PROPS:
            r = subprocess.run([os.path.join(VERIF, "check"), p, "--repo", dst], env=env, cwd=VERIF, stdout=subprocess.PIPE, stderr=subprocess.STDOUT, text=True)
            lines = r.stdout.splitlines()
            rules = []
            for i, l in enumerate(lines):
                if l.startswith("---- ") and l.endswith(" violated"):
                    rules.append(l.split()[1])
                    inst.setdefault(p, []).append("%s %s" % (l.split()[1], lines[i + 1].split(":", 1)[1].strip() if i + 1 < len(lines) else ""))
            if r.returncode == 2:
                return sid, None, "ERROR in %s: %s" % (p, lines[-1][:200] if lines else "")
            if r.returncode == 1 and rules:
                hits[p] = sorted(set(rules))
        return sid, (hits, inst), ""
    finally:
        shutil.rmtree(tmp, ignore_errors=True)


def main():
    ids = sys.argv[1:] or sorted(os.listdir(os.path.join(VERIF, "seeded")))
    with ThreadPoolExecutor(max_workers=5) as ex:
        for sid, hits, err in ex.map(one, ids):
            if hits is None:
                print(sid, err); continue
            mp = os.path.join(VERIF, "seeded", sid, "meta.json")
            m = json.load(open(mp))
            hits, inst = hits
            m["detected_by"] = sorted(hits)
            m["rules"] = hits
            m["instances"] = inst
            json.dump(m, open(mp, "w"), indent=1, sort_keys=True)
            print(sid, "->", hits if hits else "NOT DETECTED")


if __name__ == "__main__":
    main()
