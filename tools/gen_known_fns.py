#!/usr/bin/env python3
"""tools/gen_known_fns.py — (re)generate /verif/known_fns.json: the def paths of every local body of /repo's
current tree in every analysed configuration.  These are the functions the rules were confirmed against;
riolib/inline.py treats any other local function as a new helper and inlines it into its callers.
Run it only after the rules have been re-confirmed on the tree (it is a frozen table, never written by a check)."""
import json, os, sys
VERIF = os.path.dirname(os.path.dirname(os.path.abspath(__file__)))
sys.path.insert(0, VERIF)
from riolib import build

paths = set()
for cfg in build.CONFIGS:
    with open(build.facts_path(None, cfg)) as fh:
        d = json.load(fh)
    for f in d["fns"]:
        paths.add(f["path"])
    print(cfg, len(d["fns"]), "bodies")
import subprocess
head = subprocess.run(["git", "-C", "/repo", "rev-parse", "HEAD"], stdout=subprocess.PIPE, text=True).stdout.strip()
json.dump({"reference_commit": head, "paths": sorted(paths)}, open(os.path.join(VERIF, "known_fns.json"), "w"), indent=0)
print(len(paths), "paths")
