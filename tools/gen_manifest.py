#!/usr/bin/env python3
"""Regenerate /verif/MANIFEST.json from the table below (one entry per property)."""
import json
import os

VERIF = os.path.dirname(os.path.dirname(os.path.abspath(__file__)))

TRUST = "Trusted: rustc nightly MIR construction and trait resolution; semantics of std / third-party APIs as frozen in riolib tables; the reference tables and exception tables in rules/ (derived by reading). Decides necessary structural conditions, not the behavioural statement as a whole."

CLAIMED = {
    "C01": ("Static decision of structural necessary conditions of exact matching on every MIR path: bucket coverage of insert/match over the 7 discovered layers (16 buckets), insert totality (count += 1 once, route reaches a bucket), the any-host decision table, half-open time windows and cidr polarity as truth tables, duplicate-free union, option flags read by value, statelessness (no interior mutability / mutable statics reachable), case flag reaching every regex build, and single-id removal visiting every bucket a route can live in (a removed rule must stop matching under each of its methods / hosts). Also: hand-written orderings of bucket keys compare the whole key (R01.14).",
            "static analysis: MIR dataflow + path-sensitive decision tables + type walk", "DESIGN.md §3 C01"),
    "C02": ("Static decision of the mechanisms that keep incremental updates equal to a rebuild: bucket coverage of remove/batch_remove, removal-result propagation (dropped-result analysis over 20+ call sites incl. closures), router index/tree synchronisation (field effects), change-set ordering (dominance), no spurious count decrement, clone isolation at the type level (interior-mutability inventory, no unsafe, clone-then-mutate provenance, manual Clone impls copy every field). Also: a route found by one bucket is not overwritten by a later bucket's None (R02.2), and update_existing_router hands the change-set lists over as given (R02.6).",
            "static analysis: dropped-result / dominance / field-effect / type-level checks over MIR", "DESIGN.md §3 C02"),
    "C13": ("Static decision of the structural mechanisms behind the property: the dispatch table (operation name -> implementation, fields from the filter), the per-operation decision tables over the atom 'names equal' compared as functions with the five reference operations, lower-casing of both operands of every name comparison, the forward fold, and Action::filter_headers keeping every header filter admitted by its response-code guard, in stored order, on the list handed to the fold. Decided for all inputs because they are facts about all MIR paths. Also: the chain is built with one action per filter and every action of the fold is applied (R13.4).",
            "static analysis: path-sensitive decision tables extracted from MIR and compared with reference tables", "DESIGN.md §3 C13"),
    "C17": ("Static sibling cross-check between match_request and trace of every layer: same buckets, same request accessors and trigger predicates, same any-host decision table, same priority sort key, trace on the normalised request, unmatched trace nodes never carry routes (path-sensitive), and the per-request condition memo written by trace holds the result of evaluating that condition (under a proved loop invariant on the matched/executed flags), as in matching. Also: get_trace assembles its answer from the traces alone, computed child traces are attached unmodified, request values and tree look-ups are tested in trace as in matching. Also (round 5): the list the action trace folds over is de-duplicated (a rule traced in several buckets is applied once, like the live pipeline: D26).",
            "static analysis: sibling agreement (callee sets, decision tables) over MIR", "DESIGN.md §3 C17"),
}

NOT_APPLICABLE = {
    "C14": "quantifies over the output of third-party streaming codecs at every split of the compressed stream; no sound static argument in reach (DESIGN §5)",
    "C15": "where an edit lands relative to the target's tags for every generated DOM is a function of the run-time token stream; no structural clause decides it (DESIGN §5)",
}

ALL = ["C%02d" % i for i in range(1, 20)]


def main():
    # pick up additional claimed properties registered by rules/*.py having a MANIFEST dict
    import importlib
    import sys
    sys.path.insert(0, VERIF)
    sys.dont_write_bytecode = True
    for pid in ALL:
        try:
            mod = importlib.import_module("rules.%s" % pid.lower())
        except ImportError:
            continue
        m = getattr(mod, "MANIFEST", None)
        if m and pid not in CLAIMED:
            CLAIMED[pid] = (m["text"], m["technique"], m.get("design_ref", "DESIGN.md §3 %s" % pid))
    checks = []
    for pid in ALL:
        if pid not in CLAIMED:
            continue
        text, tech, ref = CLAIMED[pid]
        checks.append({
            "property_id": pid,
            "quick_cmd": "./check %s --tier quick" % pid,
            "thorough_cmd": "./check %s --tier thorough" % pid,
            "evidence_file": "evidence/%s.json" % pid,
            "replay_cmd_template": "./check %s --replay {path}" % pid,
            "engine": "riofacts+riolib",
            "level_claimed": {"category": "other", "text": text, "design_ref": ref},
            "level_note": TRUST,
            "technique": tech,
        })
    na = []
    for pid in ALL:
        if pid in CLAIMED:
            continue
        na.append({"property_id": pid, "reason": NOT_APPLICABLE.get(pid, "check not built yet (planned, DESIGN §3 %s)" % pid)})
    hooks_commits = []
    m = {
        "version": 1,
        "setup_cmd": "./setup.sh",
        "hooks": {
            "guard": "redirectionio_verif",
            "enable": "no source hooks are needed: the checks read the compiler's type-checked MIR of /repo's working tree (cargo +nightly check under the riofacts RUSTC_WORKSPACE_WRAPPER)",
            "baseline_off_cmd": "cd /repo && cargo test --workspace --no-fail-fast --offline",
            "source_commits": hooks_commits,
            "add_only": True,
        },
        "engines": [{
            "name": "riofacts+riolib",
            "path": "riofacts/ riolib/ rules/ check",
            "serves_properties": sorted(CLAIMED),
            "kind_free_text": "rustc_private driver dumping type-checked MIR/ADT/impl/const facts of /repo + Python rule engine (call graph, dominators, provenance, field effects, path-sensitive decision tables); no library code is executed",
        }],
        "checks": checks,
        "notes": "Static-analysis family only. Before the rules run, the MIR facts are normalised (riolib/inline.py, riolib/desugar.py): local functions unknown to the reference table known_fns.json are inlined into their callers, iterator chains / Option combinators whose closures call local functions are written out as the loops / matches they abbreviate - so that extracted helpers and iterator-style rewrites are read like the code they replace. The thorough tier replays 51 stored breaking changes (must be reported by the recorded rule) and 87 + 19 behaviour-preserving refactorings (must stay silent). Defects found by the rules and repaired in /repo are listed in known_findings.json (status fixed) with their fix: commits; tools/repro.sh + repro/defects.rs reproduce each of them at run time for triage only (not a check).",
        "not_applicable": na,
    }
    with open(os.path.join(VERIF, "MANIFEST.json"), "w") as fh:
        json.dump(m, fh, indent=1)
    print("claimed:", sorted(CLAIMED), "n/a:", [x["property_id"] for x in na])


if __name__ == "__main__":
    main()
