#!/usr/bin/env python3
"""tools/neutral_matrix.py [--props C04,C09,...] [dirs...] — apply every stored neutral refactoring (neutral/<id>/patch.diff) to a
scratch copy of /repo, run the given checks (default: all claimed) and print the alarms they raise that the unchanged tree does not.
Development aid (the thorough tier asserts the same per property)."""
import json, os, shutil, subprocess, sys, tempfile
from concurrent.futures import ThreadPoolExecutor
VERIF = os.path.dirname(os.path.dirname(os.path.abspath(__file__)))
ALL = [c["property_id"] for c in json.load(open(os.path.join(VERIF, "MANIFEST.json")))["checks"]]


def one(args):
    d, props = args
    tmp = tempfile.mkdtemp(prefix="rioneu.")
    dst = os.path.join(tmp, "repo")
    try:
        subprocess.check_call(["rsync", "-a", "--exclude", "target", "--exclude", ".git", "/repo/", dst + "/"])
        r = subprocess.run(["patch", "-p1", "-s", "--no-backup-if-mismatch", "-i", os.path.join(d, "patch.diff")], cwd=dst, stdout=subprocess.PIPE, stderr=subprocess.STDOUT, text=True)
        if r.returncode != 0:
            return d, "DOES NOT APPLY"
        env = dict(os.environ, VERIF_EVIDENCE_DIR=os.path.join(tmp, "ev"))
        hits = {}
        for p in props:
            r = subprocess.run([os.path.join(VERIF, "check"), p, "--repo", dst], env=env, cwd=VERIF, stdout=subprocess.PIPE, stderr=subprocess.STDOUT, text=True)
            lines = r.stdout.splitlines()
            rules = [(l.split()[1], lines[i + 1].split(":", 1)[1].strip()[:90]) for i, l in enumerate(lines) if l.startswith("---- ") and l.endswith(" violated")]
            if r.returncode == 2:
                rules.append(("ERROR", lines[-1][:150] if lines else ""))
            if rules:
                hits[p] = rules
        return d, hits
    finally:
        shutil.rmtree(tmp, ignore_errors=True)


def main():
    args = sys.argv[1:]
    props = ALL
    if args and args[0] == "--props":
        props = args[1].split(","); args = args[2:]
    dirs = args or sorted(os.path.join(VERIF, "neutral", x) for x in os.listdir(os.path.join(VERIF, "neutral")))
    with ThreadPoolExecutor(max_workers=8) as ex:
        for d, hits in ex.map(one, [(d, props) for d in dirs]):
            print(os.path.basename(d), "->", hits if hits else "silent", flush=True)


if __name__ == "__main__":
    main()
