#!/bin/sh
# tools/repro.sh [test-name-filter] — run /verif/repro/defects.rs (asserting reproductions of the
# defects listed in DESIGN §4 / known_findings.json) against a scratch copy of /repo's working
# tree.  Not a check: it executes library code and exists only to confirm defects and repairs.
# The scratch copy lives in /tmp/riorepro (delete it when done: rm -rf /tmp/riorepro).
set -e
SRC=${VERIF_REPO:-/repo}
W=/tmp/riorepro
mkdir -p $W
rsync -a --delete --exclude target --exclude .git "$SRC"/ $W/repo/
cp /verif/repro/defects.rs $W/repo/tests/verif_defects.rs
cd $W/repo
PUBLISH_SKIP_BUILD=1 CARGO_NET_OFFLINE=true CARGO_TARGET_DIR=$W/target cargo test --offline --test verif_defects -- --test-threads 8 "$@" 2>&1 | grep -v "^warning\|^ *|\|^ *=\|^$" | tail -60
