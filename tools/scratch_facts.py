#!/usr/bin/env python3
"""tools/scratch_facts.py <patch> -- apply patch to a scratch copy of /repo, generate facts, print the facts path
(kept in .cache) so that rules can be debugged interactively.  Scratch copy is removed."""
import os, shutil, subprocess, sys, tempfile
VERIF = os.path.dirname(os.path.dirname(os.path.abspath(__file__)))
sys.path.insert(0, VERIF)
from riolib import build
tmp = tempfile.mkdtemp(prefix="riodbg.")
dst = os.path.join(tmp, "repo")
try:
    subprocess.check_call(["rsync", "-a", "--exclude", "target", "--exclude", ".git", "/repo/", dst + "/"])
    subprocess.check_call(["patch", "-p1", "-s", "--no-backup-if-mismatch", "-i", os.path.abspath(sys.argv[1])], cwd=dst)
    p = build.facts_path(dst, "default")
    out = "/tmp/dbg_facts.json"
    shutil.copyfile(p, out)
    print(out)
finally:
    shutil.rmtree(tmp, ignore_errors=True)
