#!/bin/bash
# tools/scratch_repo.sh <patch> : (re)create /tmp/dbg_repo = /repo + patch, for `./check <ID> --repo /tmp/dbg_repo`
rm -rf /tmp/dbg_repo; mkdir -p /tmp/dbg_repo
rsync -a --exclude target --exclude .git /repo/ /tmp/dbg_repo/
patch -p1 -s --no-backup-if-mismatch -d /tmp/dbg_repo -i "$(realpath $1)" && echo ready
