#!/usr/bin/env python3
"""tools/store_neutral.py <srcdir> <suffix> <round> [open-id ...] — store the behaviour-preserving refactorings a
round of sub-agents left in <srcdir>/<P>/r<k>.{diff,md} as /verif/neutral/<P>_<suffix><k> (or /verif/neutral_open/...
for the ids named as still alarming).  Each is first re-confirmed: applied to a scratch copy of /repo's working tree
(outside /repo and /verif), `cargo test --workspace --no-fail-fast --offline` must give 549 passed, 0 failed."""
import glob, json, os, re, shutil, subprocess, sys, tempfile
from concurrent.futures import ThreadPoolExecutor
VERIF = os.path.dirname(os.path.dirname(os.path.abspath(__file__)))
PROPS = [json.loads(l) for l in open(os.path.join(VERIF, "properties.jsonl"))]
CLAIMED = {c["property_id"] for c in json.load(open(os.path.join(VERIF, "MANIFEST.json")))["checks"]}


def confirm(diff, lane_dir):
    dst = os.path.join(lane_dir, "repo")
    subprocess.check_call(["rsync", "-a", "--delete", "--exclude", "target", "--exclude", ".git", "/repo/", dst + "/"])
    r = subprocess.run(["patch", "-p1", "-s", "--no-backup-if-mismatch", "-i", diff], cwd=dst, stdout=subprocess.PIPE, stderr=subprocess.STDOUT, text=True)
    if r.returncode != 0:
        return None, "does not apply: " + r.stdout[-200:]
    env = dict(os.environ, CARGO_NET_OFFLINE="true", CARGO_TARGET_DIR=os.path.join(lane_dir, "target"))
    o = subprocess.run(["cargo", "test", "--workspace", "--no-fail-fast", "--offline"], cwd=dst, env=env, stdout=subprocess.PIPE, stderr=subprocess.STDOUT, text=True).stdout
    passed = sum(int(m.group(1)) for m in re.finditer(r"test result: \w+\. (\d+) passed", o))
    failed = sum(int(m.group(1)) for m in re.finditer(r"(\d+) failed", o))
    return (passed, failed), ""


def main():
    src, suffix, rnd = sys.argv[1], sys.argv[2], int(sys.argv[3])
    still_open = set(sys.argv[4:])
    diffs = sorted(glob.glob(os.path.join(src, "C*", "r*.diff")))
    lanes = [tempfile.mkdtemp(prefix="rioneu.") for _ in range(4)]
    jobs = [(d, lanes[i % 4]) for i, d in enumerate(diffs)]

    def lane(k):
        out = []
        for d, ld in jobs:
            if ld == lanes[k]:
                out.append((d, confirm(d, ld)))
        return out
    try:
        with ThreadPoolExecutor(max_workers=4) as ex:
            results = [x for part in ex.map(lane, range(4)) for x in part]
    finally:
        for ld in lanes:
            shutil.rmtree(ld, ignore_errors=True)
    for d, (res, err) in results:
        p = os.path.basename(os.path.dirname(d))
        k = re.search(r"r(\d+)\.diff$", d).group(1)
        nid = "%s_%s%s" % (p, suffix, k)
        if res is None or res != (549, 0):
            print(nid, "NOT STORED", res, err)
            continue
        files = sorted(set(re.findall(r"^\+\+\+ b/(\S+)", open(d).read(), re.M)))
        props = sorted({q["id"] for q in PROPS if q["id"] in CLAIMED and (q["id"] == p or any(f in q.get("anchors", {}).get("files", []) for f in files))})
        base = "neutral_open" if "%s/r%s" % (p, k) in still_open else "neutral"
        dd = os.path.join(VERIF, base, nid)
        os.makedirs(dd, exist_ok=True)
        shutil.copyfile(d, os.path.join(dd, "patch.diff"))
        md = d[:-5] + ".md"
        if os.path.exists(md):
            shutil.copyfile(md, os.path.join(dd, "notes.md"))
        json.dump({"id": nid, "round": rnd, "written_for": p, "expect": "silent" if base == "neutral" else "silent (still raises a fail-closed alarm: DESIGN §6)", "files": files, "properties": props,
                   "origin": "independent sub-agent (round %d) given only the text of %s and a scratch worktree" % (rnd, p),
                   "confirmed_by_me": {"suite": "549 passed, 0 failed with the patch applied (tools/store_neutral.py: cargo test --workspace --no-fail-fast --offline on a scratch copy of /repo at the time of storing)"}},
                  open(os.path.join(dd, "meta.json"), "w"), indent=1, sort_keys=True)
        print(nid, "stored in", base)


if __name__ == "__main__":
    main()
