#!/usr/bin/env python3
"""tools/store_sb.py [--round3] <prop>... — store the confirmed second-round seeded changes of /tmp/sb/<prop>/_out as
/verif/seeded/<prop>_c and <prop>_d (patch.diff, demo.rs, notes.md, meta.json); with --round3 those of
/tmp/sc/<prop>/_out as <prop>_e and <prop>_f."""
import json, os, shutil, sys
ARGS = sys.argv[1:]
ROUND3 = ARGS[:1] == ["--round3"]
ROUND4 = ARGS[:1] == ["--round4"]
if ROUND3 or ROUND4:
    ARGS = ARGS[1:]
for p in ARGS:
    for x, y in ((("g", "g"), ("h", "h")) if ROUND4 else (("e", "e"), ("f", "f")) if ROUND3 else (("a", "c"), ("b", "d"))):
        src = ("/tmp/sd/%s/_out" if ROUND4 else "/tmp/sc/%s/_out" if ROUND3 else "/tmp/sb/%s/_out") % p
        pf = "%s/mut_%s.patch.diff" % (src, x)
        cf = "%s/confirm_%s.json" % (src, x)
        if not (os.path.exists(pf) and os.path.exists(cf)):
            print(p, x, "missing"); continue
        c = json.load(open(cf))
        if not c.get("confirmed"):
            print(p, x, "NOT CONFIRMED", c); continue
        d = "/verif/seeded/%s_%s" % (p, y)
        os.makedirs(d, exist_ok=True)
        shutil.copyfile(pf, d + "/patch.diff")
        shutil.copyfile("%s/mut_%s_demo.rs" % (src, x), d + "/demo.rs")
        notes = "%s/mut_%s_notes.md" % (src, x)
        if os.path.exists(notes):
            shutil.copyfile(notes, d + "/notes.md")
        first = ""
        if os.path.exists(notes):
            first = " ".join(open(notes).read().split())[:400]
        json.dump({"id": "%s_%s" % (p, y), "breaks_property": p, "round": 4 if ROUND4 else 3 if ROUND3 else 2,
                   "origin": "independent sub-agent (%s round) given only the property text, the list of situations the earlier changes need to manifest, and a scratch worktree" % ("fourth" if ROUND4 else "third" if ROUND3 else "second"),
                   "needs_to_manifest": first,
                   "confirmed_by_me": {"command": "tools/confirm_seed.py <scratch worktree> patch.diff demo.rs", "confirmed": True,
                                       "suite_with_change": c.get("suite_with_change"), "demo": {k: v for k, v in c.items() if k.startswith("demo")}},
                   "detected_by": [], "rules": {}}, open(d + "/meta.json", "w"), indent=1, sort_keys=True)
        print("stored", d)
