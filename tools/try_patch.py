#!/usr/bin/env python3
"""tools/try_patch.py <patch> <PROP> [<PROP>...] — apply a patch to a scratch copy of /repo's
working tree (outside /repo and /verif), run the given checks against the copy, delete it.
Prints the checks' output; exit code = max of the checks' exit codes."""
import os
import shutil
import subprocess
import sys
import tempfile

VERIF = os.path.dirname(os.path.dirname(os.path.abspath(__file__)))


def main():
    patch = os.path.abspath(sys.argv[1])
    props = sys.argv[2:]
    tmp = tempfile.mkdtemp(prefix="riomut.")
    dst = os.path.join(tmp, "repo")
    try:
        subprocess.check_call(["rsync", "-a", "--exclude", "target", "--exclude", ".git", "/repo/", dst + "/"])
        r = subprocess.run(["patch", "-p1", "-s", "-i", patch], cwd=dst, stdout=subprocess.PIPE, stderr=subprocess.STDOUT, text=True)
        if r.returncode != 0:
            print("PATCH DOES NOT APPLY:\n" + r.stdout)
            return 3
        rc = 0
        env = dict(os.environ, VERIF_EVIDENCE_DIR=os.path.join(tmp, "evidence"))
        for p in props:
            r = subprocess.run([os.path.join(VERIF, "check"), p, "--repo", dst], env=env, cwd=VERIF)
            rc = max(rc, r.returncode)
        return rc
    finally:
        shutil.rmtree(tmp, ignore_errors=True)


if __name__ == "__main__":
    sys.exit(main())
