#!/usr/bin/env python3
"""tools/try_sub.py <PROP[,PROP..]> <file> <old> <new> [<file> <old> <new> ...] — textual
substitution on a scratch copy of /repo, then run the given checks against the copy; prints only
violation summaries.  Development aid for testing that rules fire (seeded variants)."""
import os, shutil, subprocess, sys, tempfile
VERIF = os.path.dirname(os.path.dirname(os.path.abspath(__file__)))

def main():
    props = sys.argv[1].split(",")
    subs = sys.argv[2:]
    tmp = tempfile.mkdtemp(prefix="riomut.")
    dst = os.path.join(tmp, "repo")
    try:
        subprocess.check_call(["rsync", "-a", "--exclude", "target", "--exclude", ".git", "/repo/", dst + "/"])
        for i in range(0, len(subs), 3):
            p = os.path.join(dst, subs[i])
            t = open(p).read()
            if t.count(subs[i + 1]) != 1:
                print("SUBSTITUTION TARGET occurs %d times in %s" % (t.count(subs[i + 1]), subs[i]))
                return 3
            open(p, "w").write(t.replace(subs[i + 1], subs[i + 2]))
        if os.environ.get("SAVE_PATCH"):
            r = subprocess.run(["diff", "-ruN", "--exclude", "target", "--exclude", ".git", "/repo/src", dst + "/src"], stdout=subprocess.PIPE, text=True)
            open(os.environ["SAVE_PATCH"], "w").write(r.stdout.replace(dst + "/", "b/").replace("/repo/", "a/"))
        env = dict(os.environ, VERIF_EVIDENCE_DIR=os.path.join(tmp, "evidence"))
        rc = 0
        for p in props:
            r = subprocess.run([os.path.join(VERIF, "check"), p, "--repo", dst], env=env, cwd=VERIF, stdout=subprocess.PIPE, stderr=subprocess.STDOUT, text=True)
            rc = max(rc, r.returncode)
            lines = r.stdout.splitlines()
            for i, l in enumerate(lines):
                if l.startswith("----") or l.startswith("  instance") or l.startswith("  detail") or l.startswith("INFRA") or l.startswith("INTERNAL") or "error" in l.lower():
                    print(l[:300])
            print(lines[-1] if lines else "")
        return rc
    finally:
        shutil.rmtree(tmp, ignore_errors=True)

if __name__ == "__main__":
    sys.exit(main())
