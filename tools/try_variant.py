#!/usr/bin/env python3
"""tools/try_variant.py [--test] <variant-name>... — apply a variant from /verif/variants/*.json to a scratch
copy of /repo, run every claimed quick check against the copy and print the rules that report something the
unchanged tree does not.  With --test also run the repository's test suite on the copy (a neutral variant must
keep it green).  Development aid."""
import glob, json, os, shutil, subprocess, sys, tempfile
VERIF = os.path.dirname(os.path.dirname(os.path.abspath(__file__)))
sys.path.insert(0, VERIF)
from riolib.thorough import apply_variant
PROPS = [c["property_id"] for c in json.load(open(os.path.join(VERIF, "MANIFEST.json")))["checks"]] + [p for p in ("C14", "C15") if os.path.exists(os.path.join(VERIF, "rules", p.lower() + ".py")) and p not in [c["property_id"] for c in json.load(open(os.path.join(VERIF, "MANIFEST.json")))["checks"]]]


def main():
    args = sys.argv[1:]
    test = "--test" in args
    names = [a for a in args if a != "--test"]
    allv = {}
    for p in glob.glob(os.path.join(VERIF, "variants", "*.json")):
        for v in json.load(open(p)):
            allv[v["name"]] = v
    for n in names:
        v = allv[n]
        tmp = tempfile.mkdtemp(prefix="riovar.")
        dst = os.path.join(tmp, "repo")
        try:
            subprocess.check_call(["rsync", "-a", "--exclude", "target", "--exclude", ".git", "/repo/", dst + "/"])
            ok, why = apply_variant(v, dst)
            if not ok:
                print(n, "DOES NOT APPLY:", why); continue
            env = dict(os.environ, VERIF_EVIDENCE_DIR=os.path.join(tmp, "ev"))
            hits = {}
            for p in PROPS:
                r = subprocess.run([os.path.join(VERIF, "check"), p, "--repo", dst], env=env, cwd=VERIF, stdout=subprocess.PIPE, stderr=subprocess.STDOUT, text=True)
                lines = r.stdout.splitlines()
                if r.returncode == 2:
                    hits[p] = ["ERROR " + (lines[-1][:200] if lines else "")]
                rules = [(l.split()[1], lines[i + 1].split(":", 1)[1].strip()[:80]) for i, l in enumerate(lines) if l.startswith("---- ") and l.endswith(" violated")]
                if rules:
                    hits[p] = rules
            print("==", n, "expect", v.get("expect"), "->", hits if hits else "silent")
            if test:
                r = subprocess.run("cargo test --workspace --no-fail-fast --offline 2>&1 | grep -E '^test result|FAILED|error' | head -20", shell=True, cwd=dst, env=dict(os.environ, CARGO_TARGET_DIR=os.path.join(tmp, "target")), stdout=subprocess.PIPE, text=True)
                print(r.stdout)
        finally:
            shutil.rmtree(tmp, ignore_errors=True)


if __name__ == "__main__":
    main()
