//! Compile-fail witnesses (type-level encodings) with their compiling twins.  Each witness is a
//! rustdoc test `compile_fail,E0xxx`; the twin differs only by the offending line, so that a
//! witness whose paths are merely wrong cannot pass by accident.  Run by the thorough tier with
//! `cargo +nightly test --doc --offline` (the stable toolchain ignores the error code).

/// W1 (C02): a router shared behind an `Arc` cannot be updated — `remove` needs `&mut`.
/// ```compile_fail,E0596
/// use std::sync::Arc;
/// use redirectionio::{api::Rule, router::Router, RouterConfig};
/// let shared: Arc<Router<Rule>> = Arc::new(Router::from_config(RouterConfig::default()));
/// shared.remove("r1"); // cannot borrow data in an `Arc` as mutable
/// ```
pub fn w1_shared_router_remove() {}

/// W1 twin: the same call on an owned clone compiles (and leaves the shared router alone).
/// ```
/// use std::sync::Arc;
/// use redirectionio::{api::Rule, router::Router, RouterConfig};
/// let shared: Arc<Router<Rule>> = Arc::new(Router::from_config(RouterConfig::default()));
/// let mut own = shared.as_ref().clone();
/// own.remove("r1");
/// assert_eq!(shared.len(), 0);
/// ```
pub fn w1_twin_owned_clone_remove() {}

/// W1b (C02): `apply_change_set` through the `Arc` is rejected as well.
/// ```compile_fail,E0596
/// use std::sync::Arc;
/// use std::collections::HashSet;
/// use redirectionio::{api::Rule, router::Router, RouterConfig};
/// let shared: Arc<Router<Rule>> = Arc::new(Router::from_config(RouterConfig::default()));
/// shared.apply_change_set(Vec::new(), Vec::new(), HashSet::new());
/// ```
pub fn w1_shared_router_apply_change_set() {}

/// W1b twin.
/// ```
/// use std::sync::Arc;
/// use std::collections::HashSet;
/// use redirectionio::{api::Rule, router::Router, RouterConfig};
/// let shared: Arc<Router<Rule>> = Arc::new(Router::from_config(RouterConfig::default()));
/// let mut own = shared.as_ref().clone();
/// own.apply_change_set(Vec::new(), Vec::new(), HashSet::new());
/// ```
pub fn w1_twin_owned_clone_apply_change_set() {}

/// W2 (C18): a `Buffer` is move-only — releasing it twice does not type-check.
/// ```compile_fail,E0382
/// use redirectionio::filter::Buffer;
/// let b = Buffer::from_vec(vec![1, 2, 3]);
/// let first = b.into_vec();
/// let second = b.into_vec(); // use of moved value
/// ```
pub fn w2_buffer_double_release() {}

/// W2 twin: one release compiles.
/// ```
/// use redirectionio::filter::Buffer;
/// let b = Buffer::from_vec(vec![1, 2, 3]);
/// let first = b.into_vec();
/// assert_eq!(first, vec![1, 2, 3]);
/// ```
pub fn w2_twin_buffer_single_release() {}

/// W3 (C12): warming the cache needs exclusive access — it cannot happen behind a shared reference
/// while another thread matches.
/// ```compile_fail,E0596
/// use redirectionio::{api::Rule, router::Router, RouterConfig};
/// let router: Router<Rule> = Router::from_config(RouterConfig::default());
/// let shared = &router;
/// shared.cache(None);
/// ```
pub fn w3_cache_through_shared_reference() {}

/// W3 twin: matching, tracing and lookup work through a shared reference; cache through `&mut`.
/// ```
/// use redirectionio::{api::Rule, http::Request, router::Router, RouterConfig};
/// let cfg = RouterConfig::default();
/// let mut router: Router<Rule> = Router::from_config(cfg.clone());
/// {
///     let shared = &router;
///     let q = Request::from_config(&cfg, "/a".to_string(), None, None, None, None, None);
///     assert!(shared.match_request(&q).is_empty());
///     assert!(shared.trace_request(&q).len() > 0);
///     assert!(shared.get_route(&q).is_none());
/// }
/// router.cache(None);
/// ```
pub fn w3_twin_shared_matching_exclusive_cache() {}
